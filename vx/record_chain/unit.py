UNIT = dict(
    sources={"r": "src/core/record.rs"},
    uses=["use std::sync::Arc;"],
    prelude=["chain_opaque.rs"],
    rules=["chainmisc", "forvec"],
    forvec=["path"],
    forbid=[r"\.\s*get\s*\(\s*\)\s*\.\s*cloned", r"\.\s*max\s*\("],
    items=[
        ("impl", "r", "Record", ["retirement_timestamp", "successor_is_durable_or_deleted"], {"header": "impl Record {"}),
    ],
    contracts="contracts.vc",
    spec=["spec.rs"],
)
