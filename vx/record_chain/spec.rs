// `s` is reached from `r` by following `n` successor links
pub open spec fn succ_chain(r: Arc<Record>, s: Arc<Record>, n: nat) -> bool
    decreases n,
{
    if n == 0 { r == s } else { r.successor.val() matches Some(p) && succ_chain(p, s, (n - 1) as nat) }
}
pub proof fn lemma_succ_extend(r: Arc<Record>, s: Arc<Record>, n: nat, t: Arc<Record>)
    requires succ_chain(r, s, n), s.successor.val() == Some(t),
    ensures succ_chain(r, t, n + 1),
    decreases n,
{
    if n == 0 {
        assert(succ_chain(t, t, 0));
    } else {
        lemma_succ_extend(r.successor.val()->Some_0, s, (n - 1) as nat, t);
    }
}
// a generation on the chain that makes the predecessor's extent safe to retire: it is on disk, already known safe, or it is a deleted tail
pub open spec fn settles(s: Arc<Record>) -> bool {
    s.sector.val() > 0 || s.successor_safe.val() || (s.successor.val() is None && s.refcount.val() == 0)
}
// the successor chain is deterministic: two walks from the same start agree
pub proof fn lemma_chain_det(r: Arc<Record>, s: Arc<Record>, n: nat, c: Arc<Record>, h: nat)
    requires succ_chain(r, s, n), succ_chain(r, c, h), n >= h,
    ensures succ_chain(c, s, (n - h) as nat),
    decreases h,
{
    if h > 0 {
        lemma_chain_det(r.successor.val()->Some_0, s, (n - 1) as nat, c, (h - 1) as nat);
    }
}
