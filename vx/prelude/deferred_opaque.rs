// The deferred (TTL-only rewrite) path of prepare_record_data reads the predecessor's extent from the
// device: outside this unit. Trusted (A11): a buffer it returns has the requested padded size - the real
// function returns InvalidRecord when `data.len() != padded_size`.
#[verifier::external_body]
pub struct DiskHandle { _p: () }

#[verifier::external_body]
pub fn prepare_deferred_record_data(record: &Record, format: &impl RecordFormat, disk_io: &DiskHandle, padded_size: usize) -> (r: Result<Vec<u8>>)
    ensures r matches Ok(d) ==> d@.len() == padded_size,
{
    unimplemented!()
}
