// Additions to upd_opaque.rs for the TTL calls (unit ttl_path; C11 / C12 / C13 / C16). TRUSTED (A17):
// the index method `update` is an opaque shim that may run the lifted closure under the entry guard;
// a record's resident bytes / deferred source are abstract; the cache handle for one generation hands
// out that generation's bytes (unit cache decides that entries are designated by generation).

// a deferred generation: the predecessor whose disk extent still holds the value bytes
pub uninterp spec fn rec_source(r: &Record) -> Option<Arc<Record>>;
// what the read cache holds for one generation (unit cache: entries are tagged by generation)
pub uninterp spec fn cached_value_of(r: &Arc<Record>) -> Seq<u8>;
// the value VersionClock::next(key, wall) returns (Kani unit version_clock: >= wall, > every earlier value of the shard)
pub uninterp spec fn clock_next_val(key: Seq<u8>, wall: u64) -> u64;

impl VersionClock {
    #[verifier::external_body]
    pub fn next(&self, key: &[u8], wall: u64) -> (r: u64)
        ensures r == clock_next_val(key@, wall),
    {
        unimplemented!()
    }
}

impl Record {
    #[verifier::external_body]
    pub fn get_value(&self) -> (v: Option<Bytes>)
        ensures
            v matches Some(b) ==> (rec_resident(self) == Some(b.view()) && b.view().len() == rec_value_len(self)),
            v is None ==> rec_resident(self) is None,
    {
        unimplemented!()
    }
    #[verifier::external_body]
    pub fn new_deferred_with_ttl(predecessor: &Arc<Record>, timestamp: u64, ttl_expiry: u64) -> (r: Record)
        ensures
            r.key@ == predecessor.key@,
            r.timestamp == timestamp,
            r.ttl_expiry.val() == ttl_expiry,
            rec_value_len(&r) == rec_value_len(&**predecessor),
            rec_resident(&r) is None,
            rec_source(&r) == Some(*predecessor),
    {
        unimplemented!()
    }
}

// the cache's handle on the entry of exactly one generation (cache.rs RecordCacheEntry; unit cache)
#[verifier::external_body]
pub struct RecordCacheEntryH { _p: () }
impl RecordCacheEntryH {
    pub uninterp spec fn of(&self) -> Arc<Record>;
    #[verifier::external_body]
    pub fn value(&self) -> (v: Option<Bytes>)
        ensures v matches Some(b) ==> (b.view() == cached_value_of(&self.of()) && b.view().len() == rec_value_len(&*self.of())),
    {
        unimplemented!()
    }
    #[verifier::external_body]
    pub fn remove(self) { unimplemented!() }
}
impl CacheH {
    #[verifier::external_body]
    pub fn record_entry(&self, key: &[u8], record: &Arc<Record>) -> (e: RecordCacheEntryH)
        ensures e.of() == *record,
    {
        unimplemented!()
    }
}

impl HashIndex {
    // self.hash_table.update(key, |stored_key, current| { .. })   (rule R-lift): None when the key is absent,
    // otherwise whatever the closure - lifted to FeoxStore::update_ttl_entry - returns
    #[verifier::external_body]
    pub fn update_lifted_ttl(&self, key: &[u8], store: &FeoxStore, ttl_seconds: u64) -> Option<Result<(Arc<Record>, Arc<Record>, bool)>> { unimplemented!() }
}

pub fn max_u64(a: u64, b: u64) -> (r: u64)
    ensures r == (if a >= b { a } else { b }),
{
    if a >= b { a } else { b }
}
pub fn sat_add_u64(a: u64, b: u64) -> (r: u64)
    ensures r as int == (if a as int + b as int > u64::MAX as int { u64::MAX as int } else { a as int + b as int }),
{
    if a > u64::MAX - b { u64::MAX } else { a + b }
}
pub fn sat_mul_u64(a: u64, b: u64) -> (r: u64)
    ensures r as int == (if a as int * b as int > u64::MAX as int { u64::MAX as int } else { a as int * b as int }),
{
    match a.checked_mul(b) { Some(v) => v, None => u64::MAX }
}
