// Opaque surface of recovery's entry point (unit load_indexes; C17 / C03). TRUSTED (A29): the device, the metadata
// lock and the metadata block are handles; read_metadata / initialize_store_metadata / Metadata::from_bytes are the
// functions of the Kani unit metadata; scan_and_rebuild_indexes is the function of unit scan_loop.

#[verifier::external_body]
pub struct Metadata { _p: () }
impl Metadata {
    pub uninterp spec fn version_of(&self) -> u32;
    // Some only for a block that validates (signature, version 1..=3, sizes, v3 checksum): Kani metadata_from_bytes_contract
    #[verifier::external_body]
    pub fn from_bytes(data: &[u8]) -> (r: Option<Metadata>)
        ensures r matches Some(m) ==> 1 <= m.version_of() <= 3,
    {
        unimplemented!()
    }
    #[verifier::external_body]
    pub fn version(&self) -> (v: u32)
        ensures v == self.version_of(),
    {
        unimplemented!()
    }
}
#[verifier::external_body]
pub struct MetadataLock { _p: () }
impl MetadataLock {
    #[verifier::external_body]
    pub fn set(&self, m: Metadata) { unimplemented!() }
    #[verifier::external_body]
    pub fn with_write_initialize(&self, disk_io: &DiskIO) -> Result<()> { unimplemented!() }
}
#[verifier::external_body]
pub struct DiskIO { _p: () }
impl DiskIO {
    #[verifier::external_body]
    pub fn read_metadata(&self) -> Result<Vec<u8>> { unimplemented!() }
}
#[verifier::external_body]
pub struct DiskLock { _p: () }
impl DiskLock {
    #[verifier::external_body]
    pub fn read(&self) -> &DiskIO { unimplemented!() }
}
// &metadata_data[..FEOX_SIGNATURE_SIZE] != FEOX_SIGNATURE   (rule R-seq)
#[verifier::external_body]
pub fn prefix_ne(data: &Vec<u8>, n: usize, sig: &[u8]) -> (r: bool)
    requires n <= data@.len(),
    ensures r == (data@.subrange(0, n as int) != sig@),
{
    unimplemented!()
}

pub struct FeoxStore {
    pub memory_only: bool,
    pub fresh_device: bool,
    pub format_version: u32,
    pub disk_io: Option<DiskLock>,
    pub _metadata: MetadataLock,
    pub scanned: Ghost<bool>,
}
impl FeoxStore {
    // unit scan_loop
    #[verifier::external_body]
    pub fn scan_and_rebuild_indexes(&mut self) -> (r: Result<()>)
        requires 1 <= old(self).format_version <= 3,
        ensures final(self).scanned@, final(self).format_version == old(self).format_version,
    {
        unimplemented!()
    }
}
