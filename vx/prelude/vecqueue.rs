// `for X in V {` over a Vec moved in (rule R-forvec; Verus for-loops have no `continue`)
#[verifier::external_body]
#[verifier::reject_recursive_types(T)]
pub struct VecQueue<T> { it: std::vec::IntoIter<T> }
impl<T> VecQueue<T> {
    pub uninterp spec fn rest(&self) -> Seq<T>;

    #[verifier::external_body]
    pub fn new(v: Vec<T>) -> (q: VecQueue<T>)
        ensures q.rest() == v@,
    {
        VecQueue { it: v.into_iter() }
    }

    #[verifier::external_body]
    pub fn pop_front(&mut self) -> (r: Option<T>)
        ensures
            old(self).rest().len() == 0 ==> r is None && final(self).rest() == old(self).rest(),
            old(self).rest().len() > 0 ==> r == Some(old(self).rest()[0]) && final(self).rest() == old(self).rest().drop_first(),
    {
        self.it.next()
    }
}

