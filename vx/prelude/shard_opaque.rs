// Opaque surface of one write-buffer shard and of the enqueue calls (unit shard_buffer; C02 / C09). TRUSTED (A31): the
// shard's mutex guard is modelled as the queue itself (lock() hands the entries out, the guard writes them back on drop);
// counters and the shutdown flag are atomics without sequential effect; the shard hasher is a function of the key;
// iterator chains are replaced by their definitions.

pub enum Ordering { Relaxed, Release, Acquire, AcqRel, SeqCst }
#[verifier::external_body]
pub struct AtomicUsize { _p: () }
impl AtomicUsize {
    #[verifier::external_body]
    pub fn load(&self, o: Ordering) -> usize { unimplemented!() }
    #[verifier::external_body]
    pub fn store(&self, v: usize, o: Ordering) { unimplemented!() }
    #[verifier::external_body]
    pub fn fetch_add(&self, v: usize, o: Ordering) -> usize { unimplemented!() }
}
#[verifier::external_body]
pub struct AtomicU32 { _p: () }
impl AtomicU32 {
    #[verifier::external_body]
    pub fn fetch_add(&self, v: u32, o: Ordering) -> (r: u32)
        ensures r < u32::MAX,
    {
        unimplemented!()
    }
    #[verifier::external_body]
    pub fn new(v: u32) -> AtomicU32 { unimplemented!() }
}
#[verifier::external_body]
pub struct AtomicBool { _p: () }
impl AtomicBool {
    pub uninterp spec fn val(&self) -> bool;
    #[verifier::external_body]
    pub fn load(&self, o: Ordering) -> (b: bool)
        ensures b == self.val(),
    {
        unimplemented!()
    }
}
pub struct Record { pub key: Vec<u8> }
impl Record {
    #[verifier::external_body]
    pub fn calculate_size(&self) -> (n: usize)
        ensures n <= 0x2000_0000,
    {
        unimplemented!()
    }
}
pub enum Operation { Insert, Update, Delete, Get, PartialUpdate }
pub struct WriteEntry {
    pub op: Operation,
    pub record: Arc<Record>,
    pub work_status: AtomicU32,
    pub retry_count: AtomicU32,
}
impl WriteEntry {
    #[verifier::external_body]
    pub fn new(op: Operation, record: Arc<Record>) -> (e: WriteEntry)
        ensures e.op == op, e.record == record,
    {
        unimplemented!()
    }
}
// the mutex around the shard's VecDeque: the guard IS the queue
#[verifier::external_body]
pub struct ShardQueue { _p: () }
impl ShardQueue {
    pub uninterp spec fn view(&self) -> Seq<WriteEntry>;
    // buffer.extend(entries) with entries: [WriteEntry; N]
    #[verifier::external_body]
    pub fn extend<const N: usize>(&mut self, entries: [WriteEntry; N])
        ensures final(self).view() == old(self).view() + entries@,
    {
        unimplemented!()
    }
    // buffer.drain(..).collect()   (rule R-drainall)
    #[verifier::external_body]
    pub fn drain_all(&mut self) -> (v: Vec<WriteEntry>)
        ensures v@ == old(self).view(), final(self).view().len() == 0,
    {
        unimplemented!()
    }
    // std::mem::take(&mut *guard): the queue's content moves out, an empty queue stays behind
    #[verifier::external_body]
    pub fn take_queue(self) -> (q: ShardQueue)
        ensures q.view() == self.view(),
    {
        unimplemented!()
    }
    #[verifier::external_body]
    pub fn push_front(&mut self, e: WriteEntry)
        ensures final(self).view() == seq![e] + old(self).view(),
    {
        unimplemented!()
    }
}
#[verifier::external_body]
pub struct QueueLock { _p: () }
impl QueueLock {
    pub uninterp spec fn content(&self) -> Seq<WriteEntry>;
    #[verifier::external_body]
    pub fn lock(&self) -> (g: ShardQueue)
        ensures g.view() == self.content(),
    {
        unimplemented!()
    }
}
pub struct ShardedWriteBuffer {
    pub buffer: QueueLock,
    pub count: AtomicUsize,
    pub size: AtomicUsize,
}
pub struct Statistics { pub _p: () }
impl Statistics {
    #[verifier::external_body]
    pub fn record_write_entry_stuck(&self) { unimplemented!() }
    #[verifier::external_body]
    pub fn record_write_buffered(&self) { unimplemented!() }
    #[verifier::external_body]
    pub fn record_writes_buffered(&self, n: u64) { unimplemented!() }
}
// entries.iter().map(|entry| entry.record.calculate_size()).sum()   (rule R-sum)
#[verifier::external_body]
pub fn sum_sizes_arr<const N: usize>(entries: &[WriteEntry; N]) -> usize { unimplemented!() }
#[verifier::external_body]
pub fn sum_sizes_vec(entries: &Vec<WriteEntry>) -> usize { unimplemented!() }
// `for entry in entries.into_iter().rev() {`   (rule R-revvec): the elements back to front
#[verifier::external_body]
#[verifier::reject_recursive_types(T)]
pub struct RevQueue<T> { it: std::vec::IntoIter<T> }
impl<T> RevQueue<T> {
    pub uninterp spec fn rest(&self) -> Seq<T>;
    #[verifier::external_body]
    pub fn new(v: Vec<T>) -> (q: RevQueue<T>)
        ensures q.rest() == v@,
    {
        RevQueue { it: v.into_iter() }
    }
    #[verifier::external_body]
    pub fn pop_back(&mut self) -> (r: Option<T>)
        ensures
            old(self).rest().len() == 0 ==> r is None && final(self).rest() == old(self).rest(),
            old(self).rest().len() > 0 ==> r == Some(old(self).rest().last()) && final(self).rest() == old(self).rest().drop_last(),
    {
        self.it.next_back()
    }
}

// drop(x): ends x's lifetime (no effect on the state that is modelled)
pub fn drop<T>(t: T) {
}

// ---- the write buffer's enqueue side
#[verifier::external_body]
pub struct WorkerSender { _p: () }
pub struct FlushRequest { pub response: Option<()>, pub defer_retirements: bool }
impl WorkerSender {
    #[verifier::external_body]
    pub fn try_send(&self, req: FlushRequest) -> std::result::Result<(), ()> { unimplemented!() }
}
pub struct WriteBuffer {
    pub sharded_buffers: Vec<ShardedWriteBuffer>,
    pub worker_channels: Vec<WorkerSender>,
    pub shutdown: AtomicBool,
    pub stats: Statistics,
    pub shard_hasher: ShardHasher,
}
// the write buffer's BuildHasher (fixed when the buffer is built): hash_one is a function of the key's bytes
#[verifier::external_body]
pub struct ShardHasher { _p: () }
pub uninterp spec fn key_hash(key: Seq<u8>) -> u64;
impl ShardHasher {
    #[verifier::external_body]
    pub fn hash_one(&self, key: &[u8]) -> (h: u64)
        ensures h == key_hash(key@),
    {
        unimplemented!()
    }
}
// the shard a key is queued in: a function of the key and the number of shards (so every generation of a key goes through ONE queue)
pub open spec fn shard_of(key: Seq<u8>, shards: int) -> int {
    if shards > 0 { (key_hash(key) as usize as int) % shards } else { 0 }
}

// `for X in V {` over a Vec moved in (rule R-forvec)
#[verifier::external_body]
#[verifier::reject_recursive_types(T)]
pub struct VecQueue<T> { it: std::vec::IntoIter<T> }
impl<T> VecQueue<T> {
    pub uninterp spec fn rest(&self) -> Seq<T>;
    #[verifier::external_body]
    pub fn new(v: Vec<T>) -> (q: VecQueue<T>)
        ensures q.rest() == v@,
    {
        VecQueue { it: v.into_iter() }
    }
    #[verifier::external_body]
    pub fn pop_front(&mut self) -> (r: Option<T>)
        ensures
            old(self).rest().len() == 0 ==> r is None && final(self).rest() == old(self).rest(),
            old(self).rest().len() > 0 ==> r == Some(old(self).rest()[0]) && final(self).rest() == old(self).rest().skip(1),
    {
        self.it.next()
    }
}
