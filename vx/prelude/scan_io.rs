// DiskIO is opaque here; the one method the scanner uses is an external read (A2).
#[verifier::external_body]
pub struct DiskIO { _p: () }

impl DiskIO {
    #[verifier::external_body]
    pub fn read_sectors_sync(&self, sector: u64, count: u64) -> (r: Result<Vec<u8>>)
        ensures r matches Ok(v) ==> v@.len() == count as int * 4096,
    {
        unimplemented!()
    }
}

pub trait TryUsize: Sized {
    spec fn as_nat_u(self) -> nat;
    fn try_usize(self) -> (r: Option<usize>)
        ensures r == Some(self.as_nat_u() as usize), self.as_nat_u() <= usize::MAX;
}

impl TryUsize for u64 {
    open spec fn as_nat_u(self) -> nat { self as nat }
    #[verifier::external_body]
    fn try_usize(self) -> (r: Option<usize>) { usize::try_from(self).ok() }
}

pub fn min_u64(a: u64, b: u64) -> (r: u64)
    ensures r == if a <= b { a } else { b },
{
    if a <= b { a } else { b }
}
