// Opaque surface around the in-place update path (unit update_path; C13 / C12 / C07 sequential kernel).
// TRUSTED (A14): index entry API, skip list, cache and write buffer are handles; the verified text is
// which checks guard the swap, what is reserved before it and what is released after it.

pub enum Ordering { Relaxed, Release, Acquire, AcqRel, SeqCst }

pub uninterp spec fn wall_now() -> u64;

#[verifier::external_body]
pub struct AtomicU64 { _p: () }
impl AtomicU64 {
    #[verifier::external_body]
    pub fn load(&self, o: Ordering) -> u64 { unimplemented!() }
    #[verifier::external_body]
    pub fn store(&self, v: u64, o: Ordering) { unimplemented!() }
}
#[verifier::external_body]
pub struct AtomicU32 { _p: () }
impl AtomicU32 {
    #[verifier::external_body]
    pub fn store(&self, v: u32, o: Ordering) { unimplemented!() }
    #[verifier::external_body]
    pub fn fetch_add(&self, v: u32, o: Ordering) -> u32 { unimplemented!() }
    #[verifier::external_body]
    pub fn fetch_sub(&self, v: u32, o: Ordering) -> u32 { unimplemented!() }
}
#[verifier::external_body]
pub struct AtomicUsize { _p: () }
impl AtomicUsize {
    #[verifier::external_body]
    pub fn fetch_add(&self, v: usize, o: Ordering) -> usize { unimplemented!() }
    #[verifier::external_body]
    pub fn fetch_sub(&self, v: usize, o: Ordering) -> usize { unimplemented!() }
    // fetch_update(.., |count| Some(count.saturating_sub(n)))   (rule R-atom): a saturating decrement
    #[verifier::external_body]
    pub fn saturating_dec(&self, n: u64) { unimplemented!() }
}
// a record's absolute expiry (0 = none); stable within one call (A3)
#[verifier::external_body]
pub struct ExpiryCell { _p: () }
impl ExpiryCell {
    pub uninterp spec fn val(&self) -> u64;
    #[verifier::external_body]
    pub fn load(&self, o: Ordering) -> (v: u64)
        ensures v == self.val(),
    {
        unimplemented!()
    }
}

#[verifier::external_body]
pub struct Bytes { _p: () }
impl Bytes {
    pub uninterp spec fn view(&self) -> Seq<u8>;
    #[verifier::external_body]
    pub fn len(&self) -> (n: usize)
        ensures n == self.view().len(),
    {
        unimplemented!()
    }
    // a Bytes clone is another handle on the same bytes
    #[verifier::external_body]
    pub fn clone(&self) -> (b: Bytes)
        ensures b.view() == self.view(),
    {
        unimplemented!()
    }
}

pub struct Record {
    pub key: Vec<u8>,
    // record.rs: `key.len() as u16` - the on-disk key length field; NOT the key's length for keys above 65535 bytes
    pub key_len: u16,
    pub value_len: usize,
    pub timestamp: u64,
    pub refcount: AtomicU32,
    pub ttl_expiry: ExpiryCell,
    pub retired_at: AtomicU64,
}

// bytes accounted for a record: fixed overhead + key + value (operations.rs calculate_record_size and
// record.rs calculate_size agree: Kani record_size_formulas_agree / record_size_formula_all_lengths)
pub uninterp spec fn record_overhead() -> nat;
pub open spec fn rec_value_len(r: &Record) -> nat { r.value_len as nat }
// the value bytes a generation holds in memory (None once offloaded or when deferred)
pub uninterp spec fn rec_resident(r: &Record) -> Option<Seq<u8>>;
pub open spec fn rec_size(r: &Record) -> nat {
    record_overhead() + r.key@.len() + rec_value_len(r)
}

#[verifier::external_body]
pub proof fn axiom_overhead()
    ensures record_overhead() <= 1024,
{
}

impl Record {
    #[verifier::external_body]
    pub fn new(key: Vec<u8>, value: Vec<u8>, timestamp: u64) -> (r: Record)
        ensures r.key@ == key@, r.timestamp == timestamp, rec_value_len(&r) == value@.len(), r.ttl_expiry.val() == 0, rec_resident(&r) == Some(value@),
    {
        unimplemented!()
    }
    #[verifier::external_body]
    pub fn new_with_timestamp_ttl(key: Vec<u8>, value: Vec<u8>, timestamp: u64, ttl_expiry: u64) -> (r: Record)
        ensures r.key@ == key@, r.timestamp == timestamp, rec_value_len(&r) == value@.len(), r.ttl_expiry.val() == ttl_expiry, rec_resident(&r) == Some(value@),
    {
        unimplemented!()
    }
    #[verifier::external_body]
    pub fn new_from_bytes(key: Vec<u8>, value: Bytes, timestamp: u64) -> (r: Record)
        ensures r.key@ == key@, r.timestamp == timestamp, rec_value_len(&r) == value.view().len(), r.ttl_expiry.val() == 0, rec_resident(&r) == Some(value.view()),
    {
        unimplemented!()
    }
    #[verifier::external_body]
    pub fn new_from_bytes_with_ttl(key: Vec<u8>, value: Bytes, timestamp: u64, ttl_expiry: u64) -> (r: Record)
        ensures r.key@ == key@, r.timestamp == timestamp, rec_value_len(&r) == value.view().len(), r.ttl_expiry.val() == ttl_expiry, rec_resident(&r) == Some(value.view()),
    {
        unimplemented!()
    }
    #[verifier::external_body]
    pub fn calculate_size(&self) -> (n: usize)
        ensures n == rec_size(self),
    {
        unimplemented!()
    }
    // the timestamp at which this generation was superseded or deleted (0 if it is current)
    pub uninterp spec fn retirement_ts(&self) -> u64;
    #[verifier::external_body]
    pub fn retirement_timestamp(&self) -> (r: u64)
        ensures r == self.retirement_ts(),
    {
        unimplemented!()
    }
    #[verifier::external_body]
    pub fn link_successor(&self, next: &Arc<Record>) { unimplemented!() }
}

// ---- the hash index entry API
pub mod scc {
    pub mod hash_map {
        use super::super::*;
        pub enum Entry {
            Occupied(OccupiedEntry),
            Vacant(VacantEntry),
        }
    }
}

#[verifier::external_body]
pub struct VacantEntry { _p: () }
impl VacantEntry {
    // the key this slot was looked up with
    pub uninterp spec fn key(&self) -> Seq<u8>;
    // index invariant (made inductive here): a record is published under its own key
    #[verifier::external_body]
    pub fn insert_entry(self, record: Arc<Record>) -> (e: OccupiedEntry)
        requires record.key@ == self.key(),
        ensures e.current() == record,
    {
        unimplemented!()
    }
}

#[verifier::external_body]
pub struct OccupiedEntry { _p: () }
impl OccupiedEntry {
    pub uninterp spec fn current(&self) -> Arc<Record>;

    #[verifier::external_body]
    pub fn get(&self) -> (r: &Arc<Record>)
        ensures *r == self.current(), r.key@.len() <= 0x10_0000,
    {
        unimplemented!()
    }

    #[verifier::external_body]
    pub fn remove(self) -> (r: (Vec<u8>, Arc<Record>))
        ensures r.1 == self.current(),
    {
        unimplemented!()
    }

    #[verifier::external_body]
    pub fn insert(&mut self, record: Arc<Record>) -> (prev: Arc<Record>)
        requires record.key@ == old(self).current().key@,
        ensures final(self).current() == record, prev == old(self).current(),
    {
        unimplemented!()
    }
}

#[verifier::external_body]
pub struct HashIndex { _p: () }
impl HashIndex {
    // the generation the index holds for a key at the time of the call (A3: stable within one call)
    pub uninterp spec fn lookup(&self, key: Seq<u8>) -> Option<Arc<Record>>;
    // index invariant: the record stored under a key carries that key (every insert site proves it: insert_entry / insert)
    #[verifier::external_body]
    pub fn entry(&self, key: Vec<u8>) -> (r: scc::hash_map::Entry)
        ensures
            r matches scc::hash_map::Entry::Occupied(e) ==> e.current().key@ == key@,
            r matches scc::hash_map::Entry::Vacant(v) ==> v.key() == key@,
    {
        unimplemented!()
    }
    // self.hash_table.read(key, |_, v| v.clone())   (rule R-hread)
    #[verifier::external_body]
    pub fn read_arc(&self, key: &[u8]) -> (r: Option<Arc<Record>>)
        ensures r matches Some(a) ==> a.key@.len() <= 0x10_0000, r == self.lookup(key@),
    {
        unimplemented!()
    }
}

#[verifier::external_body]
pub struct TreeH { _p: () }
impl TreeH {
    #[verifier::external_body]
    pub fn remove(&self, key: &[u8]) { unimplemented!() }
}

#[verifier::external_body]
pub struct VersionClock { _p: () }
impl VersionClock {
    #[verifier::external_body]
    pub fn observe(&self, key: &[u8], timestamp: u64) { unimplemented!() }
}

pub struct Statistics {
    pub record_count: AtomicU32,
    pub memory_usage: AtomicUsize,
    pub keys_with_ttl: AtomicUsize,
    pub ttl_expired_active: AtomicU64Stat,
    pub ttl_expired_lazy: AtomicU64Stat,
}
// statistics-only u64 counters
#[verifier::external_body]
pub struct AtomicU64Stat { _p: () }
impl AtomicU64Stat {
    #[verifier::external_body]
    pub fn fetch_add(&self, v: u64, o: Ordering) -> u64 { unimplemented!() }
}
impl Statistics {
    #[verifier::external_body]
    pub fn record_insert(&self, latency_ns: u64, is_update: bool) { unimplemented!() }
    #[verifier::external_body]
    pub fn record_delete(&self, latency_ns: u64) { unimplemented!() }
}

pub enum Operation { Insert, Update, Delete, Get, PartialUpdate }

#[verifier::external_body]
#[derive(Clone, Copy)]
pub struct InstantH { _p: () }
#[verifier::external_body]
pub fn instant_now() -> InstantH { unimplemented!() }
#[verifier::external_body]
pub fn elapsed_nanos(start: &InstantH) -> u64 { unimplemented!() }

// Arc::ptr_eq(a, b)   (rule R-ptreq)
pub uninterp spec fn same_arc(a: &Arc<Record>, b: &Arc<Record>) -> bool;
#[verifier::external_body]
pub fn arc_ptr_eq(a: &Arc<Record>, b: &Arc<Record>) -> (r: bool)
    ensures r == same_arc(a, b),
{
    unimplemented!()
}

// ---- memory reservation (Kani unit memory_reservation: reserve_memory_contract, release_memory_contract)
pub struct MemoryReservation {
    pub amount: usize,
}
impl MemoryReservation {
    #[verifier::external_body]
    pub fn commit(self) { unimplemented!() }
}

#[verifier::external_body]
pub struct CacheH { _p: () }
impl CacheH {
    #[verifier::external_body]
    pub fn remove_for_record(&self, key: &[u8], record: &Arc<Record>) { unimplemented!() }
}
#[verifier::external_body]
pub struct WriteBufferH { _p: () }
impl WriteBufferH {
    #[verifier::external_body]
    pub fn add_replacement(&self, record: Arc<Record>, replaced: Arc<Record>) -> Result<()> { unimplemented!() }
    #[verifier::external_body]
    pub fn add_write(&self, op: Operation, record: Arc<Record>, old_value_len: usize) -> Result<()> { unimplemented!() }
}

pub struct FeoxStore {
    pub hash_table: HashIndex,
    pub tree: TreeH,
    pub stats: Statistics,
    pub version_clock: VersionClock,
    pub enable_ttl: bool,
    pub memory_only: bool,
    pub format_version: u32,
    pub enable_caching: bool,
    pub cache: Option<CacheH>,
    pub write_buffer: Option<WriteBufferH>,
}

impl FeoxStore {
    #[verifier::external_body]
    pub fn calculate_record_size(&self, key_len: usize, value_len: usize) -> (n: usize)
        requires key_len <= 0x10_0000, value_len <= 0x1000_0000,
        ensures n == record_overhead() + key_len + value_len,
    {
        unimplemented!()
    }
    // Ok: exactly `amount` bytes are now held by the reservation (rolled back if it is dropped)
    #[verifier::external_body]
    pub fn reserve_memory(&self, amount: usize) -> (r: Result<MemoryReservation>)
        ensures r matches Ok(m) ==> m.amount == amount,
    {
        unimplemented!()
    }
    #[verifier::external_body]
    pub fn release_memory(&self, amount: usize) { unimplemented!() }
    // operations.rs validate_key / validate_key_value / validate_new_key: length limits (MAX_KEY_SIZE, MAX_VALUE_SIZE)
    #[verifier::external_body]
    pub fn validate_key(&self, key: &[u8]) -> (r: Result<()>)
        ensures r is Ok ==> 1 <= key@.len() <= 0x10_0000,
    {
        unimplemented!()
    }
    #[verifier::external_body]
    pub fn validate_key_value(&self, key: &[u8], value: &[u8]) -> (r: Result<()>)
        ensures r is Ok ==> 1 <= key@.len() <= 0x10_0000 && 1 <= value@.len() <= 0x1000_0000,
    {
        unimplemented!()
    }
    // explicit timestamps verbatim, otherwise the version clock (Kani unit version_clock)
    #[verifier::external_body]
    pub fn resolve_timestamp(&self, key: &[u8], timestamp: Option<u64>) -> (u64, bool) { unimplemented!() }
    #[verifier::external_body]
    pub fn remove_cached(&self, key: &[u8], record: &Arc<Record>) { unimplemented!() }
    #[verifier::external_body]
    pub fn insert_into_tree(&self, key: Vec<u8>, record: Arc<Record>) { unimplemented!() }
    #[verifier::external_body]
    pub fn publish_to_tree(&self, key: &[u8], record: Arc<Record>) { unimplemented!() }
    #[verifier::external_body]
    pub fn observe_published_timestamp(&self, key: &[u8], timestamp: u64, explicit: bool) { unimplemented!() }
    #[verifier::external_body]
    pub fn note_ttl_transition(&self, previous: u64, current: u64) { unimplemented!() }
}

// std::ptr::eq(a, b.as_ref())   (rule R-ptreq): pointer identity of the caller's generation and the indexed one
#[verifier::external_body]
pub fn record_ptr_eq(a: &Record, b: &Arc<Record>) -> (r: bool)
    ensures r == record_is(a, b),
{
    unimplemented!()
}
pub uninterp spec fn record_is(a: &Record, b: &Arc<Record>) -> bool;

#[verifier::external_body]
pub fn slice_to_vec_u8(s: &[u8]) -> (v: Vec<u8>)
    ensures v@ == s@,
{
    s.to_vec()
}

// ---- the active TTL sweeper (ttl_sweep.rs)
pub struct TtlConfig {
    pub sample_size: usize,
}
#[verifier::external_body]
pub struct RngH { _p: () }
#[verifier::external_body]
pub fn rng_handle() -> RngH { unimplemented!() }
// reservoir sample of (key, record) pairs that carry an expiry; nothing is assumed about the pairs
#[verifier::external_body]
pub fn sample_ttl_entries(hash_table: &HashIndex, sample_size: usize, rng: &mut RngH) -> Vec<(Vec<u8>, Arc<Record>)> { unimplemented!() }

impl FeoxStore {
    // the wall clock: one fixed arbitrary value per call (A4)
    #[verifier::external_body]
    pub fn get_timestamp_pub(&self) -> (t: u64)
        ensures t == wall_now(),
    {
        unimplemented!()
    }
    #[verifier::external_body]
    pub fn get_hash_table(&self) -> &HashIndex { unimplemented!() }
    #[verifier::external_body]
    pub fn remove_from_tree(&self, key: &[u8]) { unimplemented!() }
    #[verifier::external_body]
    pub fn get_write_buffer(&self) -> Option<&WriteBufferH> { unimplemented!() }
}

pub fn drop<T>(t: T) {
}

// absolute expiry of a write with a relative TTL: timestamp + ttl_seconds * 10^9, saturating (0 = no expiry)
pub open spec fn expiry_after(timestamp: u64, ttl_seconds: u64) -> int {
    let nanos = if ttl_seconds as int * 1_000_000_000 > u64::MAX as int { u64::MAX as int } else { ttl_seconds as int * 1_000_000_000 };
    if timestamp as int + nanos > u64::MAX as int { u64::MAX as int } else { timestamp as int + nanos }
}

// counter += 1 on a u64 progress counter (rule R-count): treated as non-overflowing
pub fn count_up(x: u64) -> (r: u64)
    ensures r == (if x < u64::MAX { (x + 1) as u64 } else { x }),
{
    if x < u64::MAX { x + 1 } else { x }
}
