// Opaque surface of WriteBuffer::start_workers and the periodic flush coordinator it spawns (unit worker_start; C02 / C19).
// TRUSTED (A32): Arc'd handles (device lock, allocator lock, statistics, shutdown flag, retirement queue) carry an abstract
// identity that clone() preserves; a bounded() channel is a sender / receiver pair with one abstract channel id;
// thread::spawn of the worker body / of the coordinator closure is a shim (the closure is lifted to a function, rule R-lift)
// whose precondition is the lifted function's; shard counters are atomics read as one stable value per shard (A3);
// iterator chains are replaced by their definitions.

pub enum Ordering { Relaxed, Release, Acquire, AcqRel, SeqCst }

#[verifier::external_body]
pub struct AtomicUsize { _p: () }
impl AtomicUsize {
    pub uninterp spec fn val(&self) -> usize;
    #[verifier::external_body]
    pub fn load(&self, o: Ordering) -> (r: usize)
        ensures r == self.val(),
    {
        unimplemented!()
    }
}
pub struct ShardedWriteBuffer { pub count: AtomicUsize, pub size: AtomicUsize }
impl ShardedWriteBuffer {
    // the shard has reached its entry or byte limit (unit shard_buffer verifies is_full itself)
    pub uninterp spec fn full(&self) -> bool;
    #[verifier::external_body]
    pub fn is_full(&self) -> (r: bool)
        ensures r == self.full(),
    {
        unimplemented!()
    }
}

#[verifier::external_body]
pub struct DiskLock { _p: () }
impl DiskLock {
    pub uninterp spec fn id(&self) -> int;
    #[verifier::external_body]
    pub fn clone(&self) -> (r: DiskLock)
        ensures r.id() == self.id(),
    {
        unimplemented!()
    }
}
#[verifier::external_body]
pub struct FreeSpaceLock { _p: () }
impl FreeSpaceLock {
    pub uninterp spec fn id(&self) -> int;
    #[verifier::external_body]
    pub fn clone(&self) -> (r: FreeSpaceLock)
        ensures r.id() == self.id(),
    {
        unimplemented!()
    }
}
#[verifier::external_body]
pub struct StatsH { _p: () }
impl StatsH {
    pub uninterp spec fn id(&self) -> int;
    #[verifier::external_body]
    pub fn clone(&self) -> (r: StatsH)
        ensures r.id() == self.id(),
    {
        unimplemented!()
    }
}
#[verifier::external_body]
pub struct ShutdownFlag { _p: () }
impl ShutdownFlag {
    pub uninterp spec fn id(&self) -> int;
    #[verifier::external_body]
    pub fn clone(&self) -> (r: ShutdownFlag)
        ensures r.id() == self.id(),
    {
        unimplemented!()
    }
}

impl ShutdownFlag {
    #[verifier::external_body]
    pub fn new() -> ShutdownFlag { unimplemented!() }
    #[verifier::external_body]
    pub fn load(&self, o: Ordering) -> bool { unimplemented!() }
}
#[verifier::external_body]
pub struct PendingGuard { _p: () }
impl PendingGuard {
    #[verifier::external_body]
    pub fn is_empty(&self) -> bool { unimplemented!() }
}
#[verifier::external_body]
pub struct PendingLock { _p: () }
impl PendingLock {
    #[verifier::external_body]
    pub fn lock(&self) -> PendingGuard { unimplemented!() }
}
#[verifier::external_body]
pub struct RetirementQueueInner { _p: () }
pub struct RetirementQueueH { pub pending: PendingLock, pub inner: RetirementQueueInner }
impl RetirementQueueH {
    pub uninterp spec fn id(&self) -> int;
    #[verifier::external_body]
    pub fn new() -> RetirementQueueH { unimplemented!() }
    #[verifier::external_body]
    pub fn clone(&self) -> (r: RetirementQueueH)
        ensures r.id() == self.id(),
    {
        unimplemented!()
    }
}

// crossbeam bounded(cap): one channel, two ends
#[verifier::external_body]
pub struct WorkerSender { _p: () }
#[verifier::external_body]
pub struct WorkerReceiver { _p: () }
pub struct FlushRequest { pub response: Option<()>, pub defer_retirements: bool }
impl WorkerSender {
    pub uninterp spec fn chan(&self) -> int;
    #[verifier::external_body]
    pub fn try_send(&self, req: FlushRequest) -> std::result::Result<(), ()> { unimplemented!() }
    #[verifier::external_body]
    pub fn clone(&self) -> (r: WorkerSender)
        ensures r.chan() == self.chan(),
    {
        unimplemented!()
    }
}
impl WorkerReceiver {
    pub uninterp spec fn chan(&self) -> int;
}
#[verifier::external_body]
pub fn bounded(cap: usize) -> (r: (WorkerSender, WorkerReceiver))
    ensures r.0.chan() == r.1.chan(),
{
    unimplemented!()
}
// Vec<Sender>::clone: element-wise clone
#[verifier::external_body]
pub fn clone_senders(v: &Vec<WorkerSender>) -> (r: Vec<WorkerSender>)
    ensures r@.len() == v@.len(), forall|i: int| 0 <= i < v@.len() ==> (#[trigger] r@[i]).chan() == v@[i].chan(),
{
    unimplemented!()
}

pub struct WorkerContext {
    pub worker_id: usize,
    pub worker_count: usize,
    pub disk_io: DiskLock,
    pub free_space: FreeSpaceLock,
    pub sharded_buffers: Arc<Vec<ShardedWriteBuffer>>,
    pub shutdown: ShutdownFlag,
    pub stats: StatsH,
    pub retirement_queue: RetirementQueueH,
    pub format_version: u32,
    pub fault_scope: usize,
}

#[verifier::external_body]
pub struct JoinHandleH { _p: () }
// Mutex<Vec<JoinHandle<()>>> reached through get_mut(): the number of handles held
#[verifier::external_body]
pub struct HandleVec { _p: () }
impl HandleVec {
    pub uninterp spec fn count(&self) -> int;
    #[verifier::external_body]
    pub fn new() -> (r: HandleVec)
        ensures r.count() == 0,
    {
        unimplemented!()
    }
    // self.worker_handles.get_mut().push(handle)
    #[verifier::external_body]
    pub fn push_handle(&mut self, h: JoinHandleH)
        ensures final(self).count() == old(self).count() + 1,
    {
        unimplemented!()
    }
}
#[verifier::external_body]
pub struct HandleSlot { _p: () }
impl HandleSlot {
    #[verifier::external_body]
    pub fn new() -> HandleSlot { unimplemented!() }
    // *self.periodic_flush_handle.get_mut() = v
    #[verifier::external_body]
    pub fn set_handle(&mut self, v: Option<JoinHandleH>) { unimplemented!() }
}

pub struct WriteBuffer {
    pub sharded_buffers: Arc<Vec<ShardedWriteBuffer>>,
    pub disk_io: DiskLock,
    pub free_space: FreeSpaceLock,
    pub worker_channels: Vec<WorkerSender>,
    pub worker_handles: HandleVec,
    pub periodic_flush_handle: HandleSlot,
    pub shutdown: ShutdownFlag,
    pub stats: StatsH,
    pub retirement_queue: RetirementQueueH,
    pub format_version: u32,
    pub fault_scope: usize,
}

// usize::clamp(min, max): std panics when min > max
pub fn clamp_usize(v: usize, lo: usize, hi: usize) -> (r: usize)
    requires lo <= hi,
    ensures r == (if v < lo { lo } else if v > hi { hi } else { v }),
{
    if v < lo { lo } else if v > hi { hi } else { v }
}

// `for (i, x) in v.into_iter().enumerate() {` (rule R-enumq): the elements front to back, numbered from 0
#[verifier::external_body]
#[verifier::reject_recursive_types(T)]
pub struct EnumQueue<T> { it: std::iter::Enumerate<std::vec::IntoIter<T>> }
impl<T> EnumQueue<T> {
    pub uninterp spec fn rest(&self) -> Seq<T>;
    pub uninterp spec fn idx(&self) -> nat;
    #[verifier::external_body]
    pub fn new(v: Vec<T>) -> (q: EnumQueue<T>)
        ensures q.rest() == v@, q.idx() == 0,
    {
        EnumQueue { it: v.into_iter().enumerate() }
    }
    #[verifier::external_body]
    pub fn next_indexed(&mut self) -> (r: Option<(usize, T)>)
        ensures
            old(self).rest().len() == 0 ==> r is None && final(self).rest() == old(self).rest() && final(self).idx() == old(self).idx(),
            old(self).rest().len() > 0 ==> r == Some((old(self).idx() as usize, old(self).rest()[0])) && final(self).rest() == old(self).rest().drop_first()
                && final(self).idx() == old(self).idx() + 1 && old(self).idx() < usize::MAX,
    {
        self.it.next()
    }
}

#[verifier::external_body]
pub struct DurationH { _p: () }
impl DurationH {
    // this duration is the constant WRITE_BUFFER_FLUSH_INTERVAL
    pub uninterp spec fn is_flush_interval(&self) -> bool;
}
// WRITE_BUFFER_FLUSH_INTERVAL (a Duration constant; its value is the real-time part of C19, not decided here)
#[verifier::external_body]
pub fn flush_interval() -> (r: DurationH)
    ensures r.is_flush_interval(),
{
    unimplemented!()
}
// any other Duration constant of the write buffer
#[verifier::external_body]
pub fn other_interval() -> DurationH { unimplemented!() }
// the coordinator's wait between two rounds: C19's bound is stated in terms of THE flush interval, so the wait is that
// constant - not a longer or state-dependent one
#[verifier::external_body]
pub fn thread_sleep(d: &DurationH)
    requires d.is_flush_interval(),
{
    unimplemented!()
}
#[verifier::external_body]
pub fn thread_park_timeout(d: &DurationH)
    requires d.is_flush_interval(),
{
    unimplemented!()
}

// (a..b).step_by(s): next index of the stride (step_by panics on 0)
pub fn step_next(i: usize, step: usize) -> (r: usize)
    requires step > 0,
    ensures r as int == (if i as int + step as int <= usize::MAX as int { i as int + step as int } else { usize::MAX as int }), r > i || i == usize::MAX,
{
    i.saturating_add(step)
}

// num_cpus::get()
#[verifier::external_body]
pub fn cpu_count() -> usize { unimplemented!() }
pub fn max_usize(a: usize, b: usize) -> (r: usize)
    ensures r == (if a >= b { a } else { b }),
{
    if a >= b { a } else { b }
}
// Arc::new((0..n).map(|i| CachePadded::new(ShardedWriteBuffer::new(i))).collect())
#[verifier::external_body]
pub fn make_shards(n: usize) -> (r: Arc<Vec<ShardedWriteBuffer>>)
    ensures r@.len() == n,
{
    unimplemented!()
}
#[verifier::external_body]
pub fn new_fault_scope() -> usize { unimplemented!() }
