// Opaque surface of the read cache (unit cache; C16). TRUSTED (A16): a bucket's write guard is modelled
// as the bucket's Vec itself (`write()` hands the entries out, the guard writes them back on drop);
// generation identity of Weak/Arc pointers is an abstract id; the global usage counter is an atomic
// whose updates are accounted per call by ghost bookkeeping; murmur3 is any u32.

pub enum Ordering { Relaxed, Release, Acquire, AcqRel, SeqCst }

#[verifier::external_body]
pub struct AtomicBool { _p: () }
impl AtomicBool {
    pub uninterp spec fn val(&self) -> bool;
    #[verifier::external_body]
    pub fn new(v: bool) -> AtomicBool { unimplemented!() }
    // stable within one call (A3)
    #[verifier::external_body]
    pub fn load(&self, o: Ordering) -> (b: bool)
        ensures b == self.val(),
    {
        unimplemented!()
    }
    #[verifier::external_body]
    pub fn store(&self, v: bool, o: Ordering) { unimplemented!() }
}

// the usage counter: values stay far below usize::MAX (the cache is capped at CACHE_MAX_SIZE = 1 GiB plus one entry),
// and a subtraction never underflows it (that IS the accounting invariant, assumed at each call)
#[verifier::external_body]
pub struct AtomicUsize { _p: () }
impl AtomicUsize {
    #[verifier::external_body]
    pub fn load(&self, o: Ordering) -> (v: usize)
        ensures v <= 0x1_0000_0000_0000,
    {
        unimplemented!()
    }
    #[verifier::external_body]
    pub fn store(&self, v: usize, o: Ordering) { unimplemented!() }
    #[verifier::external_body]
    pub fn fetch_add(&self, v: usize, o: Ordering) -> usize { unimplemented!() }
    #[verifier::external_body]
    pub fn fetch_sub(&self, v: usize, o: Ordering) -> (p: usize)
        ensures p >= v, p <= 0x1_0000_0000_0000,
    {
        unimplemented!()
    }
}

#[verifier::external_body]
pub struct Bytes { _p: () }
impl Bytes {
    pub uninterp spec fn view(&self) -> Seq<u8>;
    #[verifier::external_body]
    pub fn len(&self) -> (n: usize)
        ensures n == self.view().len(), n <= 0x1000_0000,
    {
        unimplemented!()
    }
    #[verifier::external_body]
    pub fn clone(&self) -> (b: Bytes)
        ensures b.view() == self.view(),
    {
        unimplemented!()
    }
}

// generations: an Arc<Record> and the Weak<Record> made from it share one identity
pub struct Record {
    pub timestamp: u64,
    pub refcount: RefCount,
}
#[verifier::external_body]
pub struct RefCount { _p: () }
impl RefCount {
    pub uninterp spec fn val(&self) -> u32;
    #[verifier::external_body]
    pub fn load(&self, o: Ordering) -> (v: u32)
        ensures v == self.val(),
    {
        unimplemented!()
    }
}
pub uninterp spec fn arc_gen(a: &Arc<Record>) -> int;

#[verifier::external_body]
pub struct WeakRec { _p: () }
impl WeakRec {
    pub uninterp spec fn generation(&self) -> int;
    // Weak::upgrade: Some(the generation) while it is alive
    #[verifier::external_body]
    pub fn upgrade(&self) -> (r: Option<Arc<Record>>)
        ensures r matches Some(a) ==> arc_gen(&a) == self.generation(),
    {
        unimplemented!()
    }
}
// std::ptr::eq(cached.as_ptr(), Arc::as_ptr(expected))   (rule R-genid)
#[verifier::external_body]
pub fn weak_is(cached: &WeakRec, expected: &Arc<Record>) -> (r: bool)
    ensures r == (cached.generation() == arc_gen(expected)),
{
    unimplemented!()
}
// record.map(Arc::downgrade)   (rule R-genid)
#[verifier::external_body]
pub fn downgrade_opt(record: Option<&Arc<Record>>) -> (r: Option<WeakRec>)
    ensures
        record is None ==> r is None,
        record matches Some(a) ==> (r matches Some(w) && w.generation() == arc_gen(a)),
{
    unimplemented!()
}

pub struct Statistics {
    pub cache_memory: AtomicUsize,
}
impl Statistics {
    #[verifier::external_body]
    pub fn record_eviction(&self, count: u64) { unimplemented!() }
}

#[verifier::external_body]
pub fn murmur3_32(key: &[u8], seed: u32) -> u32 { unimplemented!() }

// std::mem::size_of::<CacheEntry>()   (rule R-sizeof)
#[verifier::external_body]
pub fn cache_entry_overhead() -> (n: usize)
    ensures n <= 1024,
{
    unimplemented!()
}

// `entry.key == key` / `!=` where the probe is a Vec<u8> or a &[u8]   (rule R-seq)
pub trait KeyBytes {
    spec fn bytes(&self) -> Seq<u8>;
}
impl KeyBytes for Vec<u8> {
    open spec fn bytes(&self) -> Seq<u8> { self@ }
}
impl KeyBytes for &[u8] {
    open spec fn bytes(&self) -> Seq<u8> { self@ }
}
#[verifier::external_body]
pub fn key_eq<K: KeyBytes>(a: &Vec<u8>, b: &K) -> (r: bool)
    ensures r == (a@ == b.bytes()),
{
    unimplemented!()
}

pub fn wrapping_inc(x: usize) -> (r: usize)
    ensures r == (if x == usize::MAX { 0 } else { x + 1 }),
{
    if x == usize::MAX { 0 } else { x + 1 }
}

pub fn drop<T>(t: T) {
}

pub struct CacheEntry {
    pub key: Vec<u8>,
    pub value: Bytes,
    pub record: Option<WeakRec>,
    pub reference_bit: AtomicBool,
    pub size: usize,
}

#[verifier::external_body]
pub struct BucketLock { _p: () }
impl BucketLock {
    // what the bucket holds right now (only used to account for entries dropped without being measured)
    pub uninterp spec fn held(&self) -> Seq<CacheEntry>;
    #[verifier::external_body]
    pub fn read(&self) -> &Vec<CacheEntry> { unimplemented!() }
    // the write guard, modelled as the entries themselves
    #[verifier::external_body]
    pub fn write(&self) -> Vec<CacheEntry> { unimplemented!() }
}

#[verifier::external_body]
pub struct EvictionLock { _p: () }
impl EvictionLock {
    #[verifier::external_body]
    pub fn try_lock(&self) -> Option<()> { unimplemented!() }
    #[verifier::external_body]
    pub fn lock(&self) -> () { unimplemented!() }
}
// the gauge's value at this instant (an absolute store is a "delta" of unknown size)
pub uninterp spec fn gauge_now() -> int;
// entries.iter().map(|entry| entry.size).sum()   (rule R-sum)
#[verifier::external_body]
pub fn sum_entry_sizes(v: &Vec<CacheEntry>) -> (r: usize)
    ensures r as int == total_size(v@),
{
    v.iter().map(|e| e.size).sum()
}

pub struct ClockCache {
    pub buckets: Vec<BucketLock>,
    pub clock_hand: AtomicUsize,
    pub high_watermark: AtomicUsize,
    pub low_watermark: AtomicUsize,
    pub eviction_lock: EvictionLock,
    pub stats: Statistics,
}

impl ClockCache {
    pub open spec fn wf(&self) -> bool {
        self.buckets@.len() == 16384
    }
}

// the handle update_ttl uses to read and then drop the cached value of one generation; it owns the
// bucket's write guard (modelled as the entries, see BucketLock::write)
pub struct RecordCacheEntry<'a> {
    pub bucket: Vec<CacheEntry>,
    pub position: Option<usize>,
    pub stats: &'a Statistics,
}
impl<'a> RecordCacheEntry<'a> {
    pub open spec fn wf(&self) -> bool {
        self.position matches Some(p) ==> p < self.bucket@.len()
    }
}
