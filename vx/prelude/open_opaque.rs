// Opaque surface of opening a device file (unit device_open; C17 / C06 call sites). TRUSTED (A30): opening the file
// (read-write, create, never truncate, O_DIRECT if available), file metadata, set_len, reading and attaching the file
// to a DiskIO are shims; the free-space manager's initialize / set_device_size carry the preconditions proved necessary
// in unit free_space (A6 is hereby checked at these call sites); the metadata block is a handle.

#[verifier::external_body]
pub struct File { _p: () }
#[verifier::external_body]
pub struct IoErr { _p: () }
impl File {
    // the file's contents as a read would see them (a hole reads as zeros)
    pub uninterp spec fn bytes(&self) -> Seq<u8>;
    // file.metadata()?.len()
    #[verifier::external_body]
    pub fn len_of(&self) -> (r: Result<u64>)
        ensures r matches Ok(n) ==> n as int == self.bytes().len(),
    {
        unimplemented!()
    }
    #[verifier::external_body]
    pub fn set_len_mapped(&self, size: u64) -> Result<()> { unimplemented!() }
}
// the OpenOptions block of open_device (rule R-open): read + write + create, never truncate; O_DIRECT when the platform accepts it
// what is stored under a path name right now
pub uninterp spec fn path_bytes(path: Seq<char>) -> Seq<u8>;
#[verifier::external_body]
pub fn open_device_file(path: &String) -> (r: Result<(File, bool)>)
    ensures r matches Ok(p) ==> p.0.bytes() == path_bytes(path@),
{
    unimplemented!()
}
pub open spec fn all_zero(s: Seq<u8>) -> bool { forall|i: int| 0 <= i < s.len() ==> s[i] == 0 }

// a second, read-only descriptor on the same path, read front to back (OpenOptions::new().read(true).open(path))
#[verifier::external_body]
pub struct FileReader { _p: () }
impl FileReader {
    pub uninterp spec fn bytes(&self) -> Seq<u8>;
    pub uninterp spec fn pos(&self) -> nat;
    // contents.read_exact(&mut buffer[..n]).map_err(FeoxError::IoError)?   (rule R-fs): the next n bytes, or an error (EOF included)
    #[verifier::external_body]
    pub fn read_exact_into(&mut self, buffer: &mut Vec<u8>, n: usize) -> (r: Result<()>)
        requires n <= old(buffer)@.len(),
        ensures
            final(self).bytes() == old(self).bytes(),
            final(buffer)@.len() == old(buffer)@.len(),
            r is Ok ==> (old(self).pos() + n <= old(self).bytes().len() && final(self).pos() == old(self).pos() + n
                && (forall|k: int| 0 <= k < n ==> (#[trigger] final(buffer)@[k]) == old(self).bytes()[old(self).pos() + k])
                && (forall|i: int| old(self).pos() <= i < old(self).pos() + n ==> (#[trigger] old(self).bytes()[i]) == final(buffer)@[i - old(self).pos()])),
    {
        unimplemented!()
    }
}
#[verifier::external_body]
pub fn open_for_reading(path: &String) -> (r: Result<FileReader>)
    ensures r matches Ok(f) ==> (f.bytes() == path_bytes(path@) && f.pos() == 0),
{
    unimplemented!()
}
// buffer[..n].iter().any(|byte| *byte != 0)   (rule R-any)
pub fn any_nonzero(buffer: &Vec<u8>, n: usize) -> (r: bool)
    requires n <= buffer@.len(),
    ensures
        !r ==> forall|k: int| 0 <= k < n ==> (#[trigger] buffer@[k]) == 0,
        r ==> exists|k: int| 0 <= k < n && (#[trigger] buffer@[k]) != 0,
{
    let mut i: usize = 0;
    while i < n
        invariant i <= n, n <= buffer@.len(), forall|k: int| 0 <= k < i ==> (#[trigger] buffer@[k]) == 0,
        decreases n - i,
    {
        if buffer[i] != 0 {
            return true;
        }
        i = i + 1;
    }
    false
}
pub fn min_u64(a: u64, b: u64) -> (r: u64)
    ensures r == (if a <= b { a } else { b }),
{
    if a <= b { a } else { b }
}
#[verifier::external_body]
pub fn zeroed_vec(n: usize) -> (v: Vec<u8>)
    ensures v@.len() == n,
{
    vec![0; n]
}
// lseek(fd, from, SEEK_DATA) and the errno it leaves (kernel semantics, A30): a negative result with ENXIO means there is
// no data at or after `from` - with from == 0 the whole file is a hole and reads as zeros
pub const LIBC_ENXIO: i32 = 6;
pub const LIBC_EINVAL: i32 = 22;
pub uninterp spec fn last_errno() -> Option<i32>;
#[verifier::external_body]
pub fn lseek_data(file: &File, from: i64) -> (offset: i64)
    ensures (offset < 0 && from == 0 && last_errno() == Some(LIBC_ENXIO)) ==> all_zero(file.bytes()),
{
    unimplemented!()
}
impl IoErrorOpaque {
    #[verifier::external_body]
    pub fn raw_os_error(&self) -> (r: Option<i32>)
        ensures r == last_errno(),
    {
        unimplemented!()
    }
}
// std::io::Error::last_os_error()
#[verifier::external_body]
pub fn last_os_error() -> IoErrorOpaque { unimplemented!() }

// sizes the allocator accepts (unit free_space: initialize requires at least one data block, both require <= MAX_DEVICE_SIZE)
pub open spec fn size_initializable(size: u64) -> bool { 17 * 4096 <= size <= 0x100_0000_0000 }
pub open spec fn size_settable(size: u64) -> bool { 0 < size <= 0x100_0000_0000 }

#[verifier::external_body]
pub struct FreeSpaceGuard { _p: () }
impl FreeSpaceGuard {
    #[verifier::external_body]
    pub fn initialize(&mut self, device_size: u64) -> (r: Result<()>)
        requires size_initializable(device_size),
    {
        unimplemented!()
    }
    #[verifier::external_body]
    pub fn set_device_size(&mut self, device_size: u64)
        requires size_settable(device_size),
    {
        unimplemented!()
    }
}
#[verifier::external_body]
pub struct FreeSpaceLock { _p: () }
impl FreeSpaceLock {
    #[verifier::external_body]
    pub fn write(&self) -> FreeSpaceGuard { unimplemented!() }
}
#[verifier::external_body]
pub struct MetadataLock { _p: () }
impl MetadataLock {
    // let mut metadata = self._metadata.write(); metadata.device_size = S; metadata.update();   (rule R-lock)
    #[verifier::external_body]
    pub fn set_device_size_and_update(&self, size: u64) { unimplemented!() }
}
pub struct FeoxStore {
    pub device_size: u64,
    pub fresh_device: bool,
    pub free_space: FreeSpaceLock,
    pub _metadata: MetadataLock,
    pub attached: Ghost<bool>,
}
impl FeoxStore {
    #[verifier::external_body]
    pub fn attach_device_file(&mut self, file: File, use_direct_io: bool) -> (r: Result<()>)
        requires size_settable(old(self).device_size),
        ensures final(self).device_size == old(self).device_size, final(self).fresh_device == old(self).fresh_device, r is Ok ==> final(self).attached@,
            r is Err ==> final(self).attached@ == old(self).attached@,
    {
        unimplemented!()
    }
}
pub open spec fn size_valid(size: u64) -> bool {
    16 * 4096 < size <= 0x100_0000_0000 && size % 4096 == 0
}
