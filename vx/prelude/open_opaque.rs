// Opaque surface of opening a device file (unit device_open; C17 / C06 call sites). TRUSTED (A30): opening the file
// (read-write, create, never truncate, O_DIRECT if available), file metadata, set_len, reading and attaching the file
// to a DiskIO are shims; the free-space manager's initialize / set_device_size carry the preconditions proved necessary
// in unit free_space (A6 is hereby checked at these call sites); the metadata block is a handle.

#[verifier::external_body]
pub struct File { _p: () }
#[verifier::external_body]
pub struct IoErr { _p: () }
impl File {
    // file.metadata()?.len()
    #[verifier::external_body]
    pub fn len_of(&self) -> Result<u64> { unimplemented!() }
    #[verifier::external_body]
    pub fn set_len_mapped(&self, size: u64) -> Result<()> { unimplemented!() }
}
// the OpenOptions block of open_device (rule R-open): read + write + create, never truncate; O_DIRECT when the platform accepts it
#[verifier::external_body]
pub fn open_device_file(path: &String) -> Result<(File, bool)> { unimplemented!() }
#[verifier::external_body]
pub fn file_is_all_zero(file: &File, path: &String, size: u64) -> Result<bool> { unimplemented!() }

// sizes the allocator accepts (unit free_space: initialize requires at least one data block, both require <= MAX_DEVICE_SIZE)
pub open spec fn size_initializable(size: u64) -> bool { 17 * 4096 <= size <= 0x100_0000_0000 }
pub open spec fn size_settable(size: u64) -> bool { 0 < size <= 0x100_0000_0000 }

#[verifier::external_body]
pub struct FreeSpaceGuard { _p: () }
impl FreeSpaceGuard {
    #[verifier::external_body]
    pub fn initialize(&mut self, device_size: u64) -> (r: Result<()>)
        requires size_initializable(device_size),
    {
        unimplemented!()
    }
    #[verifier::external_body]
    pub fn set_device_size(&mut self, device_size: u64)
        requires size_settable(device_size),
    {
        unimplemented!()
    }
}
#[verifier::external_body]
pub struct FreeSpaceLock { _p: () }
impl FreeSpaceLock {
    #[verifier::external_body]
    pub fn write(&self) -> FreeSpaceGuard { unimplemented!() }
}
#[verifier::external_body]
pub struct MetadataLock { _p: () }
impl MetadataLock {
    // let mut metadata = self._metadata.write(); metadata.device_size = S; metadata.update();   (rule R-lock)
    #[verifier::external_body]
    pub fn set_device_size_and_update(&self, size: u64) { unimplemented!() }
}
pub struct FeoxStore {
    pub device_size: u64,
    pub fresh_device: bool,
    pub free_space: FreeSpaceLock,
    pub _metadata: MetadataLock,
    pub attached: Ghost<bool>,
}
impl FeoxStore {
    #[verifier::external_body]
    pub fn attach_device_file(&mut self, file: File, use_direct_io: bool) -> (r: Result<()>)
        requires size_settable(old(self).device_size),
        ensures final(self).device_size == old(self).device_size, final(self).fresh_device == old(self).fresh_device, r is Ok ==> final(self).attached@,
            r is Err ==> final(self).attached@ == old(self).attached@,
    {
        unimplemented!()
    }
}
pub open spec fn size_valid(size: u64) -> bool {
    16 * 4096 < size <= 0x100_0000_0000 && size % 4096 == 0
}
