// Opaque surface around the write-buffer worker functions (unit write_batch; C09 / C05 / C03).
// TRUSTED (A13): the device and the free-space manager are handles with a ghost LOG of the calls made
// through a `&mut` borrow; record / entry state words are atomics read through the real accessor
// names. The verified text is the control flow between those calls: which entry goes where, which
// device call precedes which, what is released and with what length.

pub enum Ordering { Relaxed, Release, Acquire, AcqRel, SeqCst }

#[verifier::external_body]
pub struct AtomicU64 { _p: () }
impl AtomicU64 {
    #[verifier::external_body]
    pub fn store(&self, v: u64, o: Ordering) { unimplemented!() }
    #[verifier::external_body]
    pub fn load(&self, o: Ordering) -> u64 { unimplemented!() }
    #[verifier::external_body]
    pub fn fetch_add(&self, v: u64, o: Ordering) -> u64 { unimplemented!() }
    #[verifier::external_body]
    pub fn fetch_sub(&self, v: u64, o: Ordering) -> u64 { unimplemented!() }
}

#[verifier::external_body]
pub struct AtomicU32 { _p: () }
impl AtomicU32 {
    #[verifier::external_body]
    pub fn store(&self, v: u32, o: Ordering) { unimplemented!() }
    #[verifier::external_body]
    pub fn load(&self, o: Ordering) -> u32 { unimplemented!() }
}

pub struct Statistics {
    pub disk_usage: AtomicU64,
    pub flush_count: AtomicU64,
}
impl Statistics {
    #[verifier::external_body]
    pub fn record_sector_release_failure(&self) { unimplemented!() }
    #[verifier::external_body]
    pub fn record_write_failed(&self) { unimplemented!() }
    #[verifier::external_body]
    pub fn record_write_flushed(&self, count: u64) { unimplemented!() }
}

// ---- records: the fields and methods the worker touches. The three predicates are modelled as
// stable within one call (sequential atomics, A3): enough to pin WHICH check guards WHICH action.
// `Record::sector`: the head block of the record's extent, 0 while unwritten. Published sectors fit
// 2^28 (devices are at most MAX_DEVICE_SIZE = 1 TiB; allocate_sectors returns in-bounds runs, unit free_space); the
// value is modelled as stable within one call (A3).
#[verifier::external_body]
pub struct SectorCell { _p: () }
impl SectorCell {
    pub uninterp spec fn val(&self) -> u64;

    #[verifier::external_body]
    pub fn load(&self, o: Ordering) -> (s: u64)
        ensures s == self.val(), s <= 0x1000_0000,
    {
        unimplemented!()
    }

    #[verifier::external_body]
    pub fn store(&self, v: u64, o: Ordering) { unimplemented!() }
}

pub struct Record {
    pub key: Vec<u8>,
    pub value_len: usize,
    pub sector: SectorCell,
    pub refcount: AtomicU32,
}

pub uninterp spec fn successor_durable_spec(r: &Record) -> bool;
pub uninterp spec fn has_readers_spec(r: &Record) -> bool;
pub uninterp spec fn rec_sector_spec(r: &Record) -> u64;

pub open spec fn record_bounded(r: &Record) -> bool {
    r.key@.len() <= 0x10_0000 && r.value_len <= 0x1000_0000
}

impl Record {
    #[verifier::external_body]
    pub fn successor_is_durable_or_deleted(&self) -> (b: bool)
        ensures b == successor_durable_spec(self),
    {
        unimplemented!()
    }

    #[verifier::external_body]
    pub fn retire_extent(&self) { unimplemented!() }

    #[verifier::external_body]
    pub fn extent_has_readers(&self) -> (b: bool)
        ensures b == has_readers_spec(self),
    {
        unimplemented!()
    }

    #[verifier::external_body]
    pub fn clear_value(&self) { unimplemented!() }
}

// ---- record formats
#[verifier::external_body]
pub struct FormatAny { _p: () }
impl FormatAny {
    pub uninterp spec fn fixed(&self) -> nat;

    #[verifier::external_body]
    pub fn total_size(&self, key_len: usize, value_len: usize) -> (r: usize)
        requires key_len <= 0x10_0000, value_len <= 0x1000_0000,
        ensures r == self.fixed() + key_len + value_len, self.fixed() == 22 || self.fixed() == 30,
    {
        unimplemented!()
    }
}

// the two formats: 4 + 2 + 8 + 8 bytes around the key (v1), + 8 for the expiry (v2/v3)
#[verifier::external_body]
pub proof fn axiom_format_fixed(f: &FormatAny)
    ensures f.fixed() == 22 || f.fixed() == 30,
{
}

// ---- the free-space manager behind its lock: ghost log of successful calls
#[verifier::external_body]
pub struct FreeSpaceManager { _p: () }
impl FreeSpaceManager {
    pub uninterp spec fn released(&self) -> Seq<(u64, u64)>;
    pub uninterp spec fn allocated(&self) -> Seq<(u64, u64)>;

    #[verifier::external_body]
    pub fn release_sectors(&mut self, start: u64, count: u64) -> (r: Result<()>)
        ensures
            final(self).allocated() == old(self).allocated(),
            r is Ok ==> final(self).released() == old(self).released().push((start, count)),
            r is Err ==> final(self).released() == old(self).released(),
    {
        unimplemented!()
    }

    #[verifier::external_body]
    pub fn allocate_sectors(&mut self, count: u64) -> (r: Result<u64>)
        ensures
            final(self).released() == old(self).released(),
            r matches Ok(s) ==> final(self).allocated() == old(self).allocated().push((s, count)) && s >= 16 && s as int + count as int <= 0x1000_0000,
            r is Err ==> final(self).allocated() == old(self).allocated(),
    {
        unimplemented!()
    }
}

#[verifier::external_body]
pub struct FreeSpaceLock { _p: () }
impl FreeSpaceLock {
    // the guard; a fresh acquisition starts with empty logs
    #[verifier::external_body]
    pub fn write(&self) -> (g: FreeSpaceManager)
        ensures g.released() == Seq::<(u64, u64)>::empty(), g.allocated() == Seq::<(u64, u64)>::empty(),
    {
        unimplemented!()
    }
}

// `bytes::Bytes`: an immutable buffer handle
#[verifier::external_body]
pub struct Bytes { _p: () }
impl Bytes {
    pub uninterp spec fn view(&self) -> Seq<u8>;
}

// Bytes::from(std::mem::take(&mut V))   (rule R-bytes)
#[verifier::external_body]
pub fn bytes_take(v: &mut Vec<u8>) -> (b: Bytes)
    ensures b.view() == old(v)@, final(v)@.len() == 0,
{
    unimplemented!()
}

// ---- the device behind its lock: ghost log of the calls attempted, in order, with their outcome
pub enum DiskEvent {
    Journal { extents: Seq<(u64, usize)>, ok: bool },
    Data { sectors: Seq<u64>, ok: bool },
    Clear { ok: bool },
    Retire { extents: Seq<(u64, usize)>, ok: bool },
}

#[verifier::external_body]
pub struct DiskIO { _p: () }
impl DiskIO {
    pub uninterp spec fn log(&self) -> Seq<DiskEvent>;

    #[verifier::external_body]
    pub fn write_allocation_journal(&mut self, extents: &[(u64, usize)]) -> (r: Result<()>)
        ensures final(self).log() == old(self).log().push(DiskEvent::Journal { extents: extents@, ok: r is Ok }),
    {
        unimplemented!()
    }

    #[verifier::external_body]
    pub fn batch_write_bytes(&mut self, writes: &[(u64, Bytes)]) -> (r: Result<()>)
        ensures final(self).log() == old(self).log().push(DiskEvent::Data { sectors: writes@.map_values(|w: (u64, Bytes)| w.0), ok: r is Ok }),
    {
        unimplemented!()
    }

    #[verifier::external_body]
    pub fn clear_allocation_journal(&mut self) -> (r: Result<()>)
        ensures final(self).log() == old(self).log().push(DiskEvent::Clear { ok: r is Ok }),
    {
        unimplemented!()
    }

    #[verifier::external_body]
    pub fn retire_extents(&mut self, extents: &[(u64, usize)]) -> (r: Result<()>)
        ensures final(self).log() == old(self).log().push(DiskEvent::Retire { extents: extents@, ok: r is Ok }),
    {
        unimplemented!()
    }

    // std::io::Error payloads are opaque; the variant is what callers branch on
    #[verifier::external_body]
    pub fn poison_writes(&self, error: FeoxError) -> (r: FeoxError)
        ensures r is IndeterminateWrite,
    {
        unimplemented!()
    }
}

#[verifier::external_body]
pub struct DiskLock { _p: () }
impl DiskLock {
    #[verifier::external_body]
    pub fn write(&self) -> (g: DiskIO)
        ensures g.log() == Seq::<DiskEvent>::empty(),
    {
        unimplemented!()
    }
}

// ---- std shims
#[verifier::external_body]
pub fn div_ceil_usize(a: usize, b: usize) -> (r: usize)
    requires b > 0,
    ensures r as int == (a as int + b as int - 1) / (b as int),
{
    a.div_ceil(b)
}

// `A.extend(V)` for a Vec moved in (rule R-extend)
#[verifier::external_body]
pub fn vec_extend<T>(a: &mut Vec<T>, v: Vec<T>)
    ensures final(a)@ == old(a)@ + v@,
{
    a.extend(v)
}

// `for X in V {` over a Vec moved in (rule R-forvec; Verus for-loops have no `continue`)
#[verifier::external_body]
#[verifier::reject_recursive_types(T)]
pub struct VecQueue<T> { it: std::vec::IntoIter<T> }
impl<T> VecQueue<T> {
    pub uninterp spec fn rest(&self) -> Seq<T>;

    #[verifier::external_body]
    pub fn new(v: Vec<T>) -> (q: VecQueue<T>)
        ensures q.rest() == v@,
    {
        VecQueue { it: v.into_iter() }
    }

    // it.by_ref().take(n).collect::<Vec<_>>()   (rule R-iterq): the next min(n, len) elements, in order
    #[verifier::external_body]
    pub fn take_batch(&mut self, n: usize) -> (r: Vec<T>)
        ensures
            r@ == old(self).rest().take(if n <= old(self).rest().len() { n as int } else { old(self).rest().len() as int }),
            final(self).rest() == old(self).rest().skip(r@.len() as int),
    {
        self.it.by_ref().take(n).collect()
    }

    // what is left of the iterator, in order
    #[verifier::external_body]
    pub fn into_rest(self) -> (r: Vec<T>)
        ensures r@ == self.rest(),
    {
        self.it.collect()
    }

    #[verifier::external_body]
    pub fn pop_front(&mut self) -> (r: Option<T>)
        ensures
            old(self).rest().len() == 0 ==> r is None && final(self).rest() == old(self).rest(),
            old(self).rest().len() > 0 ==> r == Some(old(self).rest()[0]) && final(self).rest() == old(self).rest().drop_first(),
    {
        self.it.next()
    }
}

pub fn drop<T>(t: T) {
}

// std::mem::take(&mut v) on a Vec   (rule R-take)
#[verifier::external_body]
pub fn vec_take_all<T>(v: &mut Vec<T>) -> (r: Vec<T>)
    ensures r@ == old(v)@, final(v)@.len() == 0,
{
    std::mem::take(v)
}

// ---- worker context (the fields process_write_batch reads)
#[verifier::external_body]
pub struct PendingLock { _p: () }
#[verifier::external_body]
pub struct PendingGuard { _p: () }
impl PendingLock {
    #[verifier::external_body]
    pub fn lock(&self) -> PendingGuard { unimplemented!() }
}

#[verifier::external_body]
pub struct FlushLock { _p: () }
impl FlushLock {
    #[verifier::external_body]
    pub fn lock(&self) -> () { unimplemented!() }
    // parking_lot::Mutex::try_lock: may find the lock taken (another retirement pass in flight)
    #[verifier::external_body]
    pub fn try_lock(&self) -> Option<()> { unimplemented!() }
}
pub struct RetirementQueue {
    pub pending: PendingLock,
    pub flush: FlushLock,
    pub released_sectors: AtomicU64,
}

// one shard of the write buffer (mutex + VecDeque inside)
#[verifier::external_body]
pub struct ShardBuffer { _p: () }
impl ShardBuffer {
    // the shard's number (its position in the write buffer's shard vector)
    pub uninterp spec fn id(&self) -> int;
    #[verifier::external_body]
    pub fn drain_entries(&self) -> (v: Vec<WriteEntry>)
        ensures all_bounded(v@), v@.len() <= 0x1000_0000,
    {
        unimplemented!()
    }
    // puts entries back at the FRONT of the shard in order; `failed` counts a retry against each
    #[verifier::external_body]
    pub fn requeue_entries(&self, entries: Vec<WriteEntry>, stats: &Statistics, failed: bool) { unimplemented!() }
}

#[verifier::external_body]
pub struct ShutdownFlag { _p: () }
impl ShutdownFlag {
    #[verifier::external_body]
    pub fn load(&self, o: Ordering) -> bool { unimplemented!() }
}
pub struct WorkerContext {
    pub shutdown: ShutdownFlag,
    pub worker_id: usize,
    pub worker_count: usize,
    pub sharded_buffers: Vec<ShardBuffer>,
    pub disk_io: DiskLock,
    pub free_space: FreeSpaceLock,
    pub stats: Statistics,
    pub retirement_queue: RetirementQueue,
    pub format_version: u32,
    pub fault_scope: usize,
}

// (a..b).step_by(s): next index of the worker's stride (step_by panics on 0)
pub fn step_next(i: usize, step: usize) -> (r: usize)
    requires step > 0,
    ensures r as int == (if i as int + step as int <= usize::MAX as int { i as int + step as int } else { usize::MAX as int }), r > i || i == usize::MAX,
{
    i.saturating_add(step)
}

// test-only fault injection and crash points: any outcome / no effect
#[verifier::external_body]
pub fn fail_at(point: &str, scope: usize) -> bool { unimplemented!() }
#[verifier::external_body]
pub fn crash_at(point: &str) { unimplemented!() }

pub const RECORD_WRITE: &'static str = "record_write";
pub const SEQ_TOKEN_MIN_VERSION: u32 = 3;

// retry backoff (rule R-backoff): jitter within +-10 % of the delay; sleeping has no effect on state
#[verifier::external_body]
pub fn backoff_jitter(delay_us: i32) -> (j: i32)
    requires 0 <= delay_us <= 1_000_000,
    ensures -(delay_us as int) / 10 - 1 <= j as int <= delay_us as int / 10 + 1,
{
    unimplemented!()
}
#[verifier::external_body]
pub fn sleep_micros(us: u64) { unimplemented!() }
pub fn max_i32(a: i32, b: i32) -> (r: i32)
    ensures r == if a >= b { a } else { b },
{
    if a >= b { a } else { b }
}
