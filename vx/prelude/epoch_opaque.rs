// Opaque surface of crossbeam-epoch as TreeSlot uses it (unit tree_slot; C20: swap + defer_destroy under an epoch pin;
// readers dereference only what they loaded under their own pin). TRUSTED (A39): crossbeam-epoch's contract, restated as
// shim preconditions - (1) `Shared::deref` is sound for a non-null pointer loaded (or swapped out) under the guard whose
// lifetime bounds the reference (the lifetime tie is in TreeSlot::load's signature and is checked by rustc, not here);
// (2) `Guard::defer_destroy` is sound for a non-null pointer that has been UNLINKED from its cell (the caller's own swap
// displaced it), is given at most once (the pointer is consumed), and runs the destructor only after every thread pinned
// now has unpinned; (3) IMMEDIATE reclamation (`into_owned`) is sound only with exclusive ownership of the cell itself -
// `Atomic::into_owned` on a cell obtained by value -; for a `Shared` pointer taken out of a cell other threads can still
// read, nothing this surface offers can establish it (`quiescent` has no introduction rule). A slot is never null
// between construction and drop (every store swaps in an Owned::new cell): stated as TreeSlot::load's precondition.
pub enum Ordering { Relaxed, Release, Acquire, AcqRel, SeqCst }
#[verifier::external_body]
pub struct Record { _p: () }
#[verifier::external_body]
pub struct Guard { _p: () }
// epoch::pin()
#[verifier::external_body]
pub fn epoch_pin() -> Guard { unimplemented!() }
#[verifier::external_body]
pub struct OwnedCell { _p: () }
impl OwnedCell {
    pub uninterp spec fn target(&self) -> Arc<Record>;
    // Owned::new(record)
    #[verifier::external_body]
    pub fn new(record: Arc<Record>) -> (r: OwnedCell)
        ensures r.target() == record,
    {
        unimplemented!()
    }
}
impl OwnedCell {
    // Owned::into_box: the cell's contents by value (the cell is freed)
    #[verifier::external_body]
    pub fn into_box(self) -> (r: Box<Arc<Record>>)
        ensures *r == self.target(),
    {
        unimplemented!()
    }
}
// drop(owned)
#[verifier::external_body]
pub fn drop_owned(o: OwnedCell) { unimplemented!() }
#[verifier::external_body]
pub struct SharedPtr { _p: () }
impl SharedPtr {
    pub uninterp spec fn null(&self) -> bool;
    pub uninterp spec fn target(&self) -> Arc<Record>;
    // displaced from its cell by the caller's own swap: no later load can return it
    pub uninterp spec fn unlinked(&self) -> bool;
    // no pinned thread can still hold a reference obtained through this pointer (never established by this surface)
    pub uninterp spec fn quiescent(&self) -> bool;
    #[verifier::external_body]
    pub fn is_null(&self) -> (r: bool)
        ensures r == self.null(),
    {
        unimplemented!()
    }
    // unsafe Shared::deref
    #[verifier::external_body]
    pub fn deref<'g>(&self) -> (r: &'g Arc<Record>)
        requires !self.null(),
        ensures *r == self.target(),
    {
        unimplemented!()
    }
    // unsafe Shared::into_owned: immediate reclamation of a pointer other threads may still have loaded
    #[verifier::external_body]
    pub fn into_owned(self) -> (r: OwnedCell)
        requires !self.null(), self.unlinked(), self.quiescent(),
    {
        unimplemented!()
    }
}
impl Guard {
    // unsafe Guard::defer_destroy
    #[verifier::external_body]
    pub fn defer_destroy(&self, ptr: SharedPtr)
        requires !ptr.null(), ptr.unlinked(),
    {
        unimplemented!()
    }
}
#[verifier::external_body]
pub struct AtomicCell { _p: () }
impl AtomicCell {
    pub uninterp spec fn null_cell(&self) -> bool;
    pub uninterp spec fn held(&self) -> Arc<Record>;
    // Atomic::new(record)
    #[verifier::external_body]
    pub fn new(record: Arc<Record>) -> (r: AtomicCell)
        ensures !r.null_cell(), r.held() == record,
    {
        unimplemented!()
    }
    // Atomic::null()
    #[verifier::external_body]
    pub fn null() -> (r: AtomicCell)
        ensures r.null_cell(),
    {
        unimplemented!()
    }
    #[verifier::external_body]
    pub fn load(&self, o: Ordering, guard: &Guard) -> (r: SharedPtr)
        ensures r.null() == self.null_cell(), !r.null() ==> r.target() == self.held(), !r.unlinked(),
    {
        unimplemented!()
    }
    #[verifier::external_body]
    pub fn swap(&self, new: OwnedCell, o: Ordering, guard: &Guard) -> (r: SharedPtr)
        ensures r.null() == self.null_cell(), !r.null() ==> r.target() == self.held(), r.unlinked(),
    {
        unimplemented!()
    }
    // unsafe Atomic::into_owned on a cell owned by value (exclusive by ownership)
    #[verifier::external_body]
    pub fn into_owned(self) -> (r: OwnedCell)
        requires !self.null_cell(),
    {
        unimplemented!()
    }
}
pub struct TreeSlot {
    pub record: AtomicCell,
}
// mem::replace(&mut self.record, Atomic::null())
#[verifier::external_body]
pub fn replace_cell(cell: &mut AtomicCell, with: AtomicCell) -> (r: AtomicCell)
    ensures r == *old(cell), *final(cell) == with,
{
    unimplemented!()
}
// debug_assert!(c): checked in debug builds only; no effect here
pub fn debug_check(c: bool) {}
