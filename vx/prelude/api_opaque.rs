// Opaque surface behind the public API wrappers (unit store_api; C01 / C11 / C12 call sites). TRUSTED (A25): the
// functions the wrappers delegate to are the ones verified in units update_path / atomic_ops / ttl_path; here each is
// an uninterpreted function of its arguments, so a wrapper's contract pins exactly WHICH arguments it passes on and
// which validation comes first.

pub enum Ordering { Relaxed, Release, Acquire, AcqRel, SeqCst }
pub uninterp spec fn wall_now() -> u64;
pub uninterp spec fn clock_next_val(key: Seq<u8>, wall: u64) -> u64;

#[verifier::external_body]
pub struct Bytes { _p: () }
impl Bytes {
    pub uninterp spec fn view(&self) -> Seq<u8>;
    #[verifier::external_body]
    pub fn len(&self) -> (n: usize)
        ensures n == self.view().len(),
    {
        unimplemented!()
    }
    #[verifier::external_body]
    pub fn is_empty(&self) -> (b: bool)
        ensures b == (self.view().len() == 0),
    {
        unimplemented!()
    }
}
pub struct Record { pub key: Vec<u8>, pub value_len: usize }
#[verifier::external_body]
pub struct HashIndex { _p: () }
impl HashIndex {
    pub uninterp spec fn lookup(&self, key: Seq<u8>) -> Option<Arc<Record>>;
    #[verifier::external_body]
    pub fn read_arc(&self, key: &[u8]) -> (r: Option<Arc<Record>>)
        ensures r == self.lookup(key@),
    {
        unimplemented!()
    }
}
#[verifier::external_body]
pub struct VersionClock { _p: () }
impl VersionClock {
    #[verifier::external_body]
    pub fn next(&self, key: &[u8], wall: u64) -> (r: u64)
        ensures r == clock_next_val(key@, wall),
    {
        unimplemented!()
    }
    #[verifier::external_body]
    pub fn observe(&self, key: &[u8], timestamp: u64) { unimplemented!() }
}
#[verifier::external_body]
#[derive(Clone, Copy)]
pub struct InstantH { _p: () }
#[verifier::external_body]
pub fn instant_now() -> InstantH { unimplemented!() }

pub struct FeoxStore {
    pub hash_table: HashIndex,
    pub version_clock: VersionClock,
    pub enable_ttl: bool,
    pub memory_only: bool,
    pub format_version: u32,
}

// results of the functions the wrappers delegate to
pub uninterp spec fn res_insert(key: Seq<u8>, value: Seq<u8>, timestamp: Option<u64>, ttl_seconds: u64) -> Result<bool>;
pub uninterp spec fn res_insert_bytes(key: Seq<u8>, value: Seq<u8>, timestamp: u64, explicit: bool, ttl_expiry: u64) -> Result<bool>;
pub uninterp spec fn res_delete(key: Seq<u8>, timestamp: Option<u64>) -> Result<()>;
pub uninterp spec fn res_increment(key: Seq<u8>, delta: i64, timestamp: Option<u64>, ttl_seconds: u64) -> Result<i64>;
pub uninterp spec fn res_cas(key: Seq<u8>, expected: Seq<u8>, new_value: Seq<u8>, timestamp: Option<u64>, ttl_seconds: u64) -> Result<bool>;
pub uninterp spec fn res_patch(key: Seq<u8>, patch: Seq<u8>, timestamp: Option<u64>) -> Result<()>;

impl FeoxStore {
    #[verifier::external_body]
    pub fn get_timestamp_pub(&self) -> (t: u64)
        ensures t == wall_now(),
    {
        unimplemented!()
    }
    // unit update_path
    #[verifier::external_body]
    pub fn insert_with_timestamp_and_ttl_internal(&self, key: &[u8], value: &[u8], timestamp: Option<u64>, ttl_seconds: u64) -> (r: Result<bool>)
        ensures r == res_insert(key@, value@, timestamp, ttl_seconds),
    {
        unimplemented!()
    }
    // unit update_path: callers validate first (its `requires`)
    #[verifier::external_body]
    pub fn insert_bytes_with_expiry(&self, key: &[u8], value: Bytes, timestamp: u64, explicit_timestamp: bool, ttl_expiry: u64, start: InstantH) -> (r: Result<bool>)
        requires 1 <= key@.len() <= 0x10_0000, 1 <= value.view().len() <= 0x1000_0000,
        ensures r == res_insert_bytes(key@, value.view(), timestamp, explicit_timestamp, ttl_expiry),
    {
        unimplemented!()
    }
    #[verifier::external_body]
    pub fn delete_with_timestamp(&self, key: &[u8], timestamp: Option<u64>) -> (r: Result<()>)
        ensures r == res_delete(key@, timestamp),
    {
        unimplemented!()
    }
    // unit atomic_ops
    #[verifier::external_body]
    pub fn atomic_increment_with_timestamp_and_ttl(&self, key: &[u8], delta: i64, timestamp: Option<u64>, ttl_seconds: u64) -> (r: Result<i64>)
        ensures r == res_increment(key@, delta, timestamp, ttl_seconds),
    {
        unimplemented!()
    }
    #[verifier::external_body]
    pub fn compare_and_swap_with_timestamp_and_ttl(&self, key: &[u8], expected: &[u8], new_value: &[u8], timestamp: Option<u64>, ttl_seconds: u64) -> (r: Result<bool>)
        ensures r == res_cas(key@, expected@, new_value@, timestamp, ttl_seconds),
    {
        unimplemented!()
    }
    #[verifier::external_body]
    pub fn json_patch_with_timestamp(&self, key: &[u8], patch: &[u8], timestamp: Option<u64>) -> (r: Result<()>)
        ensures r == res_patch(key@, patch@, timestamp),
    {
        unimplemented!()
    }
    // unit ttl_path
    #[verifier::external_body]
    pub fn ensure_ttl_write_supported(&self) -> (r: Result<()>)
        ensures r is Err <==> (!self.memory_only && self.format_version == 1),
    {
        unimplemented!()
    }
}
pub fn sat_add_u64(a: u64, b: u64) -> (r: u64)
    ensures r as int == (if a as int + b as int > u64::MAX as int { u64::MAX as int } else { a as int + b as int }),
{
    if a > u64::MAX - b { u64::MAX } else { a + b }
}
pub fn sat_mul_u64(a: u64, b: u64) -> (r: u64)
    ensures r as int == (if a as int * b as int > u64::MAX as int { u64::MAX as int } else { a as int * b as int }),
{
    match a.checked_mul(b) { Some(v) => v, None => u64::MAX }
}
pub fn max_u64(a: u64, b: u64) -> (r: u64)
    ensures r == (if a >= b { a } else { b }),
{
    if a >= b { a } else { b }
}
pub open spec fn expiry_after(timestamp: u64, ttl_seconds: u64) -> int {
    let nanos = if ttl_seconds as int * 1_000_000_000 > u64::MAX as int { u64::MAX as int } else { ttl_seconds as int * 1_000_000_000 };
    if timestamp as int + nanos > u64::MAX as int { u64::MAX as int } else { timestamp as int + nanos }
}
