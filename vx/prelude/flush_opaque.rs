// Opaque surface for the flush entry points (unit flush_path; C09 error propagation, C10 metadata counters).
// TRUSTED (A15): worker channels, locks and the device are handles; counters are stable within one call (A3).

pub enum Ordering { Relaxed, Release, Acquire, AcqRel, SeqCst }

#[verifier::external_body]
pub struct CounterU32 { _p: () }
impl CounterU32 {
    pub uninterp spec fn val(&self) -> u32;
    #[verifier::external_body]
    pub fn load(&self, o: Ordering) -> (v: u32)
        ensures v == self.val(),
    {
        unimplemented!()
    }
}
#[verifier::external_body]
pub struct CounterU64 { _p: () }
impl CounterU64 {
    pub uninterp spec fn val(&self) -> u64;
    #[verifier::external_body]
    pub fn load(&self, o: Ordering) -> (v: u64)
        ensures v == self.val(),
    {
        unimplemented!()
    }
}

pub struct Statistics {
    pub record_count: CounterU32,
    pub disk_usage: CounterU64,
}

// the persisted counters of the metadata block (metadata.rs; encode/validate are the Kani unit metadata)
pub struct Metadata {
    pub total_records: u64,
    pub total_size: u64,
    pub fragmentation: u32,
}
impl Metadata {
    // stamps the update time and refreshes the checksum: the three counters are untouched
    #[verifier::external_body]
    pub fn update(&mut self)
        ensures
            final(self).total_records == old(self).total_records,
            final(self).total_size == old(self).total_size,
            final(self).fragmentation == old(self).fragmentation,
    {
        unimplemented!()
    }
}
#[verifier::external_body]
pub struct MetaLock { _p: () }
impl MetaLock {
    #[verifier::external_body]
    pub fn write(&self) -> Metadata { unimplemented!() }
}

#[verifier::external_body]
pub struct FreeSpaceView { _p: () }
impl FreeSpaceView {
    #[verifier::external_body]
    pub fn get_fragmentation(&self) -> u32 { unimplemented!() }
}
#[verifier::external_body]
pub struct FreeSpaceLock { _p: () }
impl FreeSpaceLock {
    #[verifier::external_body]
    pub fn read(&self) -> FreeSpaceView { unimplemented!() }
}

#[verifier::external_body]
pub struct DiskIO { _p: () }
impl DiskIO {
    #[verifier::external_body]
    pub fn write_store_metadata(&mut self, metadata: &mut Metadata) -> Result<()> { unimplemented!() }
    #[verifier::external_body]
    pub fn shutdown(&mut self) { unimplemented!() }
}
#[verifier::external_body]
pub struct DiskLock { _p: () }
impl DiskLock {
    #[verifier::external_body]
    pub fn write(&self) -> DiskIO { unimplemented!() }
}

// the write buffer: whether this call's force_flush succeeds is one fixed (unknown) fact
#[verifier::external_body]
pub struct WriteBufferH { _p: () }
impl WriteBufferH {
    pub uninterp spec fn flush_succeeds(&self) -> bool;
    #[verifier::external_body]
    pub fn initiate_shutdown(&self) { unimplemented!() }
    // joins the workers (each runs its bounded final flush: unit worker_loop)
    #[verifier::external_body]
    pub fn finish_shutdown(&self) { unimplemented!() }
    #[verifier::external_body]
    pub fn force_flush(&self) -> (r: Result<()>)
        ensures (r is Ok) == self.flush_succeeds(),
    {
        unimplemented!()
    }
}

// the TTL sweeper slot (Drop stops it first)
#[verifier::external_body]
pub struct SweeperH { _p: () }
impl SweeperH {
    #[verifier::external_body]
    pub fn stop(&mut self) { unimplemented!() }
}
#[verifier::external_body]
pub struct SweeperSlot { _p: () }
#[verifier::external_body]
pub struct SweeperGuard { _p: () }
impl SweeperSlot {
    #[verifier::external_body]
    pub fn write(&self) -> SweeperGuard { unimplemented!() }
}
impl SweeperGuard {
    #[verifier::external_body]
    pub fn take(&mut self) -> Option<SweeperH> { unimplemented!() }
}
pub struct FeoxStore {
    pub initialized: bool,
    pub read_only: bool,
    pub ttl_sweeper: SweeperSlot,
    pub memory_only: bool,
    pub write_buffer: Option<WriteBufferH>,
    pub disk_io: Option<DiskLock>,
    pub _metadata: MetaLock,
    pub stats: Statistics,
    pub free_space: FreeSpaceLock,
}

// ---- force_flush: per-worker flush requests over channels
#[verifier::external_body]
pub struct FormatAny { _p: () }
#[verifier::external_body]
pub fn get_format_ref(version: u32) -> &'static FormatAny { unimplemented!() }

// what a worker answers: Ok(true) = it still holds entries to retry, Ok(false) = drained, Err = its flush failed
#[verifier::external_body]
pub struct ReplyTx { _p: () }
#[verifier::external_body]
pub struct ReplyRx { _p: () }
pub struct RecvError { pub _p: () }
impl ReplyRx {
    #[verifier::external_body]
    pub fn recv(&self) -> core::result::Result<Result<bool>, RecvError> { unimplemented!() }
}
#[verifier::external_body]
pub fn bounded(cap: usize) -> (ReplyTx, ReplyRx) { unimplemented!() }

pub struct FlushRequest {
    pub response: Option<ReplyTx>,
    pub defer_retirements: bool,
}
pub struct SendError { pub _p: () }
#[verifier::external_body]
pub struct WorkerTx { _p: () }
impl WorkerTx {
    #[verifier::external_body]
    pub fn send(&self, request: FlushRequest) -> core::result::Result<(), SendError> { unimplemented!() }
}

#[verifier::external_body]
pub struct RetirementQueue { _p: () }

pub struct WriteBuffer {
    pub worker_channels: Vec<WorkerTx>,
    pub format_version: u32,
    pub retirement_queue: RetirementQueue,
    pub disk_io: DiskLock,
    pub free_space: FreeSpaceLock,
    pub stats: Statistics,
}

// unit write_batch covers process_deletions underneath; Ok(true) = some retirements have to be retried
#[verifier::external_body]
pub fn flush_pending_deletions(q: &RetirementQueue, disk_io: &DiskLock, free_space: &FreeSpaceLock, stats: &Statistics, format: &FormatAny) -> Result<bool> { unimplemented!() }

// (0..n).collect()   (rule R-rangevec)
#[verifier::external_body]
pub fn range_vec(n: usize) -> (v: Vec<usize>)
    ensures v@.len() == n, forall|i: int| 0 <= i < n ==> v@[i] == i,
{
    (0..n).collect()
}
// (0..n).filter(PRED).collect()   (rule R-rangevec, over-approximation): SOME of the indices 0..n, in ascending order - the
// predicate itself is not modelled, so nothing may be concluded about which indices were kept
#[verifier::external_body]
pub fn range_vec_subset(n: usize) -> (v: Vec<usize>)
    ensures v@.len() <= n, forall|i: int| 0 <= i < v@.len() ==> (#[trigger] v@[i]) < n,
{
    unimplemented!()
}
// V.drain(..) consumed by a for loop   (rule R-drainall): all elements, in order; V is left empty
#[verifier::external_body]
pub fn vec_take_all<T>(v: &mut Vec<T>) -> (r: Vec<T>)
    ensures r@ == old(v)@, final(v)@.len() == 0,
{
    v.drain(..).collect()
}
#[verifier::external_body]
pub fn sleep_micros(us: u64) { unimplemented!() }
pub fn min_u64(a: u64, b: u64) -> (r: u64)
    ensures r == if a <= b { a } else { b },
{
    if a <= b { a } else { b }
}
