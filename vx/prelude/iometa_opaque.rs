// Opaque surface of DiskIO for the journal-position restore and the metadata writers (unit io_meta; C03 / C10). TRUSTED (A35):
// the methods take `&mut self` here (rule R-sigmut) so that the device calls can be logged; read_sectors_sync / write_sectors_sync
// / flush are one event each; the journal position (generation, slot) is a pair of atomics written through set_* shims;
// allocation_journal::decode is the function verified in unit journal (here: an uninterpreted function of the bytes read);
// Metadata::{advance_generation, encode, generation} are the functions of the Kani unit metadata.

pub enum MEvent {
    Read { sector: u64, count: u64, ok: bool },
    Write { sector: u64, data: Seq<u8>, ok: bool },
    Flush { ok: bool },
}
pub struct JournalState { pub generation: u64, pub slot: usize, pub extents: Vec<(u64, usize)> }
pub uninterp spec fn decoded(data: Seq<u8>, total_sectors: u64) -> Option<(u64, usize, Seq<(u64, usize)>)>;
#[verifier::external_body]
pub fn decode_allocation_journal(data: &Vec<u8>, total_sectors: u64) -> (r: Result<JournalState>)
    ensures
        r matches Ok(s) ==> decoded(data@, total_sectors) == Some((s.generation, s.slot, s.extents@)),
        r is Err ==> decoded(data@, total_sectors) is None,
{
    unimplemented!()
}

#[derive(Clone, Copy)]
pub struct Metadata { pub gen_: u64, pub body: u64 }
impl Metadata {
    pub uninterp spec fn image(&self) -> Seq<u8>;
    // bumps the generation (Kani: metadata_advance_generation); fails at u64::MAX
    #[verifier::external_body]
    pub fn advance_generation(&mut self) -> (r: Result<()>)
        ensures
            r is Ok ==> (final(self).gen_ == old(self).gen_ + 1 && final(self).body == old(self).body),
            r is Err ==> *final(self) == *old(self),
    {
        unimplemented!()
    }
    #[verifier::external_body]
    pub fn encode(&self) -> (r: Vec<u8>)
        ensures r@ == self.image(), r@.len() <= 4096,
    {
        unimplemented!()
    }
    #[verifier::external_body]
    pub fn generation(&self) -> (r: u64)
        ensures r == self.gen_,
    {
        unimplemented!()
    }
}

// the device behind the handle: an opaque value, so that log() / position() can differ before and after a call
#[verifier::external_body]
pub struct Device { _p: () }
pub struct DiskIO { pub _use_direct_io: bool, pub dev: Device }
impl DiskIO {
    pub uninterp spec fn log(&self) -> Seq<MEvent>;
    pub uninterp spec fn position(&self) -> (u64, usize);
    #[verifier::external_body]
    pub fn read_sectors_sync(&mut self, sector: u64, count: u64) -> (r: Result<Vec<u8>>)
        ensures final(self).log() == old(self).log().push(MEvent::Read { sector, count, ok: r is Ok }), final(self).position() == old(self).position(),
            r matches Ok(v) ==> v@.len() == count * 4096,
    {
        unimplemented!()
    }
    #[verifier::external_body]
    pub fn write_sectors_sync(&mut self, sector: u64, data: &Vec<u8>) -> (r: Result<()>)
        ensures final(self).log() == old(self).log().push(MEvent::Write { sector, data: data@, ok: r is Ok }), final(self).position() == old(self).position(),
    {
        unimplemented!()
    }
    #[verifier::external_body]
    pub fn flush(&mut self) -> (r: Result<()>)
        ensures final(self).log() == old(self).log().push(MEvent::Flush { ok: r is Ok }), final(self).position() == old(self).position(),
    {
        unimplemented!()
    }
    // self.journal_generation.store(g, Release)
    #[verifier::external_body]
    pub fn set_journal_generation(&mut self, g: u64)
        ensures final(self).position() == (g, old(self).position().1), final(self).log() == old(self).log(),
    {
        unimplemented!()
    }
    // self.journal_slot.store(s, Release)
    #[verifier::external_body]
    pub fn set_journal_slot(&mut self, s: usize)
        ensures final(self).position() == (old(self).position().0, s), final(self).log() == old(self).log(),
    {
        unimplemented!()
    }
}
#[verifier::external_body]
pub fn zeroed_vec(n: usize) -> (v: Vec<u8>)
    ensures v@.len() == n, forall|i: int| 0 <= i < n ==> v@[i] == 0,
{
    vec![0; n]
}
// block[..n].copy_from_slice(src) with n == src.len()   (rule R-cpy)
#[verifier::external_body]
pub fn copy_prefix(block: &mut Vec<u8>, src: &[u8])
    requires src@.len() <= old(block)@.len(),
    ensures final(block)@.len() == old(block)@.len(), final(block)@.subrange(0, src@.len() as int) == src@,
        forall|i: int| src@.len() <= i < old(block)@.len() ==> final(block)@[i] == old(block)@[i],
{
    let n = src.len();
    block[..n].copy_from_slice(src)
}
impl DiskIO {
    // self.journal_generation.load(..) / self.journal_slot.load(..)   (rule R-atom; unit journal_pos)
    #[verifier::external_body]
    pub fn journal_generation_load(&self) -> (g: u64)
        ensures g == self.position().0,
    {
        unimplemented!()
    }
    #[verifier::external_body]
    pub fn journal_slot_load(&self) -> (s: usize)
        ensures s == self.position().1,
    {
        unimplemented!()
    }
}
