// Opaque surface of the offline migration (unit migration; C15). TRUSTED (A26): paths, files, file stamps and the two
// stores are handles; file-system calls (symlink_metadata, hard_link, remove_file, directory fsync) are shims whose
// only modelled property is their error class - the obligations are about WHICH call may follow which, and with
// which arguments; `fs::hard_link` fails with AlreadyExists when the name exists (POSIX), which is what makes
// publication non-overwriting; resolve_value_ref / insert_migrated_bytes / flush are the functions of the units
// read_disk / store_api / flush_path.

pub enum Ordering { Relaxed, Release, Acquire, AcqRel, SeqCst }

#[verifier::external_body]
pub struct PathH { _p: () }
impl PathH {
    #[verifier::external_body]
    pub fn clone(&self) -> PathH { unimplemented!() }
    #[verifier::external_body]
    pub fn to_path_buf(&self) -> PathH { unimplemented!() }
}
#[verifier::external_body]
pub struct IoErr { _p: () }
#[verifier::external_body]
pub struct FileH { _p: () }

// migration.rs `enum MigrationError` re-stated by hand (thiserror attributes dropped, io::Error / PathBuf payloads opaque)
pub enum MigrationError {
    InvalidDestination(PathH),
    DestinationExists(PathH),
    CurrentFormat(u32),
    KeyTooLarge { length: usize, maximum: usize },
    DestinationTooLarge,
    SourceChanged,
    DestinationChanged,
    VerificationFailed(u64),
    AmbiguousLegacyRecovery,
    Io { operation: &'static str, path: PathH, source: IoErr },
    Store(FeoxError),
}
pub type MigrationResult<T> = std::result::Result<T, MigrationError>;

// a file's identity and shape: length, mtime, ctime, device, inode
#[verifier::external_body]
pub struct FileStamp { _p: () }
impl FileStamp {
    pub uninterp spec fn id(&self) -> int;
    // fs::symlink_metadata(path): Some(stamp) iff the name is a regular file
    #[verifier::external_body]
    pub fn read_regular(path: &PathH) -> MigrationResult<Option<FileStamp>> { unimplemented!() }
}
// X.as_ref() == Some(expected) / != Some(expected)   (rule R-stampeq)
#[verifier::external_body]
pub fn stamp_is(found: &Option<FileStamp>, expected: &FileStamp) -> (r: bool)
    ensures r == (found matches Some(s) && s.id() == expected.id()),
{
    unimplemented!()
}
// fs::hard_link(a, b).map_err(|source| AlreadyExists => DestinationExists, other => Io{..})   (rule R-fs)
#[verifier::external_body]
pub fn fs_hard_link(from: &PathH, to: &PathH) -> (r: MigrationResult<()>)
    ensures r matches Err(e) ==> (e is DestinationExists || e is Io),
{
    unimplemented!()
}
// std::fs::rename: moves the name, REPLACING whatever is at the destination
#[verifier::external_body]
pub fn fs_rename(from: &PathH, to: &PathH) -> MigrationResult<()> { unimplemented!() }
#[verifier::external_body]
pub fn fs_rename_raw(from: &PathH, to: &PathH) -> std::result::Result<(), IoErr> { unimplemented!() }
#[verifier::external_body]
pub fn fs_remove_file(path: &PathH) -> std::result::Result<(), IoErr> { unimplemented!() }
#[verifier::external_body]
pub fn sync_parent_directory(path: &PathH) -> std::result::Result<(), IoErr> { unimplemented!() }

// drop(self.file.take())
#[verifier::external_body]
pub fn drop_file(f: &mut Option<FileH>)
    ensures *final(f) is None,
{
    unimplemented!()
}
pub struct DestinationGuard {
    pub destination: PathH,
    pub temporary: PathH,
    pub file: Option<FileH>,
}

// ---- the two stores (their FeoxError results are shown already converted: `?` applies `From<FeoxError>` = MigrationError::Store)
#[verifier::external_body]
pub struct Bytes { _p: () }
impl Bytes {
    pub uninterp spec fn view(&self) -> Seq<u8>;
    #[verifier::external_body]
    pub fn len(&self) -> (n: usize)
        ensures n == self.view().len(), n <= 0x1000_0000,
    {
        unimplemented!()
    }
}
#[verifier::external_body]
pub struct ExpiryCell { _p: () }
impl ExpiryCell {
    pub uninterp spec fn val(&self) -> u64;
    #[verifier::external_body]
    pub fn load(&self, o: Ordering) -> (v: u64)
        ensures v == self.val(),
    {
        unimplemented!()
    }
}
pub struct Record {
    pub key: Vec<u8>,
    pub value_len: usize,
    pub timestamp: u64,
    pub ttl_expiry: ExpiryCell,
}
// the value bytes a store serves for a generation (unit read_disk: served_for)
pub uninterp spec fn value_of(r: &Arc<Record>) -> Seq<u8>;
// r is a generation the SOURCE store's ordered index yielded in this call
pub uninterp spec fn source_record(r: &Arc<Record>) -> bool;

#[verifier::external_body]
pub struct FeoxStore { _p: () }
impl FeoxStore {
    pub open spec fn is_source(&self) -> bool { self.read_only_of() }
    #[verifier::external_body]
    pub fn resolve_value_ref(&self, key: &Vec<u8>, record: &Arc<Record>) -> (r: MigrationResult<Bytes>)
        ensures r matches Ok(v) ==> v.view() == value_of(record),
    {
        unimplemented!()
    }
    // C15: what goes into the destination is key, value, timestamp and absolute expiry of ONE source generation, verbatim
    #[verifier::external_body]
    pub fn insert_migrated_bytes(&self, key: &Vec<u8>, value: Bytes, timestamp: u64, ttl_expiry: u64) -> (r: MigrationResult<bool>)
        requires exists|s: Arc<Record>| #[trigger] source_record(&s) && key@ == s.key@ && value.view() == value_of(&s) && timestamp == s.timestamp && ttl_expiry == s.ttl_expiry.val(),
    {
        unimplemented!()
    }
    #[verifier::external_body]
    pub fn flush(&self) -> MigrationResult<()> { unimplemented!() }
}
// migration.rs record_batch (verified below against this statement when called on the source)
pub uninterp spec fn batch_of(store: &FeoxStore, after: Option<Seq<u8>>) -> Seq<Arc<Record>>;

#[verifier::external_body]
pub fn opt_as_slice(v: &Option<Vec<u8>>) -> (r: Option<&[u8]>)
    ensures r is Some == v is Some,
{
    v.as_deref()
}
#[verifier::external_body]
pub fn vec_clone_u8(v: &Vec<u8>) -> (r: Vec<u8>)
    ensures r@ == v@,
{
    v.clone()
}
#[verifier::external_body]
pub fn vec_eq_u8(a: &Vec<u8>, b: &Vec<u8>) -> (r: bool)
    ensures r == (a@ == b@),
{
    a == b
}
#[verifier::external_body]
pub fn bytes_ne(a: &Bytes, b: &Bytes) -> (r: bool)
    ensures r == (a.view() != b.view()),
{
    unimplemented!()
}

// `for X in V {` over a Vec moved in (rule R-forvec)
#[verifier::external_body]
#[verifier::reject_recursive_types(T)]
pub struct VecQueue<T> { it: std::vec::IntoIter<T> }
impl<T> VecQueue<T> {
    pub uninterp spec fn rest(&self) -> Seq<T>;
    #[verifier::external_body]
    pub fn new(v: Vec<T>) -> (q: VecQueue<T>)
        ensures q.rest() == v@,
    {
        VecQueue { it: v.into_iter() }
    }
    #[verifier::external_body]
    pub fn pop_front(&mut self) -> (r: Option<T>)
        ensures
            old(self).rest().len() == 0 ==> r is None && final(self).rest() == old(self).rest(),
            old(self).rest().len() > 0 ==> r == Some(old(self).rest()[0]) && final(self).rest() == old(self).rest().skip(1),
    {
        self.it.next()
    }
}
// record_batch(store, after): up to 256 generations from the ordered index, in key order, after `after`
#[verifier::external_body]
pub fn record_batch(store: &FeoxStore, after: Option<&[u8]>) -> (r: Vec<Arc<Record>>)
    ensures
        store.is_source() ==> forall|i: int| 0 <= i < r@.len() ==> source_record(&#[trigger] r@[i]),
        forall|i: int| 0 <= i < r@.len() ==> (#[trigger] r@[i]).key@.len() <= 0x10_0000 && r@[i].value_len <= 0x1000_0000,
{
    unimplemented!()
}

// X += 1 on a u64 progress counter   (rule R-count)
pub fn count_up(x: u64) -> (r: u64)
    ensures x < u64::MAX ==> r == x + 1,
{
    x.wrapping_add(1)
}
pub open spec fn pair_ok(s: &Arc<Record>, d: &Arc<Record>) -> bool {
    s.key@ == d.key@ && s.timestamp == d.timestamp && s.ttl_expiry.val() == d.ttl_expiry.val() && value_of(s) == value_of(d)
}

// ---- migrate(): the orchestration
pub struct MigrationOptions {
    pub source: PathH,
    pub destination: PathH,
    pub allow_ambiguous_legacy_recovery: bool,
    pub hash_bits: u32,
}
pub struct MigrationReport {
    pub source_version: u32,
    pub destination_version: u32,
    pub records: u64,
    pub value_bytes: u64,
    pub destination_size: u64,
    pub ambiguous_legacy_markers: u64,
}
pub struct SourceLayout {
    pub required_size: u64,
    pub value_bytes: u64,
}
pub struct StoreConfig { pub hash_bits: u32, pub file_size: Option<u64> }
pub const MAX_DEVICE_SIZE: u64 = 1 << 40;

#[verifier::external_body]
pub fn open_read_only_file(path: &PathH) -> MigrationResult<FileH> { unimplemented!() }
impl FileStamp {
    #[verifier::external_body]
    pub fn read_file(file: &FileH, path: &PathH) -> MigrationResult<FileStamp> { unimplemented!() }
    #[verifier::external_body]
    pub fn read(path: &PathH) -> MigrationResult<FileStamp> { unimplemented!() }
    #[verifier::external_body]
    pub fn read_store_file(store: &FeoxStore, path: &PathH) -> MigrationResult<FileStamp> { unimplemented!() }
}
// A != B on file stamps   (rule R-stampeq)
#[verifier::external_body]
pub fn stamp_ne(a: &FileStamp, b: &FileStamp) -> (r: bool)
    ensures r == (a.id() != b.id()),
{
    unimplemented!()
}
impl FeoxStore {
    pub uninterp spec fn format_version_of(&self) -> u32;
    pub uninterp spec fn read_only_of(&self) -> bool;
    #[verifier::external_body]
    pub fn format_version(&self) -> (v: u32)
        ensures v == self.format_version_of(),
    {
        unimplemented!()
    }
    #[verifier::external_body]
    pub fn device_size(&self) -> u64 { unimplemented!() }
    #[verifier::external_body]
    pub fn ambiguous_legacy_markers(&self) -> u64 { unimplemented!() }
    // destination.device_file.as_ref().ok_or(NoDevice)?.try_clone().map_err(Io)?   (rule R-fs)
    #[verifier::external_body]
    pub fn clone_device_file(&self, temporary: &PathH) -> MigrationResult<FileH> { unimplemented!() }
    // FeoxStore::with_config_for_migration_destination: a FRESH store on the temporary file
    #[verifier::external_body]
    pub fn with_config_for_migration_destination(config: StoreConfig, file: FileH) -> (r: MigrationResult<FeoxStore>)
        ensures r matches Ok(s) ==> !s.read_only_of(),
    {
        unimplemented!()
    }
}
// build_read_only: a READ-ONLY recovery of the file (journal replay virtualised, nothing written: units scan_loop / expired_winners)
#[verifier::external_body]
pub fn build_read_only(file: FileH, allow_ambiguous_legacy_recovery: bool, hash_bits: u32) -> (r: MigrationResult<FeoxStore>)
    ensures r matches Ok(s) ==> s.read_only_of(),
{
    unimplemented!()
}
#[verifier::external_body]
pub fn source_layout(store: &FeoxStore) -> MigrationResult<SourceLayout> { unimplemented!() }
#[verifier::external_body]
pub fn migration_config(hash_bits: u32, file_size: Option<u64>) -> StoreConfig { unimplemented!() }
impl DestinationGuard {
    // refuses an existing destination name, creates a fresh temporary file beside it (create_new)
    #[verifier::external_body]
    pub fn create(destination: &PathH) -> MigrationResult<DestinationGuard> { unimplemented!() }
    #[verifier::external_body]
    pub fn take_file(&mut self) -> FileH { unimplemented!() }
    #[verifier::external_body]
    pub fn temporary_path(&self) -> &PathH { unimplemented!() }
}
pub fn max_u64(a: u64, b: u64) -> (r: u64)
    ensures r == (if a >= b { a } else { b }),
{
    if a >= b { a } else { b }
}
pub fn drop<T>(t: T) {
}

// std::io::ErrorKind as far as the migration looks at it
#[derive(PartialEq, Eq)]
pub enum IoErrorKind { AlreadyExists, NotFound, Other }
impl IoErr {
    #[verifier::external_body]
    pub fn kind(&self) -> IoErrorKind { unimplemented!() }
}
// fs::hard_link(a, b) with its io::Result kept (rule R-bindres)
#[verifier::external_body]
pub fn fs_hard_link_raw(from: &PathH, to: &PathH) -> std::result::Result<(), IoErr> { unimplemented!() }
