// u64::div_ceil (rule R-div): verified, not trusted
pub fn div_ceil_u64(a: u64, b: u64) -> (r: u64)
    requires b > 0,
    ensures r as int == (if (a as int) % (b as int) == 0 { a as int / (b as int) } else { a as int / (b as int) + 1 }),
{
    let q = a / b;
    let m = a % b;
    if m == 0 { q } else {
        assert(q < a) by (nonlinear_arith) requires q == a / b, m == a % b, m != 0, b > 0;
        q + 1
    }
}
