// Opaque surface of the ordered index as range_query uses it (unit range_scan; C14). TRUSTED (A20): the skip
// list is a strictly ascending sequence of keys that does not change during one call (A3); lower_bound /
// next walk that sequence; the epoch guard has no sequential effect; resolve_value_ref (unit read_disk)
// has one fixed outcome per key and call.

pub enum Bound<T> { Included(T), Excluded(T), Unbounded }

#[verifier::external_body]
pub struct Bytes { _p: () }
impl Bytes {
    pub uninterp spec fn view(&self) -> Seq<u8>;
    #[verifier::external_body]
    pub fn to_vec(&self) -> (v: Vec<u8>)
        ensures v@ == self.view(),
    {
        unimplemented!()
    }
}

pub struct Record { pub key: Vec<u8> }

#[verifier::external_body]
pub struct Guard { _p: () }
impl Guard {
    #[verifier::external_body]
    pub fn repin(&mut self) { unimplemented!() }
}
// epoch::pin()
#[verifier::external_body]
pub fn epoch_pin() -> Guard { unimplemented!() }

#[verifier::external_body]
pub struct TreeSlot { _p: () }
impl TreeSlot {
    #[verifier::external_body]
    pub fn load(&self, guard: &Guard) -> &Arc<Record> { unimplemented!() }
}

// a position in the skip list
#[verifier::external_body]
pub struct SkipEntry { _p: () }
impl SkipEntry {
    pub uninterp spec fn pos(&self) -> int;
    pub uninterp spec fn keys(&self) -> Seq<Seq<u8>>;
    #[verifier::external_body]
    pub fn key(&self) -> (k: &Vec<u8>)
        requires 0 <= self.pos() < self.keys().len(),
        ensures k@ == self.keys()[self.pos()],
    {
        unimplemented!()
    }
    #[verifier::external_body]
    pub fn value(&self) -> &TreeSlot { unimplemented!() }
    #[verifier::external_body]
    pub fn next(&self) -> (n: Option<SkipEntry>)
        ensures
            n matches Some(e) ==> (e.pos() == self.pos() + 1 && e.keys() == self.keys() && e.pos() < e.keys().len()),
            n is None ==> self.pos() + 1 >= self.keys().len(),
    {
        unimplemented!()
    }
}

#[verifier::external_body]
pub struct SkipTree { _p: () }
impl SkipTree {
    // the keys of the ordered index, strictly ascending in byte order
    pub uninterp spec fn keys(&self) -> Seq<Seq<u8>>;
    #[verifier::external_body]
    pub fn len(&self) -> usize { unimplemented!() }
    #[verifier::external_body]
    pub fn lower_bound(&self, bound: Bound<&[u8]>) -> (r: Option<SkipEntry>)
        requires bound is Included,
        ensures
            ascending(self.keys()),
            r matches Some(e) ==> (e.keys() == self.keys() && 0 <= e.pos() < self.keys().len()
                && !bytes_lt(self.keys()[e.pos()], bound->Included_0@)
                && forall|q: int| 0 <= q < e.pos() ==> bytes_lt(#[trigger] self.keys()[q], bound->Included_0@)),
            r is None ==> forall|q: int| 0 <= q < self.keys().len() ==> bytes_lt(#[trigger] self.keys()[q], bound->Included_0@),
    {
        unimplemented!()
    }
}

// a.as_slice() > b   (rule R-seq)
#[verifier::external_body]
pub fn bytes_gt(a: &Vec<u8>, b: &[u8]) -> (r: bool)
    ensures r == bytes_lt(b@, a@),
{
    unimplemented!()
}
#[verifier::external_body]
pub fn bytes_ge(a: &Vec<u8>, b: &[u8]) -> (r: bool)
    ensures r == !bytes_lt(a@, b@),
{
    unimplemented!()
}
pub fn min_usize(a: usize, b: usize) -> (r: usize)
    ensures r == (if a <= b { a } else { b }),
{
    if a <= b { a } else { b }
}
#[verifier::external_body]
pub fn vec_clone_u8(v: &Vec<u8>) -> (r: Vec<u8>)
    ensures r@ == v@,
{
    v.clone()
}

// what resolve_value_ref answers for a key during this call: 0 = a value, 1 = stale / expired (skipped), 2 = another error
pub uninterp spec fn outcome(key: Seq<u8>) -> int;
pub uninterp spec fn value_for(key: Seq<u8>) -> Seq<u8>;

pub struct FeoxStore {
    pub tree: SkipTree,
}
impl FeoxStore {
    // operations.rs resolve_value_ref (unit read_disk): bytes served for the slot's generation or for the generation the index holds
    #[verifier::external_body]
    pub fn resolve_value_ref(&self, key: &[u8], record: &Arc<Record>) -> (r: Result<Bytes>)
        ensures
            r matches Ok(v) ==> (outcome(key@) == 0 && v.view() == value_for(key@)),
            r matches Err(e) ==> ((e is StaleExtent || e is KeyNotFound) <==> outcome(key@) == 1),
            r is Err ==> outcome(key@) != 0,
    {
        unimplemented!()
    }
}

// X += 1 on a per-entry counter   (rule R-count)
pub fn count_up_usize(x: usize) -> (r: usize)
    ensures x < usize::MAX ==> r == x + 1,
{
    x.wrapping_add(1)
}
