// CRC-32C as a spec function. `crc_spec` is the byte-at-a-time definition (bitwise step),
// the dispatcher `crc32c` is external (A1: hardware paths compute the same function).
pub open spec fn crc_bit_step(c: u32) -> u32 {
    if c & 1 != 0 { (c >> 1) ^ 0x82F6_3B78u32 } else { c >> 1 }
}

pub open spec fn crc_byte_step(c: u32, b: u8) -> u32 {
    let x = c ^ (b as u32);
    crc_bit_step(crc_bit_step(crc_bit_step(crc_bit_step(crc_bit_step(crc_bit_step(crc_bit_step(crc_bit_step(x))))))))
}

// raw (un-complemented) register after absorbing `data`
pub open spec fn crc_raw(reg: u32, data: Seq<u8>) -> u32
    decreases data.len(),
{
    if data.len() == 0 { reg } else { crc_raw(crc_byte_step(reg, data[0]), data.drop_first()) }
}

pub open spec fn crc_spec(seed: u32, data: Seq<u8>) -> u32 {
    !crc_raw(!seed, data)
}

pub proof fn lemma_crc_raw_append(reg: u32, a: Seq<u8>, b: Seq<u8>)
    ensures crc_raw(reg, a + b) == crc_raw(crc_raw(reg, a), b),
    decreases a.len(),
{
    if a.len() == 0 {
        assert(a + b =~= b);
    } else {
        assert((a + b).drop_first() =~= a.drop_first() + b);
        assert((a + b)[0] == a[0]);
        lemma_crc_raw_append(crc_byte_step(reg, a[0]), a.drop_first(), b);
    }
}

// chaining law: the CRC of a concatenation is the CRC of the tail seeded with the CRC of the head
pub proof fn lemma_crc_chain(seed: u32, a: Seq<u8>, b: Seq<u8>)
    ensures crc_spec(crc_spec(seed, a), b) == crc_spec(seed, a + b),
{
    lemma_crc_raw_append(!seed, a, b);
    let r = crc_raw(!seed, a);
    assert(!!r == r) by (bit_vector);
}

