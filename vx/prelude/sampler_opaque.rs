// Opaque surface of the TTL sampler (unit ttl_sampler; C11 / C18). TRUSTED (A28): scc::HashMap::scan calls the
// closure once per entry with the entry's own key and value (lifted to a function by rule R-lift, the scan itself is
// a shim); the random generator returns an index inside the requested range.

pub enum Ordering { Relaxed, Release, Acquire, AcqRel, SeqCst }
#[verifier::external_body]
pub struct ExpiryCell { _p: () }
impl ExpiryCell {
    pub uninterp spec fn val(&self) -> u64;
    #[verifier::external_body]
    pub fn load(&self, o: Ordering) -> (v: u64)
        ensures v == self.val(),
    {
        unimplemented!()
    }
}
pub struct Record {
    pub key: Vec<u8>,
    pub ttl_expiry: ExpiryCell,
}
#[verifier::external_body]
pub struct RngH { _p: () }
impl RngH {
    // rng.random_range(0..n)   (rule R-rng)
    #[verifier::external_body]
    pub fn random_below(&mut self, n: usize) -> (r: usize)
        requires n > 0,
        ensures r < n,
    {
        unimplemented!()
    }
}
#[verifier::external_body]
pub struct HashIndex { _p: () }
impl HashIndex {
    #[verifier::external_body]
    pub fn len(&self) -> usize { unimplemented!() }
    // hash_table.scan(|key, value| { .. })   (rule R-lift): runs the lifted closure on every entry; it may only add sampled entries
    #[verifier::external_body]
    pub fn scan_lifted(&self, sample_size: usize, rng: &mut RngH, candidates: &mut Vec<(Vec<u8>, Arc<Record>)>, seen: &mut usize)
        requires sample_ok(old(candidates)@, sample_size), old(candidates)@.len() <= *old(seen),
        ensures sample_ok(final(candidates)@, sample_size),
    {
        unimplemented!()
    }
}
pub fn min_usize(a: usize, b: usize) -> (r: usize)
    ensures r == (if a <= b { a } else { b }),
{
    if a <= b { a } else { b }
}
#[verifier::external_body]
pub fn vec_clone_u8(v: &Vec<u8>) -> (r: Vec<u8>)
    ensures r@ == v@,
{
    v.clone()
}
// what the sampler may hold: at most sample_size (key, generation) pairs, each generation carrying an expiry and that key
pub open spec fn sample_ok(c: Seq<(Vec<u8>, Arc<Record>)>, sample_size: usize) -> bool {
    c.len() <= sample_size && forall|i: int| 0 <= i < c.len() ==> ((#[trigger] c[i]).1.ttl_expiry.val() > 0 && c[i].0@ == c[i].1.key@)
}
