// Additions to store_opaque.rs for recovery's post-scan pass (unit expired_winners; C11 / C04 / C05 / C13).
// TRUSTED (A23): the ordered index is walked through an opaque cursor (front / lower_bound(Excluded) / next) - nothing
// is assumed about which keys it yields; the hash index entry API is a handle with a ghost `current()`; the
// epoch guard has no sequential effect; recovery runs single-threaded (A3).

pub enum Bound<T> { Included(T), Excluded(T), Unbounded }

#[verifier::external_body]
pub struct Guard { _p: () }
#[verifier::external_body]
pub fn epoch_pin() -> Guard { unimplemented!() }

impl TreeSlot {
    #[verifier::external_body]
    pub fn load(&self, guard: &Guard) -> (r: &Arc<Record>)
        ensures record_bounded(&**r),
    {
        unimplemented!()
    }
}
#[verifier::external_body]
pub struct SkipEntry { _p: () }
impl SkipEntry {
    #[verifier::external_body]
    pub fn key(&self) -> &Vec<u8> { unimplemented!() }
    #[verifier::external_body]
    pub fn value(&self) -> &TreeSlot { unimplemented!() }
    #[verifier::external_body]
    pub fn next(&self) -> Option<SkipEntry> { unimplemented!() }
}
impl SkipTree {
    #[verifier::external_body]
    pub fn front(&self) -> Option<SkipEntry> { unimplemented!() }
    #[verifier::external_body]
    pub fn lower_bound(&self, bound: Bound<&[u8]>) -> Option<SkipEntry> { unimplemented!() }
    #[verifier::external_body]
    pub fn remove(&self, key: &Vec<u8>) { unimplemented!() }
}
// after.as_deref()   (rule R-asderef)
#[verifier::external_body]
pub fn opt_as_slice(v: &Option<Vec<u8>>) -> (r: Option<&[u8]>)
    ensures r is Some == v is Some,
{
    v.as_deref()
}
#[verifier::external_body]
pub fn vec_clone_u8(v: &Vec<u8>) -> (r: Vec<u8>)
    ensures r@ == v@,
{
    v.clone()
}

// ---- hash index entry API
pub mod scc {
    pub mod hash_map {
        use super::super::*;
        pub enum Entry {
            Occupied(OccupiedEntry),
            Vacant(VacantEntry),
        }
    }
}
#[verifier::external_body]
pub struct VacantEntry { _p: () }
#[verifier::external_body]
pub struct OccupiedEntry { _p: () }
impl OccupiedEntry {
    pub uninterp spec fn current(&self) -> Arc<Record>;
    #[verifier::external_body]
    pub fn get(&self) -> (r: &Arc<Record>)
        ensures *r == self.current(),
    {
        unimplemented!()
    }
    #[verifier::external_body]
    pub fn remove(self) -> (r: (Vec<u8>, Arc<Record>))
        ensures r.1 == self.current(),
    {
        unimplemented!()
    }
}
impl HashIndex {
    #[verifier::external_body]
    pub fn entry(&self, key: Vec<u8>) -> scc::hash_map::Entry { unimplemented!() }
}
pub uninterp spec fn same_arc(a: &Arc<Record>, b: &Arc<Record>) -> bool;
#[verifier::external_body]
pub fn arc_ptr_eq(a: &Arc<Record>, b: &Arc<Record>) -> (r: bool)
    ensures r == same_arc(a, b),
{
    unimplemented!()
}
// record.refcount.store(0, ..): marks the generation dead (rule R-refcount)
#[verifier::external_body]
pub fn mark_dead(r: &Arc<Record>) { unimplemented!() }

// `for X in V {` over a Vec moved in (rule R-forvec)
#[verifier::external_body]
#[verifier::reject_recursive_types(T)]
pub struct VecQueue<T> { it: std::vec::IntoIter<T> }
impl<T> VecQueue<T> {
    pub uninterp spec fn rest(&self) -> Seq<T>;
    #[verifier::external_body]
    pub fn new(v: Vec<T>) -> (q: VecQueue<T>)
        ensures q.rest() == v@,
    {
        VecQueue { it: v.into_iter() }
    }
    #[verifier::external_body]
    pub fn pop_front(&mut self) -> (r: Option<T>)
        ensures
            old(self).rest().len() == 0 ==> r is None && final(self).rest() == old(self).rest(),
            old(self).rest().len() > 0 ==> r == Some(old(self).rest()[0]) && final(self).rest() == old(self).rest().skip(1),
    {
        self.it.next()
    }
}
impl AtomicU32 {
    #[verifier::external_body]
    pub fn fetch_sub(&self, v: u32, o: Ordering) -> u32 { unimplemented!() }
}
