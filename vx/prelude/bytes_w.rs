// Write-side byte shims (rules R-cpy, R-le(to), R-vec, R-div, R-all, R-tryfrom). Trusted (A5).
pub open spec fn le_seq(v: nat, n: nat) -> Seq<u8>
    decreases n,
{
    if n == 0 { Seq::<u8>::empty() } else { seq![(v % 256) as u8] + le_seq(v / 256, (n - 1) as nat) }
}

pub trait LeBytes: Sized {
    spec fn le_spec(self) -> Seq<u8>;
    spec fn le_len() -> nat;
    fn le_bytes(self) -> (r: Vec<u8>)
        ensures r@ == self.le_spec(), r@.len() == Self::le_len();
}

impl LeBytes for u16 {
    open spec fn le_spec(self) -> Seq<u8> { le_seq(self as nat, 2) }
    open spec fn le_len() -> nat { 2 }
    #[verifier::external_body]
    fn le_bytes(self) -> (r: Vec<u8>) { self.to_le_bytes().to_vec() }
}

impl LeBytes for u32 {
    open spec fn le_spec(self) -> Seq<u8> { le_seq(self as nat, 4) }
    open spec fn le_len() -> nat { 4 }
    #[verifier::external_body]
    fn le_bytes(self) -> (r: Vec<u8>) { self.to_le_bytes().to_vec() }
}

impl LeBytes for u64 {
    open spec fn le_spec(self) -> Seq<u8> { le_seq(self as nat, 8) }
    open spec fn le_len() -> nat { 8 }
    #[verifier::external_body]
    fn le_bytes(self) -> (r: Vec<u8>) { self.to_le_bytes().to_vec() }
}

pub trait TryU32: Sized {
    spec fn as_nat(self) -> nat;
    fn try_u32(self) -> (r: Option<u32>)
        ensures
            self.as_nat() <= 0xFFFF_FFFF ==> r == Some(self.as_nat() as u32),
            self.as_nat() > 0xFFFF_FFFF ==> r is None;
}

impl TryU32 for u64 {
    open spec fn as_nat(self) -> nat { self as nat }
    #[verifier::external_body]
    fn try_u32(self) -> (r: Option<u32>) { u32::try_from(self).ok() }
}

impl TryU32 for usize {
    open spec fn as_nat(self) -> nat { self as nat }
    #[verifier::external_body]
    fn try_u32(self) -> (r: Option<u32>) { u32::try_from(self).ok() }
}

#[verifier::external_body]
pub fn copy_into_vec(d: &mut Vec<u8>, a: usize, b: usize, src: &[u8])
    requires a <= b <= old(d)@.len(), b - a == src@.len(),
    ensures
        final(d)@.len() == old(d)@.len(),
        final(d)@ == old(d)@.subrange(0, a as int) + src@ + old(d)@.subrange(b as int, old(d)@.len() as int),
{
    d[a..b].copy_from_slice(src)
}

#[verifier::external_body]
pub fn copy_into_slice(d: &mut [u8], a: usize, b: usize, src: &[u8])
    requires a <= b <= old(d)@.len(), b - a == src@.len(),
    ensures
        final(d)@.len() == old(d)@.len(),
        final(d)@ == old(d)@.subrange(0, a as int) + src@ + old(d)@.subrange(b as int, old(d)@.len() as int),
{
    d[a..b].copy_from_slice(src)
}

#[verifier::external_body]
pub fn zeroed_vec(n: usize) -> (r: Vec<u8>)
    ensures r@.len() == n, forall|i: int| 0 <= i < n ==> r@[i] == 0,
{
    vec![0u8; n]
}

#[verifier::external_body]
pub fn div_ceil_usize(a: usize, b: usize) -> (r: usize)
    requires b > 0,
    ensures r as int == (a as int + b as int - 1) / (b as int),
{
    a.div_ceil(b)
}

#[verifier::external_body]
pub fn all_zero(s: &[u8]) -> (r: bool)
    ensures r == (forall|i: int| 0 <= i < s@.len() ==> s@[i] == 0),
{
    s.iter().all(|b| *b == 0)
}

pub open spec fn windows2_len_spec(n: int) -> int {
    if n >= 2 { n - 1 } else { 0 }
}

pub fn windows2_len(n: usize) -> (r: usize)
    ensures r as int == windows2_len_spec(n as int),
{
    if n >= 2 { n - 1 } else { 0 }
}

#[verifier::external_body]
pub fn vec_clone_copy<T: Copy>(v: &Vec<T>) -> (r: Vec<T>)
    ensures r@ == v@,
{
    v.clone()
}
