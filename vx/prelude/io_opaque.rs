// Opaque surface of DiskIO for the retirement / replay functions (unit io_retire; C03 / C04 / C09). TRUSTED (A22):
// the methods take `&mut self` here (rule R-sigmut: interior mutability made explicit so the effect on the
// device can be stated); the device is a ghost log of the calls made - one event per call with its arguments
// and outcome; write_allocation_journal / clear_allocation_journal / write_sectors_sync / flush / poison_writes
// are the functions whose own contracts the Kani unit io_ordering checks; the O_DIRECT path is opaque (A2).

pub enum IoEvent {
    Journal { extents: Seq<(u64, usize)>, ok: bool },
    Clear { ok: bool },
    Write { sector: u64, data: Seq<u8>, ok: bool },
    Flush { ok: bool },
    Direct,
}

#[verifier::external_body]
pub struct Device { _p: () }

pub struct DiskIO {
    pub _use_direct_io: bool,
    pub dev: Device,
}

impl DiskIO {
    pub uninterp spec fn log(&self) -> Seq<IoEvent>;
    // poison_writes was called on this handle
    pub uninterp spec fn poisoned(&self) -> bool;

    #[verifier::external_body]
    pub fn write_allocation_journal(&mut self, extents: &[(u64, usize)]) -> (r: Result<()>)
        ensures
            final(self).log() == old(self).log().push(IoEvent::Journal { extents: extents@, ok: r is Ok }),
            final(self).poisoned() == old(self).poisoned(), final(self)._use_direct_io == old(self)._use_direct_io,
    {
        unimplemented!()
    }
    #[verifier::external_body]
    pub fn clear_allocation_journal(&mut self) -> (r: Result<()>)
        ensures
            final(self).log() == old(self).log().push(IoEvent::Clear { ok: r is Ok }),
            final(self).poisoned() == old(self).poisoned(), final(self)._use_direct_io == old(self)._use_direct_io,
    {
        unimplemented!()
    }
    #[verifier::external_body]
    pub fn write_sectors_sync(&mut self, sector: u64, data: &[u8]) -> (r: Result<()>)
        ensures
            final(self).log() == old(self).log().push(IoEvent::Write { sector, data: data@, ok: r is Ok }),
            final(self).poisoned() == old(self).poisoned(), final(self)._use_direct_io == old(self)._use_direct_io,
    {
        unimplemented!()
    }
    #[verifier::external_body]
    pub fn flush(&mut self) -> (r: Result<()>)
        ensures
            final(self).log() == old(self).log().push(IoEvent::Flush { ok: r is Ok }),
            final(self).poisoned() == old(self).poisoned(), final(self)._use_direct_io == old(self)._use_direct_io,
    {
        unimplemented!()
    }
    // marks the handle: every later write / flush / journal call is refused (Kani: poisoned_refuses_raw_io)
    #[verifier::external_body]
    pub fn poison_writes(&mut self, error: FeoxError) -> (r: FeoxError)
        ensures
            r is IndeterminateWrite, final(self).poisoned(), final(self).log() == old(self).log(),
            final(self)._use_direct_io == old(self)._use_direct_io,
    {
        unimplemented!()
    }
    #[verifier::external_body]
    pub fn ensure_writable(&self) -> Result<()> { unimplemented!() }
    // the O_DIRECT variant (unsafe pwrite on an aligned buffer): opaque
    #[verifier::external_body]
    pub fn write_retirement_extent_direct(&mut self, sector: u64, sectors: usize, scratch: &mut AlignedBuffer) -> (r: Result<()>)
        // C20: the scratch buffer holds the largest chunk this extent is written in (the precondition under which unit raw_io
        // proves the function's set_len / pwrite in bounds)
        requires old(scratch).spec_cap() >= (if sectors <= 256 { sectors as int } else { 256 }) * 4096,
        ensures final(self)._use_direct_io == old(self)._use_direct_io, final(self).poisoned() == old(self).poisoned(),
            final(scratch).spec_cap() == old(scratch).spec_cap(),
            final(self).log() == old(self).log().push(IoEvent::Direct),
    {
        unimplemented!()
    }
}

#[verifier::external_body]
pub struct AlignedBuffer { _p: () }
impl AlignedBuffer {
    pub uninterp spec fn spec_cap(&self) -> usize;
    #[verifier::external_body]
    pub fn new(size: usize) -> (r: Result<AlignedBuffer>)
        ensures r matches Ok(b) ==> b.spec_cap() >= size,
    {
        unimplemented!()
    }
    // panics past the capacity (Kani unit aligned_buffer)
    #[verifier::external_body]
    pub fn set_len(&mut self, n: usize)
        requires n <= old(self).spec_cap(),
        ensures final(self).spec_cap() == old(self).spec_cap(),
    {
        unimplemented!()
    }
    #[verifier::external_body]
    pub fn zero_fill(&mut self)
        ensures final(self).spec_cap() == old(self).spec_cap(),
    {
        unimplemented!()
    }
}

// the 19 marker bytes of one retired block: "\0DELETED" | le64(remaining) | le16(token(sector, ..)) | COMPLETE
// (format.rs write_retirement_marker; layout and token: Kani unit retirement_marker, complete)
pub uninterp spec fn marker19(sector: u64, remaining: usize) -> Seq<u8>;
#[verifier::external_body]
pub proof fn axiom_marker19_len(sector: u64, remaining: usize)
    ensures marker19(sector, remaining).len() == 19,
{
}

// fill_retirement_marker(&mut retired[a..b], sector, remaining)   (rule R-subslice): bytes a..b become the marker, the rest is untouched
#[verifier::external_body]
pub fn fill_retirement_marker_at(retired: &mut [u8], a: usize, b: usize, sector: u64, remaining: usize)
    requires a <= b <= old(retired)@.len(), b - a == 19,
    ensures
        final(retired)@.len() == old(retired)@.len(),
        final(retired)@.subrange(a as int, b as int) == marker19(sector, remaining),
        forall|i: int| 0 <= i < old(retired)@.len() && !(a <= i < b) ==> final(retired)@[i] == old(retired)@[i],
{
    unimplemented!()
}

// extents.iter().any(|(_, sectors)| *sectors == 0)   (rule R-any)
#[verifier::external_body]
pub fn any_zero_length(extents: &[(u64, usize)]) -> (r: bool)
    ensures r == exists|i: int| 0 <= i < extents@.len() && (#[trigger] extents@[i]).1 == 0,
{
    unimplemented!()
}
// extents.iter().map(|(_, sectors)| (*sectors).min(RETIREMENT_WRITE_BLOCKS)).max()   (rule R-maxk)
#[verifier::external_body]
pub fn max_chunk_blocks(extents: &[(u64, usize)], cap: usize) -> (r: Option<usize>)
    ensures
        r is None <==> extents@.len() == 0,
        r matches Some(m) ==> (m <= cap && forall|i: int| 0 <= i < extents@.len() ==> (if (#[trigger] extents@[i]).1 <= cap { extents@[i].1 } else { cap }) <= m),
{
    unimplemented!()
}
#[verifier::external_body]
pub fn zeroed_vec(n: usize) -> (r: Vec<u8>)
    ensures r@.len() == n,
{
    vec![0u8; n]
}
pub fn min_usize(a: usize, b: usize) -> (r: usize)
    ensures r == (if a <= b { a } else { b }),
{
    if a <= b { a } else { b }
}
// extents.to_vec() + sort_unstable_by_key(|extent| extent.0)   (rule R-sort): a permutation, ascending by start
#[verifier::external_body]
pub fn sorted_by_start(extents: &[(u64, usize)]) -> (r: Vec<(u64, usize)>)
    ensures
        r@.len() == extents@.len(),
        forall|i: int, j: int| 0 <= i < j < r@.len() ==> (#[trigger] r@[i]).0 <= (#[trigger] r@[j]).0,
        forall|x: (u64, usize)| r@.contains(x) <==> extents@.contains(x),
{
    unimplemented!()
}
// usize::try_from(x: u64).map_err(|_| FeoxError::InvalidArgument)?   (rule R-lastmut): always fits on a 64-bit target
pub fn usize_from_u64(x: u64) -> (r: Result<usize>)
    ensures r matches Ok(v) && v as int == x as int,
{
    Ok(x as usize)
}
