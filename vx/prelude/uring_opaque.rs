// Opaque surface of the io_uring write path (unit uring_batch; C20: a buffer the kernel may still be reading from is
// leaked, never freed; C09: an indeterminate submission poisons the handle and marks the file before the error is
// returned). TRUSTED (A38): the kernel side of io_uring is a ghost predicate `holds(ud)` - "a submission with this
// user_data was queued and no completion for it has been consumed yet" -: a successful `sq.push` adds the entry's
// user_data, consuming a completion entry removes its user_data, nothing else changes it; a completion's result is
// the byte count or -errno (never i32::MIN); the completion queue is finite. A buffer is an abstract identity with a
// length; `as_ptr` names the buffer it points into. The O_DIRECT copy into an AlignedBuffer is one shim (the buffer's
// own allocation / bounds / free are the Kani unit aligned_buffer). Atomics / the indeterminate-file registry are
// flags owned by the caller for the call (A3).
pub enum Ordering { Relaxed, Release, Acquire, AcqRel, SeqCst }

#[verifier::external_body]
pub struct IoErrorKindOpaque { _p: () }
impl IoErrorOpaque {
    pub uninterp spec fn interrupted(&self) -> bool;
    // error.kind() == io::ErrorKind::Interrupted
    #[verifier::external_body]
    pub fn is_interrupted(&self) -> (r: bool)
        ensures r == self.interrupted(),
    {
        unimplemented!()
    }
}
pub type IoResult<T> = std::result::Result<T, IoErrorOpaque>;
// io::Error::from_raw_os_error(code)
#[verifier::external_body]
pub fn io_error_os(code: i32) -> IoErrorOpaque { unimplemented!() }
// io::Error::new(io::ErrorKind::WriteZero, format!("Wrote {result} bytes, expected {expected}"))
#[verifier::external_body]
pub fn io_error_short_write(result: i32, expected: usize) -> IoErrorOpaque { unimplemented!() }
// io::Error::other("SQ full")
#[verifier::external_body]
pub fn io_error_other() -> IoErrorOpaque { unimplemented!() }

// ---- buffers ---------------------------------------------------------------------------------------------
#[verifier::external_body]
pub struct BufPtr { _p: () }
impl BufPtr {
    // identity of the buffer this pointer points into
    pub uninterp spec fn of(&self) -> int;
}
#[verifier::external_body]
pub struct PendingWriteBuffer { _p: () }
impl PendingWriteBuffer {
    pub uninterp spec fn id(&self) -> int;
    pub uninterp spec fn spec_len(&self) -> usize;
    // the bytes the buffer holds (what the kernel will write)
    pub uninterp spec fn bytes(&self) -> Seq<u8>;
    #[verifier::external_body]
    pub fn as_ptr(&self) -> (r: BufPtr)
        ensures r.of() == self.id(),
    {
        unimplemented!()
    }
    #[verifier::external_body]
    pub fn len(&self) -> (r: usize)
        ensures r == self.spec_len(),
    {
        unimplemented!()
    }
}
// what batch_write_inner is generic over (io.rs `trait BatchWriteData`, implemented for Vec<u8> and Bytes)
pub trait BatchWriteData: Sized {
    spec fn view_bytes(&self) -> Seq<u8>;
}
// PendingWriteBuffer::Shared(data.retain_for_write()): a reference-counted (Bytes) or copied (Vec) buffer with the same bytes
#[verifier::external_body]
pub fn pending_shared<T: BatchWriteData>(data: &T) -> (r: PendingWriteBuffer)
    ensures r.bytes() == data.view_bytes(), r.spec_len() == data.view_bytes().len(),
{
    unimplemented!()
}
// the O_DIRECT arm: AlignedBuffer::new(len)? ; set_len(len) ; as_mut_slice().copy_from_slice(data) ; PendingWriteBuffer::Aligned(..)
#[verifier::external_body]
pub fn pending_aligned<T: BatchWriteData>(data: &T) -> (r: Result<PendingWriteBuffer>)
    ensures r matches Ok(b) ==> b.bytes() == data.view_bytes() && b.spec_len() == data.view_bytes().len(),
{
    unimplemented!()
}

// ---- the ring --------------------------------------------------------------------------------------------
#[verifier::external_body]
pub struct Kernel { _p: () }
pub struct IoUring { pub k: Kernel }
pub struct Cqe { pub ud: u64, pub res: i32 }
impl Cqe {
    pub fn user_data(&self) -> (r: u64) ensures r == self.ud { self.ud }
    pub fn result(&self) -> (r: i32) ensures r == self.res { self.res }
}
pub struct WriteEntry { pub fd: i32, pub ptr_of: Ghost<int>, pub len: u32, pub offset: u64, pub ud: u64 }
// opcode::Write::new(types::Fd(fd), ptr, len).offset(offset).build().user_data(ud)
pub fn build_write_entry(fd: i32, ptr: BufPtr, len: u32, offset: u64, ud: u64) -> (r: WriteEntry)
    ensures r.fd == fd, r.ptr_of@ == ptr.of(), r.len == len, r.offset == offset, r.ud == ud,
{
    WriteEntry { fd, ptr_of: Ghost(ptr.of()), len, offset, ud }
}
impl IoUring {
    // the kernel may still read from the buffer of the submission with this user_data
    pub uninterp spec fn holds(&self, ud: u64) -> bool;
    // identity of the buffer a held submission points into
    pub uninterp spec fn held_buffer(&self, ud: u64) -> int;
    // completion entries not yet consumed
    pub uninterp spec fn cq_len(&self) -> nat;

    // unsafe { sq.push(&entry) }  (the submission queue borrowed from the ring; rule R-sq)
    #[verifier::external_body]
    pub fn sq_push(&mut self, entry: &WriteEntry) -> (r: std::result::Result<(), ()>)
        ensures
            final(self).cq_len() == old(self).cq_len(),
            r is Err ==> (forall|u: u64| final(self).holds(u) == old(self).holds(u))
                && (forall|u: u64| final(self).held_buffer(u) == old(self).held_buffer(u)),
            r is Ok ==> (forall|u: u64| final(self).holds(u) == (u == entry.ud || old(self).holds(u)))
                && (forall|u: u64| final(self).held_buffer(u) == (if u == entry.ud { entry.ptr_of@ } else { old(self).held_buffer(u) })),
    {
        unimplemented!()
    }
    // ring.submit_and_wait(n): completions may arrive, nothing is released until they are consumed
    #[verifier::external_body]
    pub fn submit_and_wait(&mut self, want: usize) -> (r: IoResult<usize>)
        ensures
            forall|u: u64| final(self).holds(u) == old(self).holds(u),
            forall|u: u64| final(self).held_buffer(u) == old(self).held_buffer(u),
    {
        unimplemented!()
    }
    // `for cqe in ring.completion()`  (rule R-cq): the next unconsumed completion entry, if any
    #[verifier::external_body]
    pub fn next_cqe(&mut self) -> (r: Option<Cqe>)
        ensures
            forall|u: u64| final(self).held_buffer(u) == old(self).held_buffer(u),
            r is None ==> (forall|u: u64| final(self).holds(u) == old(self).holds(u)) && final(self).cq_len() == old(self).cq_len(),
            r matches Some(c) ==> c.res > i32::MIN && old(self).cq_len() > 0 && final(self).cq_len() == old(self).cq_len() - 1
                && (forall|u: u64| final(self).holds(u) == (u != c.ud && old(self).holds(u))),
    {
        unimplemented!()
    }
}

// ---- the device handle -----------------------------------------------------------------------------------
#[verifier::external_body]
pub struct FileArc { _p: () }
#[verifier::external_body]
#[derive(Clone, Copy)]
pub struct FileIdentity { _p: () }
// the process-wide registry of files whose io_uring write outcome is indeterminate (io.rs INDETERMINATE_FILES)
pub uninterp spec fn registered(id: FileIdentity) -> bool;
impl FileArc {
    pub uninterp spec fn identity(&self) -> FileIdentity;
    pub uninterp spec fn raw_fd(&self) -> i32;
    #[verifier::external_body]
    pub fn as_raw_fd(&self) -> (r: i32)
        ensures r == self.raw_fd(),
    {
        unimplemented!()
    }
    // Arc::clone of the file handle
    #[verifier::external_body]
    pub fn clone(&self) -> (r: FileArc)
        ensures r.identity() == self.identity(), r.raw_fd() == self.raw_fd(),
    {
        unimplemented!()
    }
}
// file_identity(file.as_ref())   (device + inode from the file's metadata)
#[verifier::external_body]
pub fn file_identity_of(file: &FileArc) -> (r: Result<FileIdentity>)
    ensures r matches Ok(id) ==> id == file.identity(),
{
    unimplemented!()
}
#[verifier::external_body]
pub fn file_is_indeterminate(identity: FileIdentity) -> (r: bool)
    ensures r == registered(identity),
{
    unimplemented!()
}
// IoUring::builder().setup_sqpoll(idle).build(entries).ok(): a fresh ring - the kernel holds none of our submissions
#[verifier::external_body]
pub fn ring_build(idle_ms: u32, entries: u32) -> (r: Option<IoUring>)
    ensures r matches Some(rg) ==> forall|u: u64| !rg.holds(u),
{
    unimplemented!()
}
// Probe::new + register_probe + is_supported(Read) && is_supported(Write)
#[verifier::external_body]
pub fn ring_supports_rw(r: &IoUring) -> bool { unimplemented!() }
pub struct U64Cell { pub v: Ghost<u64>, pub c: Kernel }
impl U64Cell {
    pub open spec fn val(&self) -> u64 { self.v@ }
    #[verifier::external_body]
    pub fn new(v: u64) -> (r: U64Cell)
        ensures r.val() == v,
    {
        unimplemented!()
    }
}
pub struct UsizeCell { pub v: Ghost<usize>, pub c: Kernel }
impl UsizeCell {
    pub open spec fn val(&self) -> usize { self.v@ }
    #[verifier::external_body]
    pub fn new(v: usize) -> (r: UsizeCell)
        ensures r.val() == v,
    {
        unimplemented!()
    }
}
pub struct FlagCell { pub v: Ghost<bool>, pub c: Kernel }
impl FlagCell {
    pub open spec fn val(&self) -> bool { self.v@ }
    #[verifier::external_body]
    pub fn store(&mut self, v: bool, o: Ordering)
        ensures final(self).val() == v,
    {
        unimplemented!()
    }
    #[verifier::external_body]
    pub fn new(v: bool) -> (r: FlagCell)
        ensures r.val() == v,
    {
        unimplemented!()
    }
}
pub struct DiskIO {
    pub ring: Option<IoUring>,
    pub next_user_data: u64,
    pub write_indeterminate: FlagCell,
    pub journal_generation: U64Cell,
    pub journal_slot: UsizeCell,
    pub file_identity: FileIdentity,
    pub _file: FileArc,
    pub fd: i32,
    pub _use_direct_io: bool,
    // ghost: mark_file_indeterminate was called for this handle's file
    pub file_marked: Ghost<bool>,
    // ghost: flush() calls made and whether the last one succeeded
    pub flushed_ok: Ghost<bool>,
    // ghost: synchronous writes issued through write_sectors_sync, in order
    pub sync_writes: Ghost<Seq<(u64, Seq<u8>)>>,
}
impl DiskIO {
    #[verifier::external_body]
    pub fn ensure_writable(&self) -> (r: Result<()>) { unimplemented!() }
    #[verifier::external_body]
    pub fn write_sectors_sync(&mut self, sector: u64, data: &[u8]) -> (r: Result<()>)
        ensures
            final(self).ring == old(self).ring, final(self).next_user_data == old(self).next_user_data,
            final(self).write_indeterminate == old(self).write_indeterminate, final(self).file_marked == old(self).file_marked,
            final(self)._use_direct_io == old(self)._use_direct_io, final(self).fd == old(self).fd,
            final(self).flushed_ok@ == false,
            r is Ok ==> final(self).sync_writes@ == old(self).sync_writes@.push((sector, data@)),
            r is Err ==> final(self).sync_writes@ == old(self).sync_writes@,
    {
        unimplemented!()
    }
    #[verifier::external_body]
    pub fn flush(&mut self) -> (r: Result<()>)
        ensures
            final(self).ring == old(self).ring, final(self).next_user_data == old(self).next_user_data,
            final(self).write_indeterminate == old(self).write_indeterminate, final(self).file_marked == old(self).file_marked,
            final(self)._use_direct_io == old(self)._use_direct_io, final(self).fd == old(self).fd,
            final(self).sync_writes == old(self).sync_writes,
            final(self).flushed_ok@ == (r is Ok),
    {
        unimplemented!()
    }
}
// mark_file_indeterminate(self.file_identity, &self._file)   (rule R-mark: the registry entry keeps the inode alive and refuses reopening)
#[verifier::external_body]
pub fn mark_file_indeterminate(identity: &FileIdentity, file: &FileArc, marked: &mut Ghost<bool>)
    ensures final(marked)@ == true,
{
    unimplemented!()
}
// data.as_slice()
#[verifier::external_body]
pub fn data_as_slice<T: BatchWriteData>(data: &T) -> (r: &[u8])
    ensures r@ == data.view_bytes(),
{
    unimplemented!()
}
// std::mem::forget(buffer.take()) on slot `index` of the buffer list (rule R-forget): the slot is emptied and its
// buffer is leaked - never dropped, never freed
#[verifier::external_body]
pub fn forget_slot<T>(buffers: &mut Vec<Option<T>>, index: usize)
    requires index < old(buffers)@.len(),
    ensures
        final(buffers)@.len() == old(buffers)@.len(),
        final(buffers)@[index as int] is None,
        forall|j: int| 0 <= j < old(buffers)@.len() && j != index ==> final(buffers)@[j] == old(buffers)@[j],
{
    unimplemented!()
}
pub fn min_usize(a: usize, b: usize) -> (r: usize)
    ensures r == (if a <= b { a } else { b }),
{
    if a <= b { a } else { b }
}
// drop(self.ring.take())   (rule R-take)
#[verifier::external_body]
pub fn drop_ring(ring: &mut Option<IoUring>)
    ensures *final(ring) is None,
{
    unimplemented!()
}
