// Opaque surface of the TTL sweeper's thread body (unit sweeper_loop; C18: one sweeping run is bounded and the thread holds
// no strong reference to the store while it sleeps - so dropping the store is never held up by the sweeper; C11: the run is
// made of sample_and_expire_batch calls, the function of unit update_path). TRUSTED (A42): the shutdown flag, the weak store
// reference, time and the statistics cells are handles; the expiry rate (f32 division and comparison) is an opaque value;
// sample / run counters are treated as non-overflowing (rule R-count: 2^64 sampled keys are unreachable); the outer polling
// loop has no termination claim.
pub enum Ordering { Relaxed, Release, Acquire, AcqRel, SeqCst }
#[verifier::external_body]
pub struct FlagArc { _p: () }
impl FlagArc {
    #[verifier::external_body]
    pub fn load(&self, o: Ordering) -> bool { unimplemented!() }
}
#[verifier::external_body]
pub struct DurationH { _p: () }
#[verifier::external_body]
pub struct Threshold { _p: () }
pub struct TtlConfig {
    pub sample_size: usize,
    pub expiry_threshold: Threshold,
    pub max_iterations: usize,
    pub max_time_per_run: DurationH,
    pub sleep_interval: DurationH,
    pub enabled: bool,
}
#[verifier::external_body]
pub struct StoreArc { _p: () }
#[verifier::external_body]
pub struct WeakStore { _p: () }
impl WeakStore {
    #[verifier::external_body]
    pub fn upgrade(&self) -> Option<StoreArc> { unimplemented!() }
}
// thread::sleep(d)
#[verifier::external_body]
pub fn thread_sleep(d: &DurationH) { unimplemented!() }
#[verifier::external_body]
pub struct InstantH { _p: () }
#[verifier::external_body]
pub fn instant_now() -> InstantH { unimplemented!() }
impl InstantH {
    // start.elapsed() > limit
    #[verifier::external_body]
    pub fn elapsed_exceeds(&self, limit: &DurationH) -> bool { unimplemented!() }
}
// expired as f32 / sampled as f32 (0.0 for an empty sample)
#[verifier::external_body]
pub struct Rate { _p: () }
#[verifier::external_body]
pub fn rate_of(expired: u64, sampled: u64) -> Rate { unimplemented!() }
impl Rate {
    #[verifier::external_body]
    pub fn below(&self, t: &Threshold) -> bool { unimplemented!() }
}
// one batch of the sweep (ttl_sweep.rs sample_and_expire_batch: unit update_path)
#[verifier::external_body]
pub fn sample_and_expire_batch(store: &StoreArc, config: &TtlConfig) -> (r: (u64, u64)) { unimplemented!() }
#[verifier::external_body]
pub struct StatCell { _p: () }
impl StatCell {
    #[verifier::external_body]
    pub fn fetch_add(&self, v: u64, o: Ordering) -> u64 { unimplemented!() }
    #[verifier::external_body]
    pub fn store(&self, v: u64, o: Ordering) { unimplemented!() }
}
pub struct TtlSweeperStats {
    pub total_sampled: StatCell,
    pub total_expired: StatCell,
    pub total_runs: StatCell,
    pub last_run: StatCell,
}
#[verifier::external_body]
pub fn wall_clock_nanos() -> u64 { unimplemented!() }
// total += n on a progress counter (rule R-count)
#[verifier::external_body]
pub fn count_add(total: u64, n: u64) -> u64 { unimplemented!() }
