// Opaque surface of the read path (unit read_disk; C08 / C01 / C11 / C16). TRUSTED (A18): a record's
// state words are atomics read through shims; the reader pin is a linear token; the device read returns
// `count` whole blocks; the cache hands out bytes per generation; the index lookup is stable within a call.

pub enum Ordering { Relaxed, Release, Acquire, AcqRel, SeqCst }

pub uninterp spec fn wall_now() -> u64;

#[verifier::external_body]
pub struct Bytes { _p: () }
impl Bytes {
    pub uninterp spec fn view(&self) -> Seq<u8>;
    #[verifier::external_body]
    pub fn len(&self) -> (n: usize)
        ensures n == self.view().len(),
    {
        unimplemented!()
    }
    #[verifier::external_body]
    pub fn clone(&self) -> (b: Bytes)
        ensures b.view() == self.view(),
    {
        unimplemented!()
    }
    #[verifier::external_body]
    pub fn to_vec(&self) -> (v: Vec<u8>)
        ensures v@ == self.view(),
    {
        unimplemented!()
    }
}
// Bytes::copy_from_slice(&data[a..b])   (rule R-bytes)
#[verifier::external_body]
pub fn bytes_copy_range(data: &Vec<u8>, a: usize, b: usize) -> (r: Bytes)
    requires a <= b <= data@.len(),
    ensures r.view() == data@.subrange(a as int, b as int),
{
    unimplemented!()
}
// Bytes::from(data).slice(a..b)   (rule R-bytes)
#[verifier::external_body]
pub fn bytes_from_vec_slice(data: Vec<u8>, a: usize, b: usize) -> (r: Bytes)
    requires a <= b <= data@.len(),
    ensures r.view() == data@.subrange(a as int, b as int),
{
    unimplemented!()
}

// a record's absolute expiry (0 = none): stable within one call (A3)
#[verifier::external_body]
pub struct ExpiryCell { _p: () }
impl ExpiryCell {
    pub uninterp spec fn val(&self) -> u64;
    #[verifier::external_body]
    pub fn load(&self, o: Ordering) -> (v: u64)
        ensures v == self.val(),
    {
        unimplemented!()
    }
}
// a record's head sector (0 = not on disk): every load may see a different value (flush / retirement race)
#[verifier::external_body]
pub struct SectorCell { _p: () }
impl SectorCell {
    // the head sector has been assigned (it is written once, 0 -> the allocated sector, and never reset: a monotone fact,
    // so a non-zero load establishes it for good; a zero load says nothing)
    pub uninterp spec fn assigned(&self) -> bool;
    #[verifier::external_body]
    pub fn load(&self, o: Ordering) -> (v: u64)
        ensures v != 0 ==> self.assigned(),
    {
        unimplemented!()
    }
}

pub struct Record {
    pub key: Vec<u8>,
    pub value_len: usize,
    pub timestamp: u64,
    pub sector: SectorCell,
    pub ttl_expiry: ExpiryCell,
}

// the reader pin on a generation's extent (record.rs ExtentReadGuard): held from acquire_extent until drop
#[verifier::external_body]
pub struct ExtentReadGuard { _p: () }
impl ExtentReadGuard {
    pub uninterp spec fn of(&self) -> Arc<Record>;
}

pub uninterp spec fn rec_resident(r: &Record) -> Option<Seq<u8>>;
pub uninterp spec fn rec_source(r: &Record) -> Option<Arc<Record>>;

impl Record {
    #[verifier::external_body]
    pub fn get_value(&self) -> (v: Option<Bytes>)
        ensures
            v matches Some(b) ==> rec_resident(self) == Some(b.view()),
            v is None ==> rec_resident(self) is None,
    {
        unimplemented!()
    }
    // a deferred (TTL-only) generation points at the predecessor whose extent holds the value
    #[verifier::external_body]
    pub fn value_source(&self) -> (s: Option<Arc<Record>>)
        ensures s matches Some(p) ==> (rec_source(self) == Some(p) && p.key@.len() <= 0x10_0000 && p.value_len <= 0x1000_0000),
            s is None ==> rec_source(self) is None,
    {
        unimplemented!()
    }
}
// source.acquire_extent(): None once the extent is retired   (rule R-pin: receiver made explicit so the token names its generation)
#[verifier::external_body]
pub fn acquire_extent_of(source: &Arc<Record>) -> (g: Option<ExtentReadGuard>)
    ensures g matches Some(t) ==> t.of() == *source,
{
    unimplemented!()
}

pub fn drop<T>(t: T) {
}

// ---- record formats (contracts verified in unit record_codec: total_size == value_offset + value_len)
pub open spec fn head_len(version: u32, key_len: nat) -> nat {
    if version == 1 { (22 + key_len) as nat } else { (30 + key_len) as nat }
}
pub struct FormatAny { pub version: u32 }
impl FormatAny {
    #[verifier::external_body]
    pub fn total_size(&self, key_len: usize, value_len: usize) -> (n: usize)
        requires key_len <= 0x10_0000, value_len <= 0x1000_0000,
        ensures n == head_len(self.version, key_len as nat) + value_len,
    {
        unimplemented!()
    }
    #[verifier::external_body]
    pub fn value_offset(&self, key_len: usize) -> (n: usize)
        requires key_len <= 0x10_0000,
        ensures n == head_len(self.version, key_len as nat),
    {
        unimplemented!()
    }
}
#[verifier::external_body]
pub fn get_format_ref(version: u32) -> (f: FormatAny)
    ensures f.version == version,
{
    unimplemented!()
}

// format.rs sector_holds_record (unit record_codec): the block starts with THIS generation's head - marker, key, value length, timestamp
pub uninterp spec fn holds(data: Seq<u8>, record: &Record) -> bool;
#[verifier::external_body]
pub fn sector_holds_record(data: &[u8], record: &Record) -> (r: bool)
    ensures r == holds(data@, record),
{
    unimplemented!()
}

// ---- device
#[verifier::external_body]
pub struct DiskIO { _p: () }
impl DiskIO {
    #[verifier::external_body]
    pub fn read_sectors_sync(&self, sector: u64, count: u64) -> (r: Result<Vec<u8>>)
        requires count >= 1,
        ensures r matches Ok(d) ==> d@.len() == count * 4096,
    {
        unimplemented!()
    }
}
#[verifier::external_body]
pub struct DiskLock { _p: () }
impl DiskLock {
    #[verifier::external_body]
    pub fn read(&self) -> &DiskIO { unimplemented!() }
}
#[verifier::external_body]
pub fn no_disk_io_error() -> (e: FeoxError)
    ensures e is IoError,
{
    unimplemented!()
}

// ---- cache (unit cache: entries are designated by generation)
pub uninterp spec fn cached_value_of(r: &Arc<Record>) -> Seq<u8>;
#[verifier::external_body]
pub struct CacheH { _p: () }
impl CacheH {
    #[verifier::external_body]
    pub fn get_for_record(&self, key: &[u8], record: &Arc<Record>) -> (v: Option<Bytes>)
        ensures v matches Some(b) ==> b.view() == cached_value_of(record),
    {
        unimplemented!()
    }
    // C16: the cache is populated only with bytes that were served for the generation it is tagged with
    #[verifier::external_body]
    pub fn insert_for_record(&self, key: Vec<u8>, value: Bytes, record: &Arc<Record>)
        requires served_for(record, value.view()),
    {
        unimplemented!()
    }
}

// ---- index
#[verifier::external_body]
pub struct HashIndex { _p: () }
impl HashIndex {
    pub uninterp spec fn lookup(&self, key: Seq<u8>) -> Option<Arc<Record>>;
    // self.hash_table.read(key, |_, v| v.clone())   (rule R-hread)
    #[verifier::external_body]
    pub fn read_arc(&self, key: &[u8]) -> (r: Option<Arc<Record>>)
        ensures r == self.lookup(key@), r matches Some(a) ==> (a.key@.len() <= 0x10_0000 && a.value_len <= 0x1000_0000),
    {
        unimplemented!()
    }
}

#[verifier::external_body]
pub struct AtomicU64 { _p: () }
impl AtomicU64 {
    #[verifier::external_body]
    pub fn fetch_add(&self, v: u64, o: Ordering) -> u64 { unimplemented!() }
}
pub struct Statistics {
    pub ttl_expired_lazy: AtomicU64,
}
impl Statistics {
    #[verifier::external_body]
    pub fn record_get(&self, latency_ns: u64, cache_hit: bool) { unimplemented!() }
}
#[verifier::external_body]
pub struct InstantH { _p: () }
#[verifier::external_body]
pub fn instant_now() -> InstantH { unimplemented!() }
#[verifier::external_body]
pub fn elapsed_nanos(start: &InstantH) -> u64 { unimplemented!() }
// SystemTime::now().duration_since(UNIX_EPOCH).unwrap_or_default().as_nanos() as u64   (rule R-ext)
#[verifier::external_body]
pub fn wall_clock_nanos() -> (t: u64)
    ensures t == wall_now(),
{
    unimplemented!()
}
// X.to_vec() on a byte slice or a Bytes handle   (rule R-vec)
pub trait BytesLike {
    spec fn bview(&self) -> Seq<u8>;
}
impl BytesLike for &[u8] {
    open spec fn bview(&self) -> Seq<u8> { self@ }
}
impl BytesLike for Bytes {
    open spec fn bview(&self) -> Seq<u8> { self.view() }
}
#[verifier::external_body]
pub fn slice_to_vec_u8<T: BytesLike>(s: T) -> (v: Vec<u8>)
    ensures v@ == s.bview(),
{
    unimplemented!()
}
pub fn div_ceil_usize(a: usize, b: usize) -> (r: usize)
    requires b > 0, a + b <= usize::MAX,
    ensures r == (a + b - 1) / b as int,
{
    (a + b - 1) / b
}

pub struct FeoxStore {
    pub hash_table: HashIndex,
    pub stats: Statistics,
    pub enable_ttl: bool,
    pub memory_only: bool,
    pub format_version: u32,
    pub cache: Option<CacheH>,
    pub disk_io: Option<DiskLock>,
}
impl FeoxStore {
    #[verifier::external_body]
    pub fn validate_key(&self, key: &[u8]) -> (r: Result<()>)
        ensures r is Ok ==> 1 <= key@.len() <= 0x10_0000,
    {
        unimplemented!()
    }
}

// E.map(|(value, _, _)| value) on a Result   (rule R-rmap)
pub fn result_first3(r: Result<(Bytes, bool, Arc<Record>)>) -> (o: Result<Bytes>)
    ensures
        r is Err ==> o is Err && o->Err_0 == r->Err_0,
        r matches Ok(t) ==> (o matches Ok(v) && v.view() == t.0.view()),
{
    match r {
        Ok((value, _, _)) => Ok(value),
        Err(e) => Err(e),
    }
}

// ---- the TTL-only rewrite (write_buffer.rs prepare_deferred_record_data)
pub open spec fn le16(v: u16) -> Seq<u8> {
    seq![(v % 256) as u8, (v / 256) as u8]
}
// H.extend_from_slice(&V.to_le_bytes()) for a u16   (rule R-le)
#[verifier::external_body]
pub fn push_u16_le(out: &mut Vec<u8>, v: u16)
    ensures final(out)@ == old(out)@ + le16(v),
{
    out.extend_from_slice(&v.to_le_bytes())
}
// D[a..b].copy_from_slice(&S)   (rule R-cpy)
#[verifier::external_body]
pub fn copy_into_vec(d: &mut Vec<u8>, a: usize, b: usize, src: &Vec<u8>)
    requires a <= b <= old(d)@.len(), b - a == src@.len(),
    ensures final(d)@ == old(d)@.subrange(0, a as int) + src@ + old(d)@.subrange(b as int, old(d)@.len() as int),
{
    d[a..b].copy_from_slice(src)
}
// a.key != b.key   (rule R-seq)
#[verifier::external_body]
pub fn vec_ne(a: &Vec<u8>, b: &Vec<u8>) -> (r: bool)
    ensures r == (a@ != b@),
{
    a != b
}
// the head fields a format writes after marker and token: key_len, key, value_len, timestamp, [expiry] (unit record_encoder_vx)
pub uninterp spec fn head_fields(version: u32, record: &Record) -> Seq<u8>;
// the whole extent image of a record with a resident value (unit record_encoder_vx: serialize_record_data)
pub uninterp spec fn extent_image(version: u32, record: &Record, value: Seq<u8>, padded: nat) -> Seq<u8>;
impl FormatAny {
    #[verifier::external_body]
    pub fn serialize_record_into(&self, record: &Record, include_value: bool, out: &mut Vec<u8>)
        requires !include_value,
        ensures
            final(out)@ == old(out)@ + head_fields(self.version, record),
            head_fields(self.version, record).len() + 4 == head_len(self.version, record.key@.len()),
    {
        unimplemented!()
    }
}
#[verifier::external_body]
pub fn serialize_record_data(record: &Record, format: &FormatAny, value: &Bytes, padded_size: usize) -> (r: Vec<u8>)
    ensures r@ == extent_image(format.version, record, value.view(), padded_size as nat), r@.len() == padded_size,
{
    unimplemented!()
}
