// Shims for little-endian codecs and byte-slice helpers (rules R-le, R-vec, R-tryinto, R-seq).
// Executable bodies call the real std API; the `ensures` are the trusted part (A5).
pub open spec fn le_val(s: Seq<u8>) -> nat
    decreases s.len(),
{
    if s.len() == 0 { 0 } else { s[0] as nat + 256 * le_val(s.drop_first()) }
}

#[verifier::external_body]
pub fn u16_from_le(s: &[u8]) -> (r: u16)
    requires s@.len() == 2,
    ensures r as nat == le_val(s@),
{
    u16::from_le_bytes(s.try_into().unwrap())
}

#[verifier::external_body]
pub fn u32_from_le(s: &[u8]) -> (r: u32)
    requires s@.len() == 4,
    ensures r as nat == le_val(s@),
{
    u32::from_le_bytes(s.try_into().unwrap())
}

#[verifier::external_body]
pub fn u64_from_le(s: &[u8]) -> (r: u64)
    requires s@.len() == 8,
    ensures r as nat == le_val(s@),
{
    u64::from_le_bytes(s.try_into().unwrap())
}

#[verifier::external_body]
pub fn u16_from_le2(a: u8, b: u8) -> (r: u16)
    ensures r as nat == le_val(seq![a, b]), r as nat == a as nat + 256 * (b as nat),
{
    u16::from_le_bytes([a, b])
}

#[verifier::external_body]
pub fn u64_from_le_arr(a: [u8; 8]) -> (r: u64)
    ensures r as nat == le_val(a@),
{
    u64::from_le_bytes(a)
}

#[verifier::external_body]
pub fn try_into_array8(s: &[u8]) -> (r: core::result::Result<[u8; 8], ()>)
    ensures
        s@.len() == 8 ==> r is Ok && r->Ok_0@ == s@,
        s@.len() != 8 ==> r is Err,
{
    match <[u8; 8]>::try_from(s) { Ok(a) => Ok(a), Err(_) => Err(()) }
}

#[verifier::external_body]
pub fn slice_eq(a: &[u8], b: &[u8]) -> (r: bool)
    ensures r == (a@ == b@),
{
    a == b
}

// le_val facts the solver cannot unfold by itself
pub proof fn lemma_le_val_bound(s: Seq<u8>)
    ensures
        s.len() == 2 ==> le_val(s) < 0x1_0000,
        s.len() == 2 ==> le_val(s) == s[0] as nat + 256 * (s[1] as nat),
        s.len() == 4 ==> le_val(s) < 0x1_0000_0000,
        s.len() == 8 ==> le_val(s) < 0x1_0000_0000_0000_0000,
{
    reveal_with_fuel(le_val, 10);
    if s.len() == 2 {
        assert(s.drop_first().drop_first().len() == 0);
    }
    if s.len() == 4 {
        let a = s.drop_first(); let b = a.drop_first(); let c = b.drop_first(); let d = c.drop_first();
        assert(d.len() == 0);
    }
    if s.len() == 8 {
        let a = s.drop_first(); let b = a.drop_first(); let c = b.drop_first(); let d = c.drop_first();
        let e = d.drop_first(); let f = e.drop_first(); let g = f.drop_first(); let h = g.drop_first();
        assert(h.len() == 0);
    }
}
