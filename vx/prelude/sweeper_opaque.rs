// Opaque surface of TtlSweeper::stop (unit sweeper_stop; C18: stopping the sweeper never joins the calling thread and only joins
// a thread that has been told to stop). TRUSTED (A36): thread ids are abstract values; JoinHandle::join blocks until the thread
// ends - joining the current thread never returns, joining a sweeper whose shutdown flag is not set never returns either (the
// shim's precondition states both); the shutdown flag is an atomic the stopping thread owns for the call (A3).
pub enum Ordering { Relaxed, Release, Acquire, AcqRel, SeqCst }
#[verifier::external_body]
pub struct FlagCell { _p: () }
impl FlagCell {
    pub uninterp spec fn val(&self) -> bool;
    #[verifier::external_body]
    pub fn store(&mut self, v: bool, o: Ordering)
        ensures final(self).val() == v,
    {
        unimplemented!()
    }
}
#[verifier::external_body]
pub struct ThreadId { _p: () }
pub uninterp spec fn tid_eq(a: &ThreadId, b: &ThreadId) -> bool;
#[verifier::external_body]
pub fn thread_id_ne(a: &ThreadId, b: &ThreadId) -> (r: bool)
    ensures r == !tid_eq(a, b),
{
    unimplemented!()
}
#[verifier::external_body]
pub struct ThreadH { _p: () }
impl ThreadH {
    pub uninterp spec fn tid(&self) -> ThreadId;
    #[verifier::external_body]
    pub fn id(&self) -> (r: ThreadId)
        ensures r == self.tid(),
    {
        unimplemented!()
    }
}
// thread::current()
pub uninterp spec fn current_tid() -> ThreadId;
#[verifier::external_body]
pub fn thread_current() -> (r: ThreadH)
    ensures r.tid() == current_tid(),
{
    unimplemented!()
}
#[verifier::external_body]
pub struct JoinHandleH { _p: () }
impl JoinHandleH {
    pub uninterp spec fn thread_of(&self) -> ThreadH;
    #[verifier::external_body]
    pub fn thread(&self) -> (r: &ThreadH)
        ensures *r == self.thread_of(),
    {
        unimplemented!()
    }
}
// handle.join() on the sweeper's handle: returns only if the joined thread ends
#[verifier::external_body]
pub fn join_sweeper(handle: JoinHandleH, flag: &FlagCell) -> (r: std::result::Result<(), ()>)
    requires
        // never the calling thread itself (a self-join never returns)
        !tid_eq(&handle.thread_of().tid(), &current_tid()),
        // the sweeper has been told to stop (its loop only exits on the flag)
        flag.val(),
{
    unimplemented!()
}
pub struct TtlSweeper {
    pub shutdown: FlagCell,
    pub handle: Option<JoinHandleH>,
}
// self.handle.take()
pub fn take_handle(h: &mut Option<JoinHandleH>) -> (r: Option<JoinHandleH>)
    ensures r == *old(h), *final(h) is None,
{
    h.take()
}
