// Additions to wb_opaque.rs for the worker thread's loop and the retirement-queue flush (unit worker_loop; C02 / C09 / C18).
// TRUSTED (A27): the request channel, the reply sender, the shutdown flag and the retirement queue's mutex are handles;
// flush_worker_shards and process_deletions are the functions verified in unit write_batch (here: shims carrying the
// clauses this unit uses); sleeping and logging have no effect on state.

pub mod crossbeam_channel {
    pub enum RecvTimeoutError { Timeout, Disconnected }
}
#[verifier::external_body]
pub struct ReplySender { _p: () }
impl ReplySender {
    // C09: what the worker answers IS what the flush returned (checked at the call: the argument equals the recorded result)
    #[verifier::external_body]
    pub fn send(&self, result: Result<bool>) -> std::result::Result<(), ()> { unimplemented!() }
}
pub struct FlushRequest {
    pub response: Option<ReplySender>,
    pub defer_retirements: bool,
}
#[verifier::external_body]
#[verifier::reject_recursive_types(T)]
pub struct Receiver<T> { _p: std::marker::PhantomData<T> }
impl Receiver<FlushRequest> {
    // flush_rx.recv_timeout(Duration::from_millis(n))   (rule R-chan)
    #[verifier::external_body]
    pub fn recv_timeout_ms(&self, ms: u64) -> std::result::Result<FlushRequest, crossbeam_channel::RecvTimeoutError> { unimplemented!() }
}
#[verifier::external_body]
pub fn get_format_ref(version: u32) -> &'static FormatAny { unimplemented!() }

// what flush_worker_shards answered, as a value (so the reply can be compared with it)
#[verifier::external_body]
pub fn flush_worker_shards(ctx: &WorkerContext, format: &FormatAny, flush_retirements: bool) -> (r: Result<bool>)
    ensures flush_asked_retirements(flush_retirements),
{
    unimplemented!()
}
pub uninterp spec fn flush_asked_retirements(b: bool) -> bool;

impl PendingGuard {
    #[verifier::external_body]
    pub fn is_empty(&self) -> bool { unimplemented!() }
    // std::mem::take(&mut *pending)   (rule R-take)
    #[verifier::external_body]
    pub fn take_all(&mut self) -> (v: Vec<WriteEntry>)
        ensures all_bounded(v@), v@.len() <= 0x1000_0000,
    {
        unimplemented!()
    }
    #[verifier::external_body]
    pub fn extend(&mut self, v: Vec<WriteEntry>) { unimplemented!() }
}
// unit write_batch (process_deletions): entries already queued for retry stay queued; nothing else is stated here
#[verifier::external_body]
pub fn process_deletions(disk_io: &DiskLock, free_space: &FreeSpaceLock, stats: &Statistics, format: &FormatAny, delete_operations: Vec<WriteEntry>, retries: &mut Vec<WriteEntry>, released_sectors: &mut u64) -> (r: Result<()>)
    requires all_bounded(delete_operations@), delete_operations@.len() <= 0x1000_0000,
    ensures old(retries)@.is_prefix_of(final(retries)@),
{
    unimplemented!()
}
pub fn min_u64(a: u64, b: u64) -> (r: u64)
    ensures r == (if a <= b { a } else { b }),
{
    if a <= b { a } else { b }
}
