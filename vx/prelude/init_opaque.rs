// Opaque surface of FeoxStore's construction (unit store_init; C17 / C15 / C02). TRUSTED (A34): the index structures, the
// version clock, statistics, cache, allocator, metadata block and their constructors are handles; open_device /
// open_device_read_only / open_fresh_device (unit device_open), load_indexes (unit load_indexes), WriteBuffer::new and
// start_workers (unit worker_start) are shims carrying the contracts those units verify; a ghost trace on the store records
// the order of the steps.

#[verifier::external_body]
pub struct File { _p: () }
#[verifier::external_body]
pub struct RandomState { _p: () }
impl RandomState {
    #[verifier::external_body]
    pub fn new() -> RandomState { unimplemented!() }
    #[verifier::external_body]
    pub fn clone(&self) -> RandomState { unimplemented!() }
}
#[verifier::external_body]
pub struct HashIndex { _p: () }
// HashMap::with_capacity_and_hasher(1 << bits, hasher)
#[verifier::external_body]
pub fn new_hash_index(hash_bits: u32, hasher: RandomState) -> HashIndex { unimplemented!() }
#[verifier::external_body]
pub struct TreeIndex { _p: () }
impl TreeIndex {
    #[verifier::external_body]
    pub fn new() -> TreeIndex { unimplemented!() }
}
#[verifier::external_body]
pub struct VersionClock { _p: () }
impl VersionClock {
    #[verifier::external_body]
    pub fn new(hasher: RandomState) -> VersionClock { unimplemented!() }
}
#[verifier::external_body]
pub struct StatsH { _p: () }
impl StatsH {
    #[verifier::external_body]
    pub fn new() -> StatsH { unimplemented!() }
    #[verifier::external_body]
    pub fn clone(&self) -> StatsH { unimplemented!() }
}
#[verifier::external_body]
pub struct FreeSpaceLock { _p: () }
impl FreeSpaceLock {
    pub uninterp spec fn id(&self) -> int;
    #[verifier::external_body]
    pub fn new() -> FreeSpaceLock { unimplemented!() }
    #[verifier::external_body]
    pub fn clone(&self) -> (r: FreeSpaceLock)
        ensures r.id() == self.id(),
    {
        unimplemented!()
    }
}
pub struct Metadata { pub version: u32 }
impl Metadata {
    #[verifier::external_body]
    pub fn new() -> Metadata { unimplemented!() }
}
#[verifier::external_body]
pub struct MetadataLock { _p: () }
impl MetadataLock {
    #[verifier::external_body]
    pub fn new(m: Metadata) -> MetadataLock { unimplemented!() }
}
#[verifier::external_body]
pub struct CacheH { _p: () }
impl CacheH {
    #[verifier::external_body]
    pub fn new(stats: StatsH) -> CacheH { unimplemented!() }
}
#[verifier::external_body]
pub struct SweeperSlot { _p: () }
impl SweeperSlot {
    #[verifier::external_body]
    pub fn new() -> SweeperSlot { unimplemented!() }
}
#[verifier::external_body]
pub struct DiskLock { _p: () }
impl DiskLock {
    #[verifier::external_body]
    pub fn clone(&self) -> DiskLock { unimplemented!() }
}
#[verifier::external_body]
pub struct TtlConfigH { _p: () }
pub struct StoreConfig {
    pub hash_bits: u32,
    pub memory_only: bool,
    pub enable_caching: bool,
    pub device_path: Option<String>,
    pub file_size: Option<u64>,
    pub max_memory: Option<usize>,
    pub enable_ttl: bool,
    pub ttl_config: Option<TtlConfigH>,
}

// the write buffer (unit worker_start verifies new / start_workers)
pub struct WriteBuffer { pub started: Ghost<bool>, pub fresh: Ghost<bool> }
impl WriteBuffer {
    #[verifier::external_body]
    pub fn new(disk_io: DiskLock, free_space: FreeSpaceLock, stats: StatsH, format_version: u32) -> (r: WriteBuffer)
        ensures r.fresh@ && !r.started@,
    {
        unimplemented!()
    }
    // requires a buffer whose workers have not been started (no channels yet): unit worker_start
    #[verifier::external_body]
    pub fn start_workers(&mut self, num_workers: usize)
        requires old(self).fresh@ && !old(self).started@,
        ensures final(self).started@,
    {
        unimplemented!()
    }
}
#[verifier::external_body]
pub fn cpu_count() -> usize { unimplemented!() }
pub fn max_usize(a: usize, b: usize) -> (r: usize)
    ensures r == (if a >= b { a } else { b }),
{
    if a >= b { a } else { b }
}

pub enum Step { OpenRw, OpenRo, OpenFresh, Load }

pub struct FeoxStore {
    pub hash_table: HashIndex,
    pub tree: TreeIndex,
    pub stats: StatsH,
    pub version_clock: VersionClock,
    pub write_buffer: Option<Arc<WriteBuffer>>,
    pub free_space: FreeSpaceLock,
    pub _metadata: MetadataLock,
    pub format_version: u32,
    pub fresh_device: bool,
    pub allow_ambiguous_legacy_recovery: bool,
    pub ambiguous_legacy_markers: u64,
    pub read_only: bool,
    pub initialized: bool,
    pub memory_only: bool,
    pub enable_caching: bool,
    pub max_memory: Option<usize>,
    pub cache: Option<Arc<CacheH>>,
    pub device_fd: Option<i32>,
    pub device_size: u64,
    pub device_file: Option<File>,
    pub disk_io: Option<DiskLock>,
    pub ttl_sweeper: SweeperSlot,
    pub enable_ttl: bool,
    // ghost: the steps taken on this store so far
    pub steps: Ghost<Seq<Step>>,
}
impl FeoxStore {
    pub open spec fn same_flags(&self, o: &FeoxStore) -> bool {
        self.read_only == o.read_only && self.initialized == o.initialized && self.memory_only == o.memory_only && self.write_buffer == o.write_buffer
    }
    #[verifier::external_body]
    pub fn open_device(&mut self, device_path: &Option<String>, file_size: Option<u64>) -> (r: Result<()>)
        ensures final(self).same_flags(old(self)), final(self).steps@ == old(self).steps@.push(Step::OpenRw),
    {
        unimplemented!()
    }
    #[verifier::external_body]
    pub fn open_device_read_only(&mut self, file: File) -> (r: Result<()>)
        ensures final(self).same_flags(old(self)), final(self).steps@ == old(self).steps@.push(Step::OpenRo),
    {
        unimplemented!()
    }
    #[verifier::external_body]
    pub fn open_fresh_device(&mut self, file: File, file_size: Option<u64>) -> (r: Result<()>)
        ensures final(self).same_flags(old(self)), final(self).steps@ == old(self).steps@.push(Step::OpenFresh),
    {
        unimplemented!()
    }
    // unit load_indexes: validates the metadata block, then scans; needs a store that is not yet marked initialized
    // (so that a rejected open is dropped without writing metadata) and that has no write buffer yet (nothing can be
    // flushed into a device that has not been recovered)
    #[verifier::external_body]
    pub fn load_indexes(&mut self) -> (r: Result<()>)
        requires !old(self).initialized, old(self).write_buffer is None, old(self).steps@.len() == 1,
        ensures final(self).same_flags(old(self)), final(self).steps@ == old(self).steps@.push(Step::Load),
            r is Ok ==> final(self).disk_io is Some,
    {
        unimplemented!()
    }
}
