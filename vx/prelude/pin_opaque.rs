// Opaque surface of the extent reader-pin word (unit extent_pin; C08: a reader pins a generation's extent only while it is
// not retired; retirement never touches the reader count). TRUSTED (A43): the state word is an atomic other threads may
// change at any time - a failed compare-exchange hands back an ARBITRARY current value (interference or a spurious
// failure), a load returns the value of the moment -; the two operations that change it are shims whose precondition is
// the protocol rule they must obey (the CAS that takes a pin starts from a NON-RETIRED state it has just examined and adds
// exactly one reader; retire ORs in only the retired bit; a guard's drop subtracts exactly one). The functional behaviour
// of the word under sequential execution is the Kani unit generation_chain.
pub enum Ordering { Relaxed, Release, Acquire, AcqRel, SeqCst }
#[verifier::external_body]
pub struct PinCell { _p: () }
impl PinCell {
    pub uninterp spec fn now(&self) -> u32;
    #[verifier::external_body]
    pub fn load(&self, o: Ordering) -> (v: u32)
        ensures v == self.now(),
    {
        unimplemented!()
    }
    // self.extent_state.compare_exchange_weak(state, state + 1, AcqRel, Acquire)   (rule R-pincas)
    #[verifier::external_body]
    pub fn pin_cas(&self, current: u32, new: u32, success: Ordering, failure: Ordering) -> (r: std::result::Result<u32, u32>)
        requires
            // C08: a pin is taken only from a state that is not retired ...
            current & 0x8000_0000u32 == 0,
            // ... and adds exactly one reader
            new == current + 1,
        ensures r matches Ok(v) ==> v == current,
    {
        unimplemented!()
    }
    // fetch_or: retirement sets the retired bit and nothing else
    #[verifier::external_body]
    pub fn fetch_or(&self, bits: u32, o: Ordering) -> u32
        requires bits == 0x8000_0000u32,
    {
        unimplemented!()
    }
    // fetch_sub: a guard gives back exactly the one pin it holds
    #[verifier::external_body]
    pub fn fetch_sub(&self, n: u32, o: Ordering) -> u32
        requires n == 1,
    {
        unimplemented!()
    }
}
pub struct Record {
    pub extent_state: PinCell,
}
pub struct ExtentReadGuard<'a>(pub &'a PinCell);
// debug_assert!(c): checked in debug builds only
pub fn debug_check(c: bool) {}
