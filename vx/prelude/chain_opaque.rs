// Opaque surface of a record's successor chain (unit record_chain; C02 / C08 / C07 supporting). TRUSTED (A24): the
// state words (sector, refcount, retired_at, successor_safe) and the once-set successor link are read through shims
// and are stable within one call (A3); the chain is finite (termination of the walks is not proved, A9).

pub enum Ordering { Relaxed, Release, Acquire, AcqRel, SeqCst }

#[verifier::external_body]
pub struct AtomicU64 { _p: () }
impl AtomicU64 {
    pub uninterp spec fn val(&self) -> u64;
    #[verifier::external_body]
    pub fn load(&self, o: Ordering) -> (v: u64)
        ensures v == self.val(),
    {
        unimplemented!()
    }
}
#[verifier::external_body]
pub struct AtomicU32 { _p: () }
impl AtomicU32 {
    pub uninterp spec fn val(&self) -> u32;
    #[verifier::external_body]
    pub fn load(&self, o: Ordering) -> (v: u32)
        ensures v == self.val(),
    {
        unimplemented!()
    }
}
// the memo flag "my successor chain is known to be durable or deleted": once true it stays true; a store is invisible within the call
#[verifier::external_body]
pub struct AtomicBool { _p: () }
impl AtomicBool {
    pub uninterp spec fn val(&self) -> bool;
    #[verifier::external_body]
    pub fn load(&self, o: Ordering) -> (v: bool)
        ensures v == self.val(),
    {
        unimplemented!()
    }
    #[verifier::external_body]
    pub fn store(&self, v: bool, o: Ordering) { unimplemented!() }
}
// OnceLock<Arc<Record>>: the successor link, set at most once (link_successor)
#[verifier::external_body]
pub struct SuccessorCell { _p: () }
impl SuccessorCell {
    pub uninterp spec fn val(&self) -> Option<Arc<Record>>;
    // self.successor.get().cloned()   (rule R-oncelock)
    #[verifier::external_body]
    pub fn get_cloned(&self) -> (r: Option<Arc<Record>>)
        ensures r == self.val(),
    {
        unimplemented!()
    }
}

pub struct Record {
    pub sector: AtomicU64,
    pub refcount: AtomicU32,
    pub retired_at: AtomicU64,
    pub successor: SuccessorCell,
    pub successor_safe: AtomicBool,
}

pub fn max_u64(a: u64, b: u64) -> (r: u64)
    ensures r == (if a >= b { a } else { b }),
{
    if a >= b { a } else { b }
}

// `for X in V {` over a Vec moved in (rule R-forvec)
#[verifier::external_body]
#[verifier::reject_recursive_types(T)]
pub struct VecQueue<T> { it: std::vec::IntoIter<T> }
impl<T> VecQueue<T> {
    pub uninterp spec fn rest(&self) -> Seq<T>;
    #[verifier::external_body]
    pub fn new(v: Vec<T>) -> (q: VecQueue<T>)
        ensures q.rest() == v@,
    {
        VecQueue { it: v.into_iter() }
    }
    #[verifier::external_body]
    pub fn pop_front(&mut self) -> (r: Option<T>)
        ensures
            old(self).rest().len() == 0 ==> r is None && final(self).rest() == old(self).rest(),
            old(self).rest().len() > 0 ==> r == Some(old(self).rest()[0]) && final(self).rest() == old(self).rest().skip(1),
    {
        self.it.next()
    }
}
