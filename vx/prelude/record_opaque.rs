// `Record` is a foreign-heavy type (parking_lot lock, atomics, Arc chain): opaque here, read through
// accessor shims (rule R-opq). Each shim IS the field read / method call it names (A11).
#[verifier::external_body]
pub struct Record { _p: () }

pub uninterp spec fn rec_key_spec(r: &Record) -> Seq<u8>;
pub uninterp spec fn rec_value_len_spec(r: &Record) -> usize;
pub uninterp spec fn rec_timestamp_spec(r: &Record) -> u64;
pub uninterp spec fn rec_expiry_spec(r: &Record) -> u64;
pub uninterp spec fn rec_resident_spec(r: &Record) -> Option<Seq<u8>>;

#[verifier::external_body]
pub fn rec_key(r: &Record) -> (k: &Vec<u8>)
    ensures k@ == rec_key_spec(r),
{
    unimplemented!()
}

#[verifier::external_body]
pub fn rec_value_len(r: &Record) -> (v: usize)
    ensures v == rec_value_len_spec(r),
{
    unimplemented!()
}

#[verifier::external_body]
pub fn rec_timestamp(r: &Record) -> (v: u64)
    ensures v == rec_timestamp_spec(r),
{
    unimplemented!()
}

// record.ttl_expiry.load(Ordering::Acquire)
#[verifier::external_body]
pub fn rec_expiry(r: &Record) -> (v: u64)
    ensures v == rec_expiry_spec(r),
{
    unimplemented!()
}

// record.value.read().as_ref()  (a copy of the resident bytes, if any)
#[verifier::external_body]
pub fn rec_value<'a>(r: &'a Record) -> (v: Option<&'a [u8]>)
    ensures
        v is Some <==> rec_resident_spec(r) is Some,
        v matches Some(b) ==> b@ == rec_resident_spec(r)->Some_0,
{
    unimplemented!()
}

// record.get_value(): a handle on the resident bytes, if any (`Bytes` in the real code; an owned copy here)
#[verifier::external_body]
pub fn rec_get_value(r: &Record) -> (v: Option<Vec<u8>>)
    ensures
        v is Some <==> rec_resident_spec(r) is Some,
        v matches Some(b) ==> b@ == rec_resident_spec(r)->Some_0,
{
    unimplemented!()
}

#[verifier::external_body]
pub fn vec_resize_u8(v: &mut Vec<u8>, new_len: usize, value: u8)
    ensures
        final(v)@.len() == new_len,
        new_len >= old(v)@.len() ==> final(v)@ == old(v)@ + Seq::new((new_len - old(v)@.len()) as nat, |i: int| value),
        new_len < old(v)@.len() ==> final(v)@ == old(v)@.subrange(0, new_len as int),
{
    v.resize(new_len, value)
}
