// Opaque surface of the raw pread / pwrite / fsync call sites of DiskIO (unit raw_io; C20: the kernel is never handed a
// range that reaches past the buffer it points into; C09: a short or failed transfer is an error). TRUSTED (A41): the
// three syscalls are shims whose PRECONDITION is the safety condition of the unsafe call - `count` bytes starting at the
// buffer's pointer lie inside the buffer (a Vec's / slice's len, an AlignedBuffer's len, which set_len keeps within its
// capacity: Kani unit aligned_buffer) - and whose result is an arbitrary value in -1..=count; the bytes transferred are
// not modelled (ordering / durability of writes: units io_retire, io_meta, write_batch and the Kani unit io_ordering);
// `#[cfg(unix)]` holds and `#[cfg(not(unix))]` blocks are dropped (rule R-cfg); io::Error construction is opaque;
// ensure_writable is the function of the Kani unit io_ordering (poisoned handles refuse before any syscall).
#[verifier::external_body]
pub struct AlignedBuffer { _p: () }
impl AlignedBuffer {
    pub uninterp spec fn spec_len(&self) -> usize;
    pub uninterp spec fn spec_cap(&self) -> usize;
    #[verifier::external_body]
    pub fn new(size: usize) -> (r: Result<AlignedBuffer>)
        ensures r matches Ok(b) ==> b.spec_len() == 0 && b.spec_cap() >= size,
    {
        unimplemented!()
    }
    #[verifier::external_body]
    pub fn set_len(&mut self, n: usize)
        requires n <= old(self).spec_cap(),
        ensures final(self).spec_len() == n, final(self).spec_cap() == old(self).spec_cap(),
    {
        unimplemented!()
    }
    #[verifier::external_body]
    pub fn len(&self) -> (r: usize)
        ensures r == self.spec_len(),
    {
        unimplemented!()
    }
    // buffer.as_mut_slice().copy_from_slice(data)   (rule R-cpy): panics unless the lengths agree
    #[verifier::external_body]
    pub fn fill_from(&mut self, data: &[u8])
        requires old(self).spec_len() == data@.len(),
        ensures final(self).spec_len() == old(self).spec_len(), final(self).spec_cap() == old(self).spec_cap(),
    {
        unimplemented!()
    }
    // buffer.as_slice().to_vec()
    #[verifier::external_body]
    pub fn to_vec_copy(&self) -> (r: Vec<u8>)
        ensures r@.len() == self.spec_len(),
    {
        unimplemented!()
    }
}
pub struct DiskIO {
    pub fd: i32,
    pub _use_direct_io: bool,
}
impl DiskIO {
    #[verifier::external_body]
    pub fn ensure_writable(&self) -> (r: Result<()>) { unimplemented!() }
}
// unsafe { libc::pread(fd, buffer.as_mut_ptr() as *mut c_void, count, offset) } into a Vec
#[verifier::external_body]
pub fn pread_vec(fd: i32, buffer: &mut Vec<u8>, count: usize, offset: i64) -> (r: isize)
    requires count <= old(buffer)@.len(),
    ensures final(buffer)@.len() == old(buffer)@.len(), -1 <= r <= count,
{
    unimplemented!()
}
// the same into an AlignedBuffer
#[verifier::external_body]
pub fn pread_aligned(fd: i32, buffer: &mut AlignedBuffer, count: usize, offset: i64) -> (r: isize)
    requires count <= old(buffer).spec_len(),
    ensures final(buffer).spec_len() == old(buffer).spec_len(), final(buffer).spec_cap() == old(buffer).spec_cap(), -1 <= r <= count,
{
    unimplemented!()
}
// unsafe { libc::pwrite(fd, data.as_ptr() as *const c_void, count, offset) } from a slice
#[verifier::external_body]
pub fn pwrite_slice(fd: i32, data: &[u8], count: usize, offset: i64) -> (r: isize)
    requires count <= data@.len(),
    ensures -1 <= r <= count,
{
    unimplemented!()
}
// the same from an AlignedBuffer
#[verifier::external_body]
pub fn pwrite_aligned(fd: i32, buffer: &AlignedBuffer, count: usize, offset: i64) -> (r: isize)
    requires count <= buffer.spec_len(),
    ensures -1 <= r <= count,
{
    unimplemented!()
}
// unsafe { libc::fsync(fd) }
#[verifier::external_body]
pub fn fsync_fd(fd: i32) -> (r: i32)
    ensures r == 0 || r == -1,
{
    unimplemented!()
}
#[verifier::external_body]
pub fn io_error_last_os() -> IoErrorOpaque { unimplemented!() }
#[verifier::external_body]
pub fn io_error_eof() -> IoErrorOpaque { unimplemented!() }
// vec![0u8; n]
#[verifier::external_body]
pub fn zeroed_vec(n: usize) -> (r: Vec<u8>)
    ensures r@.len() == n, forall|i: int| 0 <= i < n ==> r@[i] == 0,
{
    unimplemented!()
}
pub fn min_usize(a: usize, b: usize) -> (r: usize)
    ensures r == (if a <= b { a } else { b }),
{
    if a <= b { a } else { b }
}
// fill_retirement_markers(scratch.as_mut_slice(), sector, remaining)   (the marker bytes: unit io_retire / Kani unit retirement_marker)
#[verifier::external_body]
pub fn fill_markers_aligned(scratch: &mut AlignedBuffer, sector: u64, remaining: usize)
    ensures final(scratch).spec_len() == old(scratch).spec_len(), final(scratch).spec_cap() == old(scratch).spec_cap(),
{
    unimplemented!()
}
