// Opaque view of the store for the recovery scan (unit scan_loop, C17 / C11 / C04).
// Everything here is TRUSTED surface (A12): the scan's own arithmetic, indexing, window handling,
// branch structure and termination are what is verified; the index structures, statistics counters,
// locks and the device are handles whose operations cannot panic on the scan's account.
//
// Field names and scalar types are those of the real `FeoxStore` / `Record` / `Statistics`; a rename in
// /repo makes the unit fail to compile (= undecided), never pass silently.

pub enum Ordering { Relaxed, Release, Acquire, AcqRel, SeqCst }

#[verifier::external_body]
pub struct AtomicU64 { _p: () }
impl AtomicU64 {
    #[verifier::external_body]
    pub fn store(&self, v: u64, o: Ordering) { unimplemented!() }
    #[verifier::external_body]
    pub fn load(&self, o: Ordering) -> u64 { unimplemented!() }
    // std atomics wrap on overflow: no precondition
    #[verifier::external_body]
    pub fn fetch_add(&self, v: u64, o: Ordering) -> u64 { unimplemented!() }
    #[verifier::external_body]
    pub fn fetch_sub(&self, v: u64, o: Ordering) -> u64 { unimplemented!() }
}

#[verifier::external_body]
pub struct AtomicUsize { _p: () }
impl AtomicUsize {
    #[verifier::external_body]
    pub fn fetch_add(&self, v: usize, o: Ordering) -> usize { unimplemented!() }
    #[verifier::external_body]
    pub fn fetch_sub(&self, v: usize, o: Ordering) -> usize { unimplemented!() }
}

#[verifier::external_body]
pub struct AtomicU32 { _p: () }
impl AtomicU32 {
    #[verifier::external_body]
    pub fn fetch_add(&self, v: u32, o: Ordering) -> u32 { unimplemented!() }
}

pub struct Statistics {
    pub record_count: AtomicU32,
    pub memory_usage: AtomicUsize,
    pub disk_usage: AtomicU64,
}

// A cell of a record the scan still OWNS (`let mut record`): `store` through the owner is visible to the
// proof; `load` through a shared Arc returns the stored value.
#[verifier::external_body]
pub struct OwnedCell { _p: () }
impl OwnedCell {
    pub uninterp spec fn val(&self) -> u64;
    #[verifier::external_body]
    pub fn store(&mut self, v: u64, o: Ordering)
        ensures final(self).val() == v,
    {
        unimplemented!()
    }
    #[verifier::external_body]
    pub fn load(&self, o: Ordering) -> (v: u64)
        ensures v == self.val(),
    {
        unimplemented!()
    }
}

// ---- records as the scan builds and reads them
pub struct Record {
    pub key: Vec<u8>,
    pub value_len: usize,
    pub timestamp: u64,
    pub sector: OwnedCell,
    pub ttl_expiry: OwnedCell,
}

impl Record {
    #[verifier::external_body]
    pub fn new(key: Vec<u8>, value: Vec<u8>, timestamp: u64) -> (r: Record)
        ensures r.key@ == key@, r.timestamp == timestamp, r.value_len == value@.len(),
    {
        unimplemented!()
    }

    #[verifier::external_body]
    pub fn clear_value(&mut self)
        ensures
            final(self).key == old(self).key,
            final(self).value_len == old(self).value_len,
            final(self).timestamp == old(self).timestamp,
            final(self).sector == old(self).sector,
            final(self).ttl_expiry == old(self).ttl_expiry,
    {
        unimplemented!()
    }
}

// a record the index may hold: what every insertion site establishes (MAX_KEY_SIZE / MAX_VALUE_SIZE)
pub open spec fn record_bounded(r: &Record) -> bool {
    r.key@.len() <= 0x10_0000 && r.value_len <= 0x1000_0000
}

#[verifier::external_body]
pub struct TreeSlot { _p: () }
impl TreeSlot {
    #[verifier::external_body]
    pub fn new(record: Arc<Record>) -> TreeSlot { unimplemented!() }
}

#[verifier::external_body]
pub struct SkipTree { _p: () }
impl SkipTree {
    #[verifier::external_body]
    pub fn insert(&self, key: Vec<u8>, slot: TreeSlot) { unimplemented!() }
}

// The hash index. Table invariant (trusted): it only ever returns records that went in through
// `upsert`, whose precondition is `record_bounded` - recovery runs single-threaded on a fresh store.
#[verifier::external_body]
pub struct HashIndex { _p: () }
impl HashIndex {
    // self.hash_table.read(&key, |_, record| Arc::clone(record))   (rule R-hread)
    #[verifier::external_body]
    pub fn read_arc(&self, key: &Vec<u8>) -> (r: Option<Arc<Record>>)
        ensures r matches Some(a) ==> record_bounded(&*a),
    {
        unimplemented!()
    }

    #[verifier::external_body]
    pub fn upsert(&self, key: Vec<u8>, record: Arc<Record>)
        requires record_bounded(&*record),
    {
        unimplemented!()
    }

    // scc::HashMap::scan: runs the closure on every entry (which entries there are is not modelled)
    #[verifier::external_body]
    pub fn scan<F: Fn(&Vec<u8>, &Arc<Record>)>(&self, f: F) { unimplemented!() }
}

#[verifier::external_body]
pub struct VersionClock { _p: () }
impl VersionClock {
    #[verifier::external_body]
    pub fn observe(&self, key: &Vec<u8>, timestamp: u64) { unimplemented!() }
}

// free-space manager behind its lock: release_sectors is total (it returns Err on a bad range;
// verified in unit free_space)
#[verifier::external_body]
pub struct FreeSpaceLock { _p: () }
#[verifier::external_body]
pub struct FreeSpaceGuard { _p: () }
impl FreeSpaceLock {
    #[verifier::external_body]
    pub fn write(&self) -> FreeSpaceGuard { unimplemented!() }
}
impl FreeSpaceGuard {
    #[verifier::external_body]
    pub fn release_sectors(&self, start: u64, count: u64) -> Result<()> { unimplemented!() }
}

// ---- the device
#[verifier::external_body]
pub struct DiskIO { _p: () }

impl DiskIO {
    #[verifier::external_body]
    pub fn read_sectors_sync(&self, sector: u64, count: u64) -> (r: Result<Vec<u8>>)
        ensures r matches Ok(v) ==> v@.len() == count as int * 4096,
    {
        unimplemented!()
    }

    // decoded journal (unit journal verifies decode); nothing is assumed about the entries
    #[verifier::external_body]
    pub fn read_allocation_journal(&self, total_sectors: u64) -> Result<Vec<(u64, usize)>> { unimplemented!() }

    #[verifier::external_body]
    pub fn replay_allocation_journal(&self, extents: &[(u64, usize)]) -> Result<()> { unimplemented!() }

    #[verifier::external_body]
    pub fn retire_extents(&self, extents: &[(u64, usize)]) -> Result<()> { unimplemented!() }
}

#[verifier::external_body]
pub struct DiskLock { _p: () }
impl DiskLock {
    #[verifier::external_body]
    pub fn read(&self) -> &DiskIO { unimplemented!() }
}

// ---- record formats: one handle standing for FormatV1 / FormatV2 (contracts verified per format in
// units record_codec / record_encoder_vx; here the disjunction)
#[verifier::external_body]
pub struct FormatAny { _p: () }
impl FormatAny {
    // bytes of an extent head other than key and value: 22 (v1) or 30 (v2/v3)
    pub uninterp spec fn fixed(&self) -> nat;

    #[verifier::external_body]
    pub fn parse_record(&self, data: &[u8]) -> Option<(Vec<u8>, usize, u64, u64)> { unimplemented!() }

    #[verifier::external_body]
    pub fn total_size(&self, key_len: usize, value_len: usize) -> (r: usize)
        requires key_len <= 0x10_0000, value_len <= 0x1000_0000,
        ensures r == self.fixed() + key_len + value_len, self.fixed() == 22 || self.fixed() == 30,
    {
        unimplemented!()
    }
}

// documented extent length of a record: total size rounded up to whole blocks
pub open spec fn blocks_of(format: &FormatAny, key_len: int, value_len: int) -> int {
    (format.fixed() + key_len + value_len + 4095) / 4096
}

#[verifier::external_body]
pub fn get_format_ref(version: u32) -> &'static FormatAny { unimplemented!() }

#[verifier::external_body]
pub fn header_range(format: &FormatAny, data: &[u8]) -> Option<(usize, usize)> { unimplemented!() }

#[verifier::external_body]
pub fn crc32c(seed: u32, data: &[u8]) -> u32 { unimplemented!() }

// format.rs retirement_marker_token reads marker[..16] and marker[18]
#[verifier::external_body]
pub fn retirement_marker_token(sector: u64, marker: &[u8]) -> u16
    requires marker@.len() >= 19,
{
    unimplemented!()
}

pub struct FeoxStore {
    pub hash_table: HashIndex,
    pub tree: SkipTree,
    pub stats: Statistics,
    pub version_clock: VersionClock,
    pub free_space: FreeSpaceLock,
    pub format_version: u32,
    pub allow_ambiguous_legacy_recovery: bool,
    pub ambiguous_legacy_markers: u64,
    pub read_only: bool,
    pub memory_only: bool,
    pub device_size: u64,
    pub disk_io: Option<DiskLock>,
    pub enable_ttl: bool,
}

impl FeoxStore {
    #[verifier::external_body]
    pub fn get_timestamp_pub(&self) -> u64 { unimplemented!() }

    // operations.rs calculate_record_size: fixed overhead + key + value (Kani unit memory_reservation)
    #[verifier::external_body]
    pub fn calculate_record_size(&self, key_len: usize, value_len: usize) -> (n: usize)
        ensures (key_len <= 0x10_0000 && value_len <= 0x1000_0000) ==> n as int == rec_overhead() + key_len + value_len,
    {
        unimplemented!()
    }

    #[verifier::external_body]
    pub fn note_ttl_transition(&self, old: u64, new: u64) { unimplemented!() }

}

pub uninterp spec fn rec_overhead() -> int;

// ---- small std shims
pub trait TryUsize: Sized {
    spec fn as_nat_u(self) -> nat;
    fn try_usize(self) -> (r: Option<usize>)
        ensures r == Some(self.as_nat_u() as usize), self.as_nat_u() <= usize::MAX;
}

impl TryUsize for u64 {
    open spec fn as_nat_u(self) -> nat { self as nat }
    #[verifier::external_body]
    fn try_usize(self) -> (r: Option<usize>) { usize::try_from(self).ok() }
}

pub fn min_u64(a: u64, b: u64) -> (r: u64)
    ensures r == if a <= b { a } else { b },
{
    if a <= b { a } else { b }
}

// E.get(i) with a `Some(&(a, b))` pattern (rule R-getcopy): the element by value
pub fn get_copied(v: &Vec<(u64, usize)>, i: usize) -> (r: Option<(u64, usize)>)
    ensures r == (if i < v@.len() { Some(v@[i as int]) } else { None }),
{
    if i < v.len() { Some(v[i]) } else { None }
}

#[verifier::external_body]
pub fn sort_by_first(v: &mut Vec<(u64, usize)>)
    ensures final(v)@.len() == old(v)@.len(),
        // sort_unstable_by_key(|e| e.0): ascending by start sector, same elements
        forall|i: int, j: int| 0 <= i < j < final(v)@.len() ==> final(v)@[i].0 <= final(v)@[j].0,
        final(v)@.to_multiset() == old(v)@.to_multiset(),
{
    v.sort_unstable_by_key(|e| e.0)
}

// S.chunks_exact(N).enumerate().all(|(i, t)| BODY)   (rule R-chunks): BODY runs only on whole chunks
#[verifier::external_body]
pub fn chunks_all<F: Fn(usize, &[u8]) -> bool>(s: &[u8], n: usize, f: F) -> (r: bool)
    requires
        n > 0,
        forall|i: usize, t: &[u8]| (i as int) < (s@.len() as int) / (n as int) && t@.len() == n ==> #[trigger] f.requires((i, t)),
{
    s.chunks_exact(n).enumerate().all(|(i, t)| f(i, t))
}
