// Opaque surface for Record's constructors (unit record_ctor; C01 / C11 / C13: what every publish site assumes about a
// freshly built record). TRUSTED (A33): each field type's constructor yields a cell holding the given value
// (AtomicU64 / AtomicU32 / AtomicBool::new, RwLock::new, OnceLock::new = empty, AtomicLink::new = null link);
// Bytes::from(Vec) keeps the bytes; Arc::downgrade names the same generation; Vec::clone copies the key.

pub enum Ordering { Relaxed, Release, Acquire, AcqRel, SeqCst }

#[verifier::external_body]
pub struct AtomicU64 { _p: () }
impl AtomicU64 {
    pub uninterp spec fn val(&self) -> u64;
    #[verifier::external_body]
    pub fn new(v: u64) -> (r: AtomicU64)
        ensures r.val() == v,
    {
        unimplemented!()
    }
    // store through &self on a record that is still owned by its constructor: modelled by value (rule R-ctorstore)
    #[verifier::external_body]
    pub fn with_value(self, v: u64) -> (r: AtomicU64)
        ensures r.val() == v,
    {
        unimplemented!()
    }
}
#[verifier::external_body]
pub struct AtomicU32 { _p: () }
impl AtomicU32 {
    pub uninterp spec fn val(&self) -> u32;
    #[verifier::external_body]
    pub fn new(v: u32) -> (r: AtomicU32)
        ensures r.val() == v,
    {
        unimplemented!()
    }
}
#[verifier::external_body]
pub struct AtomicBool { _p: () }
impl AtomicBool {
    pub uninterp spec fn val(&self) -> bool;
    #[verifier::external_body]
    pub fn new(v: bool) -> (r: AtomicBool)
        ensures r.val() == v,
    {
        unimplemented!()
    }
}
#[verifier::external_body]
pub struct AtomicLink { _p: () }
impl AtomicLink {
    pub uninterp spec fn is_null(&self) -> bool;
    #[verifier::external_body]
    pub fn new() -> (r: AtomicLink)
        ensures r.is_null(),
    {
        unimplemented!()
    }
}
#[verifier::external_body]
pub struct Bytes { _p: () }
impl Bytes {
    pub uninterp spec fn view(&self) -> Seq<u8>;
    #[verifier::external_body]
    pub fn from(v: Vec<u8>) -> (b: Bytes)
        ensures b.view() == v@,
    {
        unimplemented!()
    }
    #[verifier::external_body]
    pub fn len(&self) -> (n: usize)
        ensures n == self.view().len(),
    {
        unimplemented!()
    }
}
// parking_lot::RwLock<Option<Bytes>>
#[verifier::external_body]
pub struct ValueLock { _p: () }
impl ValueLock {
    pub uninterp spec fn content(&self) -> Option<Seq<u8>>;
    #[verifier::external_body]
    pub fn new(v: Option<Bytes>) -> (r: ValueLock)
        ensures r.content() == (match v { Some(b) => Some(b.view()), None => None }),
    {
        unimplemented!()
    }
}
// OnceLock<Arc<Record>>
#[verifier::external_body]
pub struct SuccessorCell { _p: () }
impl SuccessorCell {
    pub uninterp spec fn is_set(&self) -> bool;
    #[verifier::external_body]
    pub fn new() -> (r: SuccessorCell)
        ensures !r.is_set(),
    {
        unimplemented!()
    }
}
// Weak<Record>: names a generation
#[verifier::external_body]
pub struct WeakRec { _p: () }
impl WeakRec {
    pub uninterp spec fn generation(&self) -> int;
}
pub uninterp spec fn arc_gen(r: &Arc<Record>) -> int;
#[verifier::external_body]
pub fn arc_downgrade(r: &Arc<Record>) -> (w: WeakRec)
    ensures w.generation() == arc_gen(r),
{
    unimplemented!()
}

pub struct Record {
    pub key: Vec<u8>,
    pub value: ValueLock,
    pub ttl_expiry: AtomicU64,
    pub timestamp: u64,
    pub value_len: usize,
    pub sector: AtomicU64,
    pub refcount: AtomicU32,
    pub key_len: u16,
    pub hash_link: AtomicLink,
    pub cache_ref_bit: AtomicU32,
    pub cache_access_time: AtomicU64,
    pub retired_at: AtomicU64,
    pub successor: SuccessorCell,
    pub value_source: Option<WeakRec>,
    pub successor_safe: AtomicBool,
    pub extent_state: AtomicU32,
}
