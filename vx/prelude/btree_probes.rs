// Shims for the BTreeMap probes that vstd does not specify (rule R-range).
// Executable bodies call the real std API; the `ensures` are the trusted part
// (A5): `range(..)` yields keys in ascending `Ord` order, `Ord` on u64 is `<`,
// `Ord` on (u64, u64) is lexicographic.
pub open spec fn lex_le(a: (u64, u64), b: (u64, u64)) -> bool {
    a.0 < b.0 || (a.0 == b.0 && a.1 <= b.1)
}

#[verifier::external_body]
pub fn btree_first_ge<'a, V>(m: &'a BTreeMap<(u64, u64), V>, lo: (u64, u64)) -> (r: Option<(&'a (u64, u64), &'a V)>)
    ensures
        match r {
            Some((k, v)) => m@.dom().contains(*k) && m@[*k] == *v && lex_le(lo, *k)
                && forall|k2: (u64, u64)| #[trigger] m@.dom().contains(k2) && lex_le(lo, k2) ==> lex_le(*k, k2),
            None => forall|k2: (u64, u64)| #[trigger] m@.dom().contains(k2) ==> !lex_le(lo, k2),
        },
{
    m.range(lo..).next()
}

#[verifier::external_body]
pub fn btree_last<'a, V>(m: &'a BTreeMap<(u64, u64), V>) -> (r: Option<(&'a (u64, u64), &'a V)>)
    ensures
        match r {
            Some((k, v)) => m@.dom().contains(*k) && m@[*k] == *v
                && forall|k2: (u64, u64)| #[trigger] m@.dom().contains(k2) ==> lex_le(k2, *k),
            None => forall|k2: (u64, u64)| !(#[trigger] m@.dom().contains(k2)),
        },
{
    m.iter().next_back()
}

#[verifier::external_body]
pub fn btree_last_lt<'a, V>(m: &'a BTreeMap<u64, V>, hi: u64) -> (r: Option<(&'a u64, &'a V)>)
    ensures
        match r {
            Some((k, v)) => m@.dom().contains(*k) && m@[*k] == *v && *k < hi
                && forall|k2: u64| #[trigger] m@.dom().contains(k2) && k2 < hi ==> k2 <= *k,
            None => forall|k2: u64| #[trigger] m@.dom().contains(k2) ==> !(k2 < hi),
        },
{
    m.range(..hi).next_back()
}

#[verifier::external_body]
pub fn btree_first_in_incl<'a, V>(m: &'a BTreeMap<u64, V>, lo: u64, hi: u64) -> (r: Option<(&'a u64, &'a V)>)
    requires
        lo <= hi,   // std panics on an inverted range
    ensures
        match r {
            Some((k, v)) => m@.dom().contains(*k) && m@[*k] == *v && lo <= *k <= hi
                && forall|k2: u64| #[trigger] m@.dom().contains(k2) && lo <= k2 <= hi ==> *k <= k2,
            None => forall|k2: u64| #[trigger] m@.dom().contains(k2) ==> !(lo <= k2 <= hi),
        },
{
    m.range(lo..=hi).next()
}
