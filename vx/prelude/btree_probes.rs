// Shims for the BTreeMap probes that vstd does not specify (rule R-range).
// Executable bodies call the real std API; the `ensures` are the trusted part
// (A5): `range(..)` yields keys in ascending `Ord` order, `Ord` on u64 is `<=`,
// `Ord` on (u64, u64) is lexicographic.
pub open spec fn lex_le(a: (u64, u64), b: (u64, u64)) -> bool {
    a.0 < b.0 || (a.0 == b.0 && a.1 <= b.1)
}

pub trait KeyOrd: Sized {
    spec fn kle(self, o: Self) -> bool;
}

impl KeyOrd for u64 {
    open spec fn kle(self, o: u64) -> bool {
        self <= o
    }
}

impl KeyOrd for (u64, u64) {
    open spec fn kle(self, o: (u64, u64)) -> bool {
        lex_le(self, o)
    }
}

// k lies in the probed range; each shim instantiates `inr`
pub open spec fn probe_first<K: KeyOrd, V>(m: Map<K, V>, inr: spec_fn(K) -> bool, r: Option<(&K, &V)>) -> bool {
    match r {
        Some((k, v)) => m.dom().contains(*k) && m[*k] == *v && inr(*k)
            && forall|k2: K| #[trigger] m.dom().contains(k2) && inr(k2) ==> (*k).kle(k2),
        None => forall|k2: K| #[trigger] m.dom().contains(k2) ==> !inr(k2),
    }
}

pub open spec fn probe_last<K: KeyOrd, V>(m: Map<K, V>, inr: spec_fn(K) -> bool, r: Option<(&K, &V)>) -> bool {
    match r {
        Some((k, v)) => m.dom().contains(*k) && m[*k] == *v && inr(*k)
            && forall|k2: K| #[trigger] m.dom().contains(k2) && inr(k2) ==> k2.kle(*k),
        None => forall|k2: K| #[trigger] m.dom().contains(k2) ==> !inr(k2),
    }
}

// lo..
#[verifier::external_body]
pub fn btree_first_ge<'a, K: KeyOrd + Ord, V>(m: &'a BTreeMap<K, V>, lo: K) -> (r: Option<(&'a K, &'a V)>)
    ensures probe_first(m@, |k: K| lo.kle(k), r),
{
    m.range(lo..).next()
}

#[verifier::external_body]
pub fn btree_last_ge<'a, K: KeyOrd + Ord, V>(m: &'a BTreeMap<K, V>, lo: K) -> (r: Option<(&'a K, &'a V)>)
    ensures probe_last(m@, |k: K| lo.kle(k), r),
{
    m.range(lo..).next_back()
}

// ..hi
#[verifier::external_body]
pub fn btree_last_lt<'a, K: KeyOrd + Ord, V>(m: &'a BTreeMap<K, V>, hi: K) -> (r: Option<(&'a K, &'a V)>)
    ensures probe_last(m@, |k: K| k.kle(hi) && k != hi, r),
{
    m.range(..hi).next_back()
}

#[verifier::external_body]
pub fn btree_first_lt<'a, K: KeyOrd + Ord, V>(m: &'a BTreeMap<K, V>, hi: K) -> (r: Option<(&'a K, &'a V)>)
    ensures probe_first(m@, |k: K| k.kle(hi) && k != hi, r),
{
    m.range(..hi).next()
}

// ..=hi
#[verifier::external_body]
pub fn btree_last_le<'a, K: KeyOrd + Ord, V>(m: &'a BTreeMap<K, V>, hi: K) -> (r: Option<(&'a K, &'a V)>)
    ensures probe_last(m@, |k: K| k.kle(hi), r),
{
    m.range(..=hi).next_back()
}

#[verifier::external_body]
pub fn btree_first_le<'a, K: KeyOrd + Ord, V>(m: &'a BTreeMap<K, V>, hi: K) -> (r: Option<(&'a K, &'a V)>)
    ensures probe_first(m@, |k: K| k.kle(hi), r),
{
    m.range(..=hi).next()
}

// lo..=hi   (std panics on an inverted range: precondition)
#[verifier::external_body]
pub fn btree_first_in_incl<'a, K: KeyOrd + Ord, V>(m: &'a BTreeMap<K, V>, lo: K, hi: K) -> (r: Option<(&'a K, &'a V)>)
    requires lo.kle(hi),
    ensures probe_first(m@, |k: K| lo.kle(k) && k.kle(hi), r),
{
    m.range(lo..=hi).next()
}

#[verifier::external_body]
pub fn btree_last_in_incl<'a, K: KeyOrd + Ord, V>(m: &'a BTreeMap<K, V>, lo: K, hi: K) -> (r: Option<(&'a K, &'a V)>)
    requires lo.kle(hi),
    ensures probe_last(m@, |k: K| lo.kle(k) && k.kle(hi), r),
{
    m.range(lo..=hi).next_back()
}

// lo..hi   (std panics when lo > hi: precondition)
#[verifier::external_body]
pub fn btree_first_in_excl<'a, K: KeyOrd + Ord, V>(m: &'a BTreeMap<K, V>, lo: K, hi: K) -> (r: Option<(&'a K, &'a V)>)
    requires lo.kle(hi),
    ensures probe_first(m@, |k: K| lo.kle(k) && k.kle(hi) && k != hi, r),
{
    m.range(lo..hi).next()
}

#[verifier::external_body]
pub fn btree_last_in_excl<'a, K: KeyOrd + Ord, V>(m: &'a BTreeMap<K, V>, lo: K, hi: K) -> (r: Option<(&'a K, &'a V)>)
    requires lo.kle(hi),
    ensures probe_last(m@, |k: K| lo.kle(k) && k.kle(hi) && k != hi, r),
{
    m.range(lo..hi).next_back()
}

// whole map
#[verifier::external_body]
pub fn btree_last<'a, K: KeyOrd + Ord, V>(m: &'a BTreeMap<K, V>) -> (r: Option<(&'a K, &'a V)>)
    ensures probe_last(m@, |k: K| true, r),
{
    m.iter().next_back()
}

#[verifier::external_body]
pub fn btree_first<'a, K: KeyOrd + Ord, V>(m: &'a BTreeMap<K, V>) -> (r: Option<(&'a K, &'a V)>)
    ensures probe_first(m@, |k: K| true, r),
{
    m.iter().next()
}
