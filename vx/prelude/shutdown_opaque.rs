// Opaque surface of the write buffer's shutdown (unit wb_shutdown; C02 / C18: workers are told to stop BEFORE they are joined, and
// every one of them is joined - so their final flush has completed when finish_shutdown returns). TRUSTED (A37): the methods take
// `&mut self` here (rule R-sigmut) so that the effect on the flag and on the handle lists can be stated; JoinHandle::join is a
// shim whose precondition says what makes it return (the thread's loop exits only on the shutdown flag); the mutexes around the
// handle lists are modelled as the lists themselves.
pub enum Ordering { Relaxed, Release, Acquire, AcqRel, SeqCst }
#[verifier::external_body]
pub struct FlagCell { _p: () }
impl FlagCell {
    pub uninterp spec fn val(&self) -> bool;
    #[verifier::external_body]
    pub fn store(&mut self, v: bool, o: Ordering)
        ensures final(self).val() == v,
    {
        unimplemented!()
    }
}
#[verifier::external_body]
pub struct JoinHandleH { _p: () }
// handle.join() on a worker / coordinator thread: returns only if that thread's loop ends, which it does only on the flag
#[verifier::external_body]
pub fn join_thread(handle: JoinHandleH, flag: &FlagCell) -> (r: std::result::Result<(), ()>)
    requires flag.val(),
{
    unimplemented!()
}
pub struct WriteBuffer {
    pub shutdown: FlagCell,
    pub periodic_flush_handle: Option<JoinHandleH>,
    pub worker_handles: Vec<JoinHandleH>,
}
// self.periodic_flush_handle.lock().take()
pub fn take_slot(h: &mut Option<JoinHandleH>) -> (r: Option<JoinHandleH>)
    ensures r == *old(h), *final(h) is None,
{
    h.take()
}
// std::mem::take(&mut *self.worker_handles.lock())
#[verifier::external_body]
pub fn take_handles(v: &mut Vec<JoinHandleH>) -> (r: Vec<JoinHandleH>)
    ensures r@ == old(v)@, final(v)@.len() == 0,
{
    std::mem::take(v)
}
// `for X in V {` over a Vec moved in (rule R-forvec)
#[verifier::external_body]
#[verifier::reject_recursive_types(T)]
pub struct VecQueue<T> { it: std::vec::IntoIter<T> }
impl<T> VecQueue<T> {
    pub uninterp spec fn rest(&self) -> Seq<T>;
    #[verifier::external_body]
    pub fn new(v: Vec<T>) -> (q: VecQueue<T>)
        ensures q.rest() == v@,
    {
        VecQueue { it: v.into_iter() }
    }
    #[verifier::external_body]
    pub fn pop_front(&mut self) -> (r: Option<T>)
        ensures
            old(self).rest().len() == 0 ==> r is None && final(self).rest() == old(self).rest(),
            old(self).rest().len() > 0 ==> r == Some(old(self).rest()[0]) && final(self).rest() == old(self).rest().drop_first(),
    {
        self.it.next()
    }
}
