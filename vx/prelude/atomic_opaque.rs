// Additions to upd_opaque.rs for the read-modify-write calls (unit atomic_ops; C01 / C07 sequential kernel / C11 / C12 / C13).
// TRUSTED (A19): resolve_value is the function verified in unit read_disk (here: the bytes it returns were
// served for the generation it returns - an uninterpreted relation); replace_record_if_current and
// retire_expired_if_current are the functions verified in unit update_path; apply_json_patch is opaque.

// bytes that were served for exactly this generation (unit read_disk: served_for)
pub uninterp spec fn served(r: &Arc<Record>, v: Seq<u8>) -> bool;
pub uninterp spec fn clock_next_val(key: Seq<u8>, wall: u64) -> u64;
// the 8-byte little-endian counter value of a byte string
pub uninterp spec fn counter_of(v: Seq<u8>) -> i64;

impl Bytes {
    #[verifier::external_body]
    pub fn to_vec(&self) -> (v: Vec<u8>)
        ensures v@ == self.view(),
    {
        unimplemented!()
    }
}
// value.as_ref() != expected   (rule R-seq)
#[verifier::external_body]
pub fn bytes_ne(a: &Bytes, b: &[u8]) -> (r: bool)
    ensures r == (a.view() != b@),
{
    unimplemented!()
}
// i64::from_le_bytes(value.as_ref().try_into().map_err(|_| FeoxError::InvalidNumericValue)?)   (rule R-le)
#[verifier::external_body]
pub fn i64_from_le8(value: &Bytes) -> (r: Result<i64>)
    ensures
        value.view().len() == 8 ==> (r matches Ok(n) && n == counter_of(value.view())),
        r is Err ==> value.view().len() != 8,
{
    unimplemented!()
}
pub fn sat_add_i64(a: i64, b: i64) -> (r: i64)
    ensures r as int == (if (a as int) + (b as int) > (i64::MAX as int) { i64::MAX as int } else if (i64::MIN as int) > (a as int) + (b as int) { i64::MIN as int } else { (a as int) + (b as int) }),
{
    match a.checked_add(b) {
        Some(v) => v,
        None => if b > 0 { i64::MAX } else { i64::MIN },
    }
}
pub fn max_u64(a: u64, b: u64) -> (r: u64)
    ensures r == (if a >= b { a } else { b }),
{
    if a >= b { a } else { b }
}
pub fn sat_add_u64(a: u64, b: u64) -> (r: u64)
    ensures r as int == (if a as int + b as int > u64::MAX as int { u64::MAX as int } else { a as int + b as int }),
{
    if a > u64::MAX - b { u64::MAX } else { a + b }
}
pub fn sat_mul_u64(a: u64, b: u64) -> (r: u64)
    ensures r as int == (if a as int * b as int > u64::MAX as int { u64::MAX as int } else { a as int * b as int }),
{
    match a.checked_mul(b) { Some(v) => v, None => u64::MAX }
}

// bytes::BytesMut as used by counter_record: an append-only buffer
#[verifier::external_body]
pub struct BytesMut { _p: () }
impl BytesMut {
    pub uninterp spec fn view(&self) -> Seq<u8>;
    #[verifier::external_body]
    pub fn with_capacity(n: usize) -> (b: BytesMut)
        ensures b.view() == Seq::<u8>::empty(),
    {
        unimplemented!()
    }
    // appends the 8 little-endian bytes of v
    #[verifier::external_body]
    pub fn put_i64_le(&mut self, v: i64)
        ensures final(self).view().len() == old(self).view().len() + 8,
            old(self).view().len() == 0 ==> counter_of(final(self).view()) == v,
    {
        unimplemented!()
    }
    #[verifier::external_body]
    pub fn freeze(self) -> (b: Bytes)
        ensures b.view() == self.view(),
    {
        unimplemented!()
    }
}
#[verifier::external_body]
pub fn size_of_i64() -> (n: usize)
    ensures n == 8,
{
    8
}

impl CacheH {
    // C16: the cache is populated only with bytes served for the generation it is tagged with
    #[verifier::external_body]
    pub fn insert_for_record(&self, key: Vec<u8>, value: Bytes, record: &Arc<Record>)
        requires served(record, value.view()),
    {
        unimplemented!()
    }
}

#[verifier::external_body]
pub fn apply_json_patch(document: &Bytes, patch: &[u8]) -> (r: Result<Vec<u8>>)
    ensures r matches Ok(v) ==> v@ == patched(document.view(), patch@),
{
    unimplemented!()
}
pub uninterp spec fn patched(document: Seq<u8>, patch: Seq<u8>) -> Seq<u8>;

impl FeoxStore {
    // operations.rs resolve_value (unit read_disk): the generation returned is the one the bytes were served for -
    // the caller's, or the one the index held when a stale read was re-resolved
    #[verifier::external_body]
    pub fn resolve_value(&self, key: &[u8], record: Arc<Record>) -> (r: Result<(Bytes, bool, Arc<Record>)>)
        ensures r matches Ok((v, hit, src)) ==> (served(&src, v.view()) && src.key@.len() <= 0x10_0000),
    {
        unimplemented!()
    }
    #[verifier::external_body]
    pub fn get_timestamp(&self, key: &[u8]) -> (t: u64)
        ensures t == clock_next_val(key@, wall_now()),
    {
        unimplemented!()
    }
    #[verifier::external_body]
    pub fn validate_new_key(&self, key: &[u8]) -> (r: Result<()>)
        ensures r is Ok ==> 1 <= key@.len() <= 0x10_0000,
    {
        unimplemented!()
    }
    #[verifier::external_body]
    pub fn ensure_ttl_write_supported(&self) -> (r: Result<()>)
        ensures r is Err <==> (!self.memory_only && self.format_version == 1),
    {
        unimplemented!()
    }
    // unit update_path: removes the key only if the index still holds `expected` and it is strictly expired
    // C11: expiry is judged against the WALL CLOCK - never against a version number or an explicit timestamp
    #[verifier::external_body]
    pub fn retire_expired_if_current(&self, key: &[u8], expected: &Arc<Record>, now: u64) -> Result<bool>
        requires now == wall_now(),
    {
        unimplemented!()
    }
    // unit update_path: swaps only on the generation `expected`, with a strictly newer timestamp
    #[verifier::external_body]
    pub fn replace_record_if_current(&self, key: &[u8], expected: &Arc<Record>, new_value: &[u8], timestamp: (u64, bool), ttl_seconds: u64, start: InstantH) -> Result<bool>
        // C01: the swap helper validates nothing itself - whatever value reaches it has passed the callers' size validation (validate_key_value) or is a fixed-size counter
        requires 1 <= new_value@.len() <= 0x1000_0000,
    {
        unimplemented!()
    }
}
