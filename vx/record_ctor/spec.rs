// a record as every constructor must leave it, apart from the fields the constructor is about
pub open spec fn fresh(r: &Record) -> bool {
    // not on disk yet, live (one reference), never retired, no successor, not known durable, no reader / retirement state
    r.sector.val() == 0 && r.refcount.val() == 1 && r.retired_at.val() == 0 && !r.successor.is_set()
        && !r.successor_safe.val() && r.extent_state.val() == 0 && r.hash_link.is_null()
}
