UNIT = dict(
    sources={"k": "src/core/record.rs"},
    uses=["use std::sync::Arc;"],
    prelude=["ctor_opaque.rs"],
    rules=["ctormisc"],
    inline_helpers=False,
    auto_fns=False,
    forbid=[r"parking_lot", r"OnceLock", r"\.\s*store\s*\("],
    items=[
        ("impl", "k", "Record", ["new", "new_with_timestamp", "new_with_timestamp_ttl", "new_from_bytes", "new_from_bytes_with_ttl", "new_deferred_with_ttl"], {"header": "impl Record {"}),
    ],
    contracts="contracts.vc",
    spec=["spec.rs"],
)
