FNS = ["new", "initialize", "set_device_size", "allocate_sectors", "release_sectors",
       "try_merge_spaces", "insert_free_space", "is_valid_free_space", "is_valid_sector_range",
       "update_fragmentation", "get_total_free", "get_fragmentation", "get_free_chunks_count",
       "get_largest_free_chunk"]

UNIT = dict(
    sources={"fs": "src/storage/free_space.rs", "c": "src/constants.rs", "e": "src/error.rs"},
    uses=["use std::collections::BTreeMap;", "use vstd::set_lib::*;"],
    prelude=["btree_probes.rs", "divceil64.rs"],
    rules=["range", "omap", "ofilt", "divceil_u64"],
    items=[
        ("error_enum", "e"),
        ("const", "c", "FEOX_BLOCK_SIZE"),
        ("const", "c", "FEOX_DATA_START_BLOCK"),
        ("const", "c", "MAX_DEVICE_SIZE"),
        ("type", "fs", "FreeSpace"),
        # stands in for #[derive(Clone)] on a struct of two u64 (dropped attribute)
        ("raw", "impl Clone for FreeSpace {\n    fn clone(&self) -> (r: Self)\n        ensures r == *self,\n    {\n        FreeSpace { start: self.start, size: self.size }\n    }\n}"),
        ("type", "fs", "FreeSpaceManager"),
        ("impl", "fs", "FreeSpaceManager", FNS),
    ],
    contracts="contracts.vc",
    spec=["spec.rs"],
)
