// Independent statement of C06 for FreeSpaceManager (ours, not extracted).
//
// View: the set of free block numbers. Invariant wf(): the two trees describe
// the same, fully coalesced, in-bounds set of runs and the running total is
// 4096 * |free set|.

pub open spec fn covered(m: Map<u64, FreeSpace>, b: int) -> bool {
    exists|k: u64| #[trigger] m.dom().contains(k) && k as int <= b < k as int + m[k].size as int
}

pub open spec fn fs(m: Map<u64, FreeSpace>, n: int) -> Set<int> {
    set_int_range(16, n).filter(|b: int| covered(m, b))
}

pub open spec fn runs_ok(m: Map<u64, FreeSpace>, n: int) -> bool {
    forall|k: u64| #[trigger] m.dom().contains(k) ==> m[k].start == k && m[k].size >= 1 && 16 <= k && k as int + m[k].size as int <= n
}

// disjoint AND non-adjacent: every stored run is a maximal run of the free set
pub open spec fn coalesced(m: Map<u64, FreeSpace>) -> bool {
    forall|k1: u64, k2: u64| #[trigger] m.dom().contains(k1) && #[trigger] m.dom().contains(k2) && k1 < k2
        ==> (k1 as int + m[k1].size as int) < k2 as int
}

pub open spec fn views_agree(bs: Map<(u64, u64), FreeSpace>, m: Map<u64, FreeSpace>) -> bool {
    &&& forall|key: (u64, u64)| #[trigger] bs.dom().contains(key)
            ==> m.dom().contains(key.1) && m[key.1].size == key.0 && bs[key] == m[key.1]
    &&& forall|st: u64| #[trigger] m.dom().contains(st) ==> bs.dom().contains((m[st].size, st))
}

// the range [a, b) of block numbers
pub open spec fn blocks(a: int, b: int) -> Set<int> {
    set_int_range(a, b)
}

impl FreeSpaceManager {
    pub closed spec fn nblocks(&self) -> int {
        self.device_size as int / 4096
    }

    pub closed spec fn runs(&self) -> Map<u64, FreeSpace> {
        self.by_start@
    }

    pub closed spec fn dev_size(&self) -> u64 {
        self.device_size
    }

    pub closed spec fn free_set(&self) -> Set<int> {
        fs(self.by_start@, self.nblocks())
    }

    pub closed spec fn is_new(&self) -> bool {
        self.by_start@ == Map::<u64, FreeSpace>::empty() && self.by_size@ == Map::<(u64, u64), FreeSpace>::empty()
            && self.total_free == 0 && self.fragmentation_percent == 0
    }

    pub closed spec fn wf(&self) -> bool {
        &&& 0 < self.device_size <= MAX_DEVICE_SIZE
        &&& runs_ok(self.by_start@, self.nblocks())
        &&& coalesced(self.by_start@)
        &&& views_agree(self.by_size@, self.by_start@)
        &&& self.total_free as int == 4096 * self.free_set().len()
        &&& self.fragmentation_percent <= 100
    }

    pub closed spec fn same_state(&self, o: &FreeSpaceManager) -> bool {
        self.by_start@ == o.by_start@ && self.by_size@ == o.by_size@ && self.total_free == o.total_free
            && self.device_size == o.device_size && self.fragmentation_percent == o.fragmentation_percent
    }

    // a run that may be inserted: in bounds, and neither overlapping nor touching any stored run
    pub closed spec fn insertable(&self, s: FreeSpace) -> bool {
        &&& s.size >= 1 && 16 <= s.start && s.start as int + s.size as int <= self.nblocks()
        &&& forall|b: int| s.start as int - 1 <= b <= s.start as int + s.size as int ==> !covered(self.by_start@, b)
    }

    pub closed spec fn no_run_of(&self, n: int) -> bool {
        forall|k: u64| #[trigger] self.by_start@.dom().contains(k) ==> (self.by_start@[k].size as int) < n
    }

    pub closed spec fn run_count(&self) -> int {
        self.by_start@.dom().len() as int
    }
}

// ---------------------------------------------------------------- lemmas
// L1: the free set lies inside the data area
proof fn lemma_fs_bounds(m: Map<u64, FreeSpace>, n: int)
    ensures
        fs(m, n).subset_of(set_int_range(16, n)),
        16 <= n ==> fs(m, n).len() <= n - 16,
        n < 16 ==> fs(m, n).len() == 0,
{
    if 16 <= n {
        lemma_int_range(16, n);
    }
    lemma_len_subset(fs(m, n), set_int_range(16, n));
    if n < 16 {
        assert(set_int_range(16, n) =~= Set::<int>::empty());
    }
}

// L2: inserting a run that is disjoint from the free set adds exactly its blocks
proof fn lemma_fs_insert(m: Map<u64, FreeSpace>, n: int, s: u64, run: FreeSpace)
    requires
        16 <= s,
        s as int + run.size as int <= n,
        run.start == s,
        !m.dom().contains(s),
        forall|b: int| s as int <= b < s as int + run.size as int ==> !covered(m, b),
    ensures
        fs(m.insert(s, run), n) =~= fs(m, n).union(blocks(s as int, s as int + run.size as int)),
        fs(m.insert(s, run), n).len() == fs(m, n).len() + run.size,
        forall|b: int| covered(m.insert(s, run), b) <==> (covered(m, b) || s as int <= b < s as int + run.size as int),
{
    let m2 = m.insert(s, run);
    assert forall|b: int| covered(m2, b) <==> (covered(m, b) || s as int <= b < s as int + run.size as int) by {
        if covered(m, b) {
            let k = choose|k: u64| #[trigger] m.dom().contains(k) && k as int <= b < k as int + m[k].size as int;
            assert(m2.dom().contains(k));
            assert(k != s);
        }
        if s as int <= b < s as int + run.size as int {
            assert(m2.dom().contains(s));
        }
        if covered(m2, b) {
            let k = choose|k: u64| #[trigger] m2.dom().contains(k) && k as int <= b < k as int + m2[k].size as int;
            if k != s {
                assert(m.dom().contains(k));
            }
        }
    }
    lemma_fs_bounds(m, n);
    lemma_int_range(s as int, s as int + run.size as int);
    assert(fs(m, n).disjoint(blocks(s as int, s as int + run.size as int)));
    lemma_set_disjoint_lens(fs(m, n), blocks(s as int, s as int + run.size as int));
}

// L3: removing a stored run (runs pairwise disjoint) removes exactly its blocks
proof fn lemma_fs_remove(m: Map<u64, FreeSpace>, n: int, s: u64)
    requires
        runs_ok(m, n),
        coalesced(m),
        m.dom().contains(s),
    ensures
        fs(m.remove(s), n) =~= fs(m, n).difference(blocks(s as int, s as int + m[s].size as int)),
        fs(m.remove(s), n).len() + m[s].size == fs(m, n).len(),
        blocks(s as int, s as int + m[s].size as int).subset_of(fs(m, n)),
        forall|b: int| covered(m.remove(s), b) <==> (covered(m, b) && !(s as int <= b < s as int + m[s].size as int)),
        runs_ok(m.remove(s), n),
        coalesced(m.remove(s)),
{
    let m2 = m.remove(s);
    let run = m[s];
    assert forall|b: int| covered(m2, b) <==> (covered(m, b) && !(s as int <= b < s as int + run.size as int)) by {
        if covered(m2, b) {
            let k = choose|k: u64| #[trigger] m2.dom().contains(k) && k as int <= b < k as int + m2[k].size as int;
            assert(m.dom().contains(k));
            assert(k != s);
            // disjointness of k's run and s's run
            if k < s {
                assert((k as int + m[k].size as int) < s as int);
            } else {
                assert((s as int + m[s].size as int) < k as int);
            }
        }
        if covered(m, b) && !(s as int <= b < s as int + run.size as int) {
            let k = choose|k: u64| #[trigger] m.dom().contains(k) && k as int <= b < k as int + m[k].size as int;
            assert(k != s);
            assert(m2.dom().contains(k));
        }
    }
    assert forall|b: int| s as int <= b < s as int + run.size as int implies covered(m, b) by {
        assert(m.dom().contains(s));
    }
    let r = blocks(s as int, s as int + run.size as int);
    lemma_fs_bounds(m, n);
    lemma_fs_bounds(m2, n);
    lemma_int_range(s as int, s as int + run.size as int);
    assert(r.subset_of(fs(m, n)));
    assert(fs(m2, n) =~= fs(m, n).difference(r));
    assert(fs(m2, n).disjoint(r));
    lemma_set_disjoint_lens(fs(m2, n), r);
    assert(fs(m2, n).union(r) =~= fs(m, n));
}

// a stored run is a subset of the free set, hence no longer than it
proof fn lemma_run_le_total(m: Map<u64, FreeSpace>, n: int, s: u64)
    requires
        runs_ok(m, n),
        m.dom().contains(s),
    ensures
        m[s].size <= fs(m, n).len(),
        fs(m, n).len() <= n - 16,
        16 <= n,
{
    let r = blocks(s as int, s as int + m[s].size as int);
    assert forall|b: int| r.contains(b) implies fs(m, n).contains(b) by {
        assert(m.dom().contains(s));
    }
    lemma_fs_bounds(m, n);
    lemma_int_range(s as int, s as int + m[s].size as int);
    lemma_len_subset(r, fs(m, n));
}

// L4: under the invariant a block is free iff the greatest start <= b covers it
proof fn lemma_pred_decides(m: Map<u64, FreeSpace>, n: int, b: int, p: u64)
    requires
        runs_ok(m, n),
        coalesced(m),
        m.dom().contains(p),
        p as int <= b,
        forall|k: u64| #[trigger] m.dom().contains(k) && k as int <= b ==> k <= p,
    ensures
        covered(m, b) <==> b < p as int + m[p].size as int,
{
    if covered(m, b) {
        let k = choose|k: u64| #[trigger] m.dom().contains(k) && k as int <= b < k as int + m[k].size as int;
        if k != p {
            assert(k < p);
            assert((k as int + m[k].size as int) < p as int);
        }
    }
}

// the empty map covers nothing
proof fn lemma_fs_empty(n: int)
    ensures
        fs(Map::<u64, FreeSpace>::empty(), n) =~= Set::<int>::empty(),
        fs(Map::<u64, FreeSpace>::empty(), n).len() == 0,
        forall|b: int| !covered(Map::<u64, FreeSpace>::empty(), b),
{
    assert forall|b: int| !covered(Map::<u64, FreeSpace>::empty(), b) by {}
}

// L8 (C05 clause): a fully free device is the fresh single-run state
proof fn lemma_full_is_single_run(m: Map<u64, FreeSpace>, n: int)
    requires
        runs_ok(m, n),
        coalesced(m),
        16 < n,
        fs(m, n) =~= blocks(16, n),
    ensures
        m.dom() =~= set![16u64],
        m[16u64].size as int == n - 16,
{
    // block 16 is covered by some run k; k == 16 because keys are >= 16
    assert(fs(m, n).contains(16));
    let k = choose|k: u64| #[trigger] m.dom().contains(k) && k as int <= 16 < k as int + m[k].size as int;
    assert(k == 16);
    // the run at 16 must extend to n: otherwise block e = 16+size is free and covered by a
    // run k2 with k2 <= e; k2 > 16 gives adjacency/overlap with run 16, contradiction
    let e = 16 + m[16u64].size as int;
    if e < n {
        assert(fs(m, n).contains(e));
        let k2 = choose|k2: u64| #[trigger] m.dom().contains(k2) && k2 as int <= e < k2 as int + m[k2].size as int;
        if k2 > 16 {
            assert(e < k2 as int);
        }
        assert(false);
    }
    assert forall|k3: u64| m.dom().contains(k3) implies k3 == 16 by {
        if k3 > 16 {
            assert(e < k3 as int);
        }
    }
}

// every stored run is a maximal run of the free set ("all adjacent runs merged")
proof fn lemma_runs_are_maximal(m: Map<u64, FreeSpace>, n: int, k: u64)
    requires
        runs_ok(m, n),
        coalesced(m),
        m.dom().contains(k),
    ensures
        blocks(k as int, k as int + m[k].size as int).subset_of(fs(m, n)),
        !fs(m, n).contains(k as int - 1),
        !fs(m, n).contains(k as int + m[k].size as int),
{
    assert forall|b: int| k as int <= b < k as int + m[k].size as int implies fs(m, n).contains(b) by {
        assert(m.dom().contains(k));
    }
    if covered(m, k as int - 1) {
        let j = choose|j: u64| #[trigger] m.dom().contains(j) && j as int <= k as int - 1 < j as int + m[j].size as int;
        assert(j < k);
        assert((j as int + m[j].size as int) < k as int);
    }
    let e = k as int + m[k].size as int;
    if covered(m, e) {
        let j = choose|j: u64| #[trigger] m.dom().contains(j) && j as int <= e < j as int + m[j].size as int;
        if j < k {
            assert((j as int + m[j].size as int) < k as int);
        } else if j > k {
            assert(e < j as int);
        }
    }
}

// "fails only when no single free run is long enough": with all stored runs shorter
// than n there is no interval of n consecutive free blocks at all
proof fn lemma_no_run_no_interval(m: Map<u64, FreeSpace>, nb: int, n: int, a: int)
    requires
        runs_ok(m, nb),
        coalesced(m),
        n >= 1,
        forall|k: u64| #[trigger] m.dom().contains(k) ==> (m[k].size as int) < n,
        blocks(a, a + n).subset_of(fs(m, nb)),
    ensures
        false,
{
    assert(blocks(a, a + n).contains(a));
    assert(covered(m, a));
    let k = choose|k: u64| #[trigger] m.dom().contains(k) && k as int <= a < k as int + m[k].size as int;
    let e = k as int + m[k].size as int;
    // e <= a + n - 1 because size < n and k <= a ... e - k < n, so e < k + n <= a + n
    assert(a <= e - 1);
    assert(e < a + n);
    assert(blocks(a, a + n).contains(e));
    assert(fs(m, nb).contains(e));
    lemma_runs_are_maximal(m, nb, k);
}

proof fn lemma_max_device_size()
    ensures
        MAX_DEVICE_SIZE == 0x100_0000_0000u64,
{
    assert(1u64 << 40 == 0x100_0000_0000u64) by (bit_vector);
}

// state lemma: removing run k from both trees and debiting the total keeps wf
proof fn lemma_state_remove(o: FreeSpaceManager, n: FreeSpaceManager, k: u64)
    requires
        o.wf(),
        o.by_start@.dom().contains(k),
        n.by_start@ == o.by_start@.remove(k),
        n.by_size@ == o.by_size@.remove((o.by_start@[k].size, k)),
        n.total_free as int == o.total_free as int - o.by_start@[k].size as int * 4096,
        n.device_size == o.device_size,
        n.fragmentation_percent == o.fragmentation_percent,
    ensures
        n.wf(),
        n.free_set() =~= o.free_set().difference(blocks(k as int, k as int + o.by_start@[k].size as int)),
        blocks(k as int, k as int + o.by_start@[k].size as int).subset_of(o.free_set()),
        forall|b: int| covered(n.by_start@, b) <==> (covered(o.by_start@, b) && !(k as int <= b < k as int + o.by_start@[k].size as int)),
{
    lemma_fs_remove(o.by_start@, o.nblocks(), k);
    assert(views_agree(n.by_size@, n.by_start@)) by {
        assert forall|key: (u64, u64)| #[trigger] n.by_size@.dom().contains(key)
            implies n.by_start@.dom().contains(key.1) && n.by_start@[key.1].size == key.0 && n.by_size@[key] == n.by_start@[key.1] by {
            assert(o.by_size@.dom().contains(key));
        }
        assert forall|st: u64| #[trigger] n.by_start@.dom().contains(st) implies n.by_size@.dom().contains((n.by_start@[st].size, st)) by {
            assert(o.by_start@.dom().contains(st));
        }
    }
}

// state lemma: inserting an insertable run into both trees and crediting the total keeps wf
proof fn lemma_state_insert(o: FreeSpaceManager, n: FreeSpaceManager, s: FreeSpace)
    requires
        o.wf(),
        o.insertable(s),
        n.by_start@ == o.by_start@.insert(s.start, s),
        n.by_size@ == o.by_size@.insert((s.size, s.start), s),
        n.total_free as int == o.total_free as int + s.size as int * 4096,
        n.device_size == o.device_size,
        n.fragmentation_percent == o.fragmentation_percent,
    ensures
        n.wf(),
        n.free_set() =~= o.free_set().union(blocks(s.start as int, s.start as int + s.size as int)),
{
    lemma_insertable_fresh(o, s);
    lemma_fs_insert(o.by_start@, o.nblocks(), s.start, s);
    let m = o.by_start@;
    let m2 = n.by_start@;
    assert(coalesced(m2)) by {
        assert forall|k1: u64, k2: u64| #[trigger] m2.dom().contains(k1) && #[trigger] m2.dom().contains(k2) && k1 < k2
            implies (k1 as int + m2[k1].size as int) < k2 as int by {
            if k1 == s.start {
                assert(m.dom().contains(k2));
                // k2 > s.start; if k2 <= s.start + s.size then block k2 is covered by run k2 - contradiction
                if k2 as int <= s.start as int + s.size as int {
                    assert(covered(m, k2 as int));
                }
            } else if k2 == s.start {
                assert(m.dom().contains(k1));
                // k1 < s.start; if k1 + size >= s.start then block s.start - 1 is covered by run k1
                if k1 as int + m[k1].size as int >= s.start as int {
                    assert(covered(m, s.start as int - 1));
                }
            } else {
                assert(m.dom().contains(k1) && m.dom().contains(k2));
            }
        }
    }
    assert(views_agree(n.by_size@, n.by_start@)) by {
        assert forall|key: (u64, u64)| #[trigger] n.by_size@.dom().contains(key)
            implies n.by_start@.dom().contains(key.1) && n.by_start@[key.1].size == key.0 && n.by_size@[key] == n.by_start@[key.1] by {
            if key != (s.size, s.start) {
                assert(o.by_size@.dom().contains(key));
                assert(key.1 != s.start);
            }
        }
        assert forall|st: u64| #[trigger] n.by_start@.dom().contains(st) implies n.by_size@.dom().contains((n.by_start@[st].size, st)) by {
            if st != s.start {
                assert(o.by_start@.dom().contains(st));
                assert(o.by_size@.dom().contains((o.by_start@[st].size, st)));
            }
        }
    }
}

// an insertable run's start is not a stored key
proof fn lemma_insertable_fresh(o: FreeSpaceManager, s: FreeSpace)
    requires
        o.wf(),
        o.insertable(s),
    ensures
        !o.by_start@.dom().contains(s.start),
        forall|b: int| s.start as int <= b < s.start as int + s.size as int ==> !covered(o.by_start@, b),
        o.total_free as int + s.size as int * 4096 <= 4096 * (o.nblocks() - 16),
{
    if o.by_start@.dom().contains(s.start) {
        assert(covered(o.by_start@, s.start as int));
    }
    lemma_fs_insert(o.by_start@, o.nblocks(), s.start, s);
    lemma_fs_bounds(o.by_start@.insert(s.start, s), o.nblocks());
}

// bounds that make the byte arithmetic of the real code overflow-free
proof fn lemma_wf_bounds(o: FreeSpaceManager)
    requires
        o.wf(),
    ensures
        o.nblocks() <= 0x1000_0000,
        o.total_free as int <= 4096 * (o.nblocks() - 16) || (o.total_free == 0),
        o.total_free as int <= 0x100_0000_0000,
        forall|k: u64| #[trigger] o.by_start@.dom().contains(k) ==> o.by_start@[k].size as int * 4096 <= o.total_free as int
            && o.by_start@[k].size as int <= 0x1000_0000
            && o.by_start@[k].size * FEOX_BLOCK_SIZE as u64 == o.by_start@[k].size as int * 4096,
        forall|key: (u64, u64)| #[trigger] o.by_size@.dom().contains(key) ==> o.by_size@[key].size as int * 4096 <= o.total_free as int
            && o.by_size@[key].size as int <= 0x1000_0000
            && o.by_size@[key].size * FEOX_BLOCK_SIZE as u64 == o.by_size@[key].size as int * 4096,
{
    lemma_max_device_size();
    lemma_fs_bounds(o.by_start@, o.nblocks());
    assert forall|k: u64| #[trigger] o.by_start@.dom().contains(k) implies o.by_start@[k].size as int * 4096 <= o.total_free as int
        && o.by_start@[k].size as int <= 0x1000_0000
        && o.by_start@[k].size * FEOX_BLOCK_SIZE as u64 == o.by_start@[k].size as int * 4096 by {
        lemma_run_le_total(o.by_start@, o.nblocks(), k);
        lemma_mul_block(o.by_start@[k].size);
    }
    assert forall|key: (u64, u64)| #[trigger] o.by_size@.dom().contains(key) implies o.by_size@[key].size as int * 4096 <= o.total_free as int
        && o.by_size@[key].size as int <= 0x1000_0000
        && o.by_size@[key].size * FEOX_BLOCK_SIZE as u64 == o.by_size@[key].size as int * 4096 by {
        assert(o.by_start@.dom().contains(key.1));
        lemma_mul_block(o.by_size@[key].size);
    }
}

// `x * FEOX_BLOCK_SIZE as u64` is a product with a named constant; give the solver its value
proof fn lemma_mul_block(x: u64)
    requires
        x <= 0x1000_0000,
    ensures
        x * FEOX_BLOCK_SIZE as u64 == x as int * 4096,
        x * FEOX_BLOCK_SIZE as u64 <= 0x100_0000_0000,
{
    assert(x * FEOX_BLOCK_SIZE as u64 == x as int * 4096) by (nonlinear_arith)
        requires FEOX_BLOCK_SIZE == 4096;
}

