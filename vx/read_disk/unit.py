UNIT = dict(
    sources={"w": "src/storage/write_buffer.rs", "p": "src/core/store/persistence.rs", "o": "src/core/store/operations.rs", "e": "src/error.rs", "c": "src/constants.rs"},
    uses=["use std::sync::Arc;"],
    prelude=["read_opaque.rs"],
    rules=["updmisc", "readmisc", "oandthen", "divceil", "cpy", "sig_wb"],
    vec_receivers=["data"],
    forbid=[r"\.\s*(map|and_then|or_else|ok_or_else|then|filter)\s*\(", r"SystemTime", r"Bytes\s*::"],
    items=[
        ("error_enum", "e"),
        ("const", "c", "FEOX_BLOCK_SIZE"),
        ("const", "c", "STALE_READ_RETRY_LIMIT"),
        ("impl", "p", "FeoxStore", ["load_value_from_disk"], {"header": "impl FeoxStore {"}),
        ("const", "c", "SECTOR_MARKER"),
        ("fn", "w", "prepare_deferred_record_data"),
        ("impl", "o", "FeoxStore", ["resolve_record_value", "resolve_value", "resolve_value_ref", "get", "get_bytes"], {"header": "impl FeoxStore {"}),
    ],
    contracts="contracts.vc",
    spec=["spec.rs"],
)
