// `s` is reached from `r` by following `n` deferred-source links (a TTL-only rewrite points at the
// predecessor whose extent holds the value)
pub open spec fn chain_to(r: Arc<Record>, s: Arc<Record>, n: nat) -> bool
    decreases n,
{
    if n == 0 { r == s } else { rec_source(&*r) matches Some(p) && chain_to(p, s, (n - 1) as nat) }
}

pub proof fn lemma_chain_extend(r: Arc<Record>, s: Arc<Record>, n: nat, t: Arc<Record>)
    requires chain_to(r, s, n), rec_source(&*s) == Some(t),
    ensures chain_to(r, t, n + 1),
    decreases n,
{
    if n == 0 {
        assert(chain_to(t, t, 0));
    } else {
        lemma_chain_extend(rec_source(&*r)->Some_0, s, (n - 1) as nat, t);
    }
}

// the value bytes of generation `s` inside a block image `d` of format `version`
pub open spec fn value_in_block(version: u32, d: Seq<u8>, s: Arc<Record>) -> Seq<u8> {
    d.subrange(head_len(version, s.key@.len()) as int, head_len(version, s.key@.len()) + s.value_len)
}

// C08: what load_value_from_disk may hand out for generation `r`: the resident bytes of a generation on
// r's deferred-source chain, or the value bytes of a block that passed the identity check for such a generation
pub open spec fn genuine_for(version: u32, r: Arc<Record>, v: Seq<u8>) -> bool {
    exists|s: Arc<Record>, n: nat| #[trigger] chain_to(r, s, n) && (
        rec_resident(&*s) == Some(v)
        || exists|d: Seq<u8>| #[trigger] holds(d, &*s) && head_len(version, s.key@.len()) + s.value_len <= d.len() && v == value_in_block(version, d, s))
}

// bytes that were obtained for exactly this generation: its resident bytes, the bytes cached for it, or bytes load_value_from_disk may hand out for it
pub open spec fn served_for(r: &Arc<Record>, v: Seq<u8>) -> bool {
    rec_resident(&**r) == Some(v) || cached_value_of(r) == v || (exists|ver: u32| 1 <= ver <= 3 && #[trigger] genuine_for(ver, *r, v))
}

pub open spec fn expired_now(store: &FeoxStore, r: &Record) -> bool {
    store.enable_ttl && r.ttl_expiry.val() > 0 && wall_now() > r.ttl_expiry.val()
}
