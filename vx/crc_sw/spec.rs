// crc32c_sw against the bitwise definition of CRC-32C, for every seed and every length.
pub open spec fn table_entry_spec(i: u32) -> u32 {
    crc_bit_step(crc_bit_step(crc_bit_step(crc_bit_step(crc_bit_step(crc_bit_step(crc_bit_step(crc_bit_step(i))))))))
}

// one table-driven step equals eight bitwise steps
pub proof fn lemma_table_step(c: u32, b: u8)
    ensures table_entry_spec((c ^ (b as u32)) & 0xFF) ^ (c >> 8) == crc_byte_step(c, b),
{
    let x: u32 = c ^ (b as u32);
    assert((c >> 8) == (x >> 8)) by (bit_vector)
        requires x == c ^ (b as u32);
    lemma_steps_split(x);
}

// 8 steps of x == 8 steps of its low byte, xor x >> 8 (the CRC is linear and the high bits only shift)
pub proof fn lemma_steps_split(x: u32)
    ensures table_entry_spec(x & 0xFF) ^ (x >> 8) == table_entry_spec(x),
{
    assert(table_entry_spec(x & 0xFF) ^ (x >> 8) == table_entry_spec(x)) by (bit_vector);
}

pub proof fn lemma_crc_raw_snoc(reg: u32, s: Seq<u8>, b: u8)
    ensures crc_raw(reg, s.push(b)) == crc_byte_step(crc_raw(reg, s), b),
{
    lemma_crc_raw_append(reg, s, seq![b]);
    assert(s.push(b) =~= s + seq![b]);
    let r = crc_raw(reg, s);
    assert(seq![b].drop_first() =~= Seq::<u8>::empty());
    assert(crc_raw(r, seq![b]) == crc_raw(crc_byte_step(r, b), seq![b].drop_first()));
}
