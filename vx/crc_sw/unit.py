UNIT = dict(
    sources={"s": "src/storage/seq_token.rs"},
    uses=[],
    prelude=["crc_spec_only.rs"],
    rules=["for_ref"],
    items=[
        ("const", "s", "CRC32C_POLY"),
        # The table constant is built by a const block with loops; its CONTENTS are taken from the
        # Kani harness crc_table_is_crc32c (complete over all 256 entries): trusted here.
        ("raw", "#[verifier::external_body]\npub exec const CRC32C_TABLE: [u32; 256]\n    ensures forall|i: int| 0 <= i < 256 ==> CRC32C_TABLE[i] == table_entry_spec(i as u32),\n{\n    [0; 256]\n}"),
        ("fn", "s", "crc32c_sw"),
    ],
    contracts="contracts.vc",
    spec=["spec.rs"],
)
