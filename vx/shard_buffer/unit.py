UNIT = dict(
    sources={"w": "src/storage/write_buffer.rs", "c": "src/constants.rs", "e": "src/error.rs"},
    uses=["use std::sync::Arc;"],
    prelude=["shard_opaque.rs"],
    rules=["eprint", "shardmisc", "forvec", "sig_shard"],
    forvec=["entries"],
    inline_helpers=False,
    forbid=[r"\.\s*iter\s*\(\s*\)", r"\.\s*drain\s*\(", r"into_iter", r"debug_assert"],
    items=[
        ("error_enum", "e"),
        ("impl", "w", "ShardedWriteBuffer", ["add_entries", "drain_entries", "requeue_entries", "is_full"], {"header": "impl ShardedWriteBuffer {"}),
        ("impl", "w", "WriteBuffer", ["get_shard_id", "add_write", "add_replacement", "trigger_flush"], {"header": "impl WriteBuffer {"}),
    ],
    contracts="contracts.vc",
    spec=["spec.rs"],
)
