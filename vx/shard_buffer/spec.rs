// (no extra spec)

// ---- shard ownership (same definition as units write_batch / worker_start): worker w owns shards w, w+W, w+2W, ... ----
pub open spec fn owned(w: int, count: int, j: int) -> int { w + j * count }
pub proof fn lemma_every_shard_owned(s: int, count: int)
    requires count > 0, s >= 0,
    ensures 0 <= s % count < count, s / count >= 0, owned(s % count, count, s / count) == s,
{
    vstd::arithmetic::div_mod::lemma_fundamental_div_mod(s, count);
    vstd::arithmetic::div_mod::lemma_mod_bound(s, count);
    vstd::arithmetic::div_mod::lemma_div_pos_is_pos(s, count);
    assert(count * (s / count) == (s / count) * count) by (nonlinear_arith);
}
