UNIT = dict(
    sources={"w": "src/storage/write_buffer.rs", "c": "src/constants.rs"},
    uses=["use std::sync::Arc;"],
    prelude=["start_opaque.rs"],
    rules=["startmisc", "sig_start"],
    inline_containers=["ShardedWriteBuffer"],
    forbid=[r"\.\s*iter\s*\(\s*\)", r"into_iter", r"step_by", r"thread\s*::", r"get_mut"],
    lifts={
        "WriteBuffer::start_workers": [dict(
            call=r"let\s+periodic_handle\s*=\s*thread\s*::\s*spawn\s*\(",
            name="periodic_coordinator",
            params=[""],
            sig="fn periodic_coordinator(worker_channels: Vec<WorkerSender>, shutdown: ShutdownFlag, sharded_buffers: Arc<Vec<ShardedWriteBuffer>>, retirement_queue: RetirementQueueH)",
            replace="let periodic_handle = spawn_periodic(worker_channels, shutdown, sharded_buffers, retirement_queue)",
        )],
    },
    items=[
        ("impl", "w", "WriteBuffer", ["new", "start_workers"], {"header": "impl WriteBuffer {"}),
    ],
    contracts="contracts.vc",
    spec=["spec.rs"],
)
