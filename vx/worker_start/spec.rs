// ---- shard ownership, restated for the threads start_workers creates (same definitions as unit write_batch) ----
pub open spec fn owned(w: int, count: int, j: int) -> int { w + j * count }

// some shard of worker `start`'s stride (start, start+step, ... below the shard count) has queued entries
pub open spec fn stride_nonempty(bufs: Seq<ShardedWriteBuffer>, start: int, step: int) -> bool {
    exists|j: int| j >= 0 && owned(start, step, j) < bufs.len() && (#[trigger] bufs[owned(start, step, j)]).count.val() > 0
}

pub proof fn lemma_owned_step(w: int, count: int, j: int)
    ensures owned(w, count, j + 1) == owned(w, count, j) + count, owned(w, count, 0) == w,
{
    assert((j + 1) * count == j * count + count) by (nonlinear_arith);
}
pub proof fn lemma_owned_mono(w: int, count: int, j: int, k: int)
    requires count > 0, owned(w, count, j) < owned(w, count, k),
    ensures j < k,
{
    if j >= k {
        assert(j * count >= k * count) by (nonlinear_arith) requires j >= k, count > 0;
    }
}
// no shard of the stride below position k has queued entries
pub open spec fn stride_prefix_empty(bufs: Seq<ShardedWriteBuffer>, start: int, step: int, k: int) -> bool {
    forall|j: int| 0 <= j < k && owned(start, step, j) < bufs.len() ==> (#[trigger] bufs[owned(start, step, j)]).count.val() == 0
}

// what the coordinator thread needs: at least one worker channel (step_by(0) panics)
pub open spec fn coordinator_pre(worker_channels: Seq<WorkerSender>) -> bool {
    worker_channels.len() > 0
}

#[verifier::external_body]
pub fn spawn_worker(ctx: WorkerContext, flush_rx: WorkerReceiver) -> JoinHandleH { unimplemented!() }

// thread::spawn(move || <the coordinator closure>): may run the lifted closure, so it needs the closure's precondition
#[verifier::external_body]
pub fn spawn_periodic(worker_channels: Vec<WorkerSender>, shutdown: ShutdownFlag, sharded_buffers: Arc<Vec<ShardedWriteBuffer>>, retirement_queue: RetirementQueueH) -> (h: JoinHandleH)
    requires coordinator_pre(worker_channels@),
{
    unimplemented!()
}
