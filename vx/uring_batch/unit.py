UNIT = dict(
    sources={"i": "src/storage/io.rs", "c": "src/constants.rs", "e": "src/error.rs"},
    uses=["use vstd::pervasive::runtime_assert;"],
    prelude=["uring_opaque.rs"],
    rules=["uringmisc"],
    inline_helpers=False,
    auto_fns=False,
    forbid=[r"\.\s*iter_mut\s*\(", r"mem\s*::\s*forget", r"\.\s*completion\s*\(", r"\bdrop\s*\(\s*buffer", r"\.\s*take\s*\(\s*\)"],
    items=[
        ("error_enum", "e"),
        ("type", "i", "InFlightBuffers"),
        ("impl", "i", "InFlightBuffers", ["with_capacity", "push", "get", "mark_in_flight", "mark_unqueued", "mark_complete"], {"header": "impl<T> InFlightBuffers<T> {"}),
        ("impl", "i", "InFlightBuffers", ["drop"], {"header": "impl<T> InFlightBuffers<T> {", "trait": "Drop"}),
        ("fn", "i", "validate_write_completion"),
        ("fn", "i", "process_completions"),
    ],
    contracts="contracts.vc",
    spec=["spec.rs"],
)
