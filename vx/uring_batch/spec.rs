// ---- bit-set view of the in-flight word --------------------------------------------------------------------
pub open spec fn bit(x: u128, i: int) -> bool {
    0 <= i < 128 && (x & (1u128 << (i as u128))) != 0
}
// number of set bits below n
pub open spec fn nbits(x: u128, n: int) -> int
    decreases n,
{
    if n <= 0 { 0 } else { nbits(x, n - 1) + (if bit(x, n - 1) { 1int } else { 0int }) }
}
pub proof fn lemma_nbits_bounds(x: u128, n: int)
    requires 0 <= n,
    ensures 0 <= nbits(x, n) <= n,
    decreases n,
{
    if n > 0 { lemma_nbits_bounds(x, n - 1); }
}
pub proof fn lemma_bit_zero(i: int)
    ensures !bit(0u128, i),
{
    if 0 <= i < 128 {
        let iu = i as u128;
        assert(iu < 128 ==> (0u128 & (1u128 << iu)) == 0) by (bit_vector);
    }
}
pub proof fn lemma_nbits_zero(n: int)
    ensures nbits(0u128, n) == 0,
    decreases n,
{
    if n > 0 { lemma_nbits_zero(n - 1); lemma_bit_zero(n - 1); }
}
// clearing bit i (and nothing else) removes exactly one from the count when it was set and lies below n
pub proof fn lemma_nbits_clear(x: u128, y: u128, i: int, n: int)
    requires
        0 <= i < 128, 0 <= n <= 128,
        forall|j: int| 0 <= j < 128 ==> #[trigger] bit(y, j) == (j != i && bit(x, j)),
    ensures nbits(y, n) == nbits(x, n) - (if i < n && bit(x, i) { 1int } else { 0int }),
    decreases n,
{
    if n > 0 { lemma_nbits_clear(x, y, i, n - 1); }
}
// setting bit i (and nothing else) adds exactly one when it was clear and lies below n
pub proof fn lemma_nbits_set(x: u128, y: u128, i: int, n: int)
    requires
        0 <= i < 128, 0 <= n <= 128,
        forall|j: int| 0 <= j < 128 ==> #[trigger] bit(y, j) == (j == i || bit(x, j)),
    ensures nbits(y, n) == nbits(x, n) + (if i < n && !bit(x, i) { 1int } else { 0int }),
    decreases n,
{
    if n > 0 { lemma_nbits_set(x, y, i, n - 1); }
}
// the count depends only on the bits below n
pub proof fn lemma_nbits_ext(x: u128, y: u128, n: int)
    requires 0 <= n <= 128, forall|j: int| 0 <= j < n ==> bit(x, j) == bit(y, j),
    ensures nbits(x, n) == nbits(y, n),
    decreases n,
{
    if n > 0 { lemma_nbits_ext(x, y, n - 1); }
}
// no bit set below n  <==>  the count is zero
pub proof fn lemma_nbits_none(x: u128, n: int)
    requires 0 <= n <= 128, nbits(x, n) == 0,
    ensures forall|j: int| 0 <= j < n ==> !#[trigger] bit(x, j),
    decreases n,
{
    if n > 0 {
        lemma_nbits_bounds(x, n - 1);
        lemma_nbits_none(x, n - 1);
    }
}
pub proof fn lemma_wrap_roundtrip(base: u64, ud: u64)
    ensures base.wrapping_add(ud.wrapping_sub(base)) == ud,
{
    assert(base.wrapping_add(ud.wrapping_sub(base)) == ud) by (bit_vector);
}
pub proof fn lemma_wrap_inj(base: u64, i: u64)
    ensures base.wrapping_add(i).wrapping_sub(base) == i,
{
    assert(base.wrapping_add(i).wrapping_sub(base) == i) by (bit_vector);
}

// ---- what the property needs of the in-flight word -----------------------------------------------------------
// every submission of this chunk the kernel may still hold has its bit set (so Drop leaks its buffer), and it
// points into the buffer of its own slot
pub open spec fn kernel_covered(ring: IoUring, base: u64, n: int, in_flight: u128) -> bool {
    forall|i: int| 0 <= i < n && #[trigger] ring.holds(base.wrapping_add(i as u64)) ==> bit(in_flight, i)
}
// a completion that reports success for exactly the expected length
pub open spec fn completion_ok(res: i32, expected: usize) -> bool {
    res >= 0 && res as usize == expected
}
