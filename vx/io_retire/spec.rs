// block b lies in extent e
pub open spec fn in_extent(e: (u64, usize), b: int) -> bool {
    e.0 as int <= b < e.0 as int + e.1 as int
}
pub open spec fn ext_end(e: (u64, usize)) -> int {
    e.0 as int + e.1 as int
}
pub open spec fn covered(s: Seq<(u64, usize)>, b: int) -> bool {
    exists|i: int| 0 <= i < s.len() && in_extent(#[trigger] s[i], b)
}
// markers for `blocks` consecutive blocks starting at `sector`: block i carries marker19(sector + i, remaining - i) in its first 19 bytes
pub open spec fn markers_ok(d: Seq<u8>, sector: u64, remaining: usize, blocks: int) -> bool {
    d.len() == blocks * 4096 && forall|i: int| 0 <= i < blocks ==> #[trigger] d.subrange(i * 4096, i * 4096 + 19) == marker19((sector + i) as u64, (remaining - i) as usize)
}
// fill_retirement_markers(&mut S[..n], sector, remaining)   (rule R-subslice): contract of fill_retirement_markers on the prefix
#[verifier::external_body]
pub fn fill_retirement_markers_prefix(s: &mut [u8], n: usize, sector: u64, remaining: usize)
    requires n <= old(s)@.len(), n % 4096 == 0, n / 4096 <= remaining, sector as int + n / 4096 <= u64::MAX,
    ensures
        final(s)@.len() == old(s)@.len(),
        markers_ok(final(s)@.subrange(0, n as int), sector, remaining, (n / 4096) as int),
{
    unimplemented!()
}

// ---- the device log, abstracted: what kind of call, where, how many blocks (a failed call is `X`)
pub enum Abs {
    J(Seq<(u64, usize)>),
    C,
    W(u64, int),
    F,
    X,
}
pub open spec fn abs_ev(e: IoEvent) -> Abs {
    match e {
        IoEvent::Journal { extents, ok } => if ok { Abs::J(extents) } else { Abs::X },
        IoEvent::Clear { ok } => if ok { Abs::C } else { Abs::X },
        IoEvent::Write { sector, data, ok } => if ok && data.len() % 4096 == 0 { Abs::W(sector, data.len() as int / 4096) } else { Abs::X },
        IoEvent::Flush { ok } => if ok { Abs::F } else { Abs::X },
        IoEvent::Direct => Abs::X,
    }
}
// the events after position `from`
pub open spec fn tail(log: Seq<IoEvent>, from: int) -> Seq<Abs> {
    log.skip(from).map_values(|e: IoEvent| abs_ev(e))
}
pub proof fn lemma_tail_push(log: Seq<IoEvent>, from: int, e: IoEvent)
    requires 0 <= from <= log.len(),
    ensures tail(log.push(e), from) == tail(log, from).push(abs_ev(e)),
{
    assert(log.push(e).skip(from) =~= log.skip(from).push(e));
    assert(tail(log.push(e), from) =~= tail(log, from).push(abs_ev(e)));
}
pub proof fn lemma_tail_empty(log: Seq<IoEvent>)
    ensures tail(log, log.len() as int) == Seq::<Abs>::empty(),
{
    assert(tail(log, log.len() as int) =~= Seq::<Abs>::empty());
}
// tail(log, a) == tail(log, a).take(b - a) + tail(log, b)
pub proof fn lemma_tail_split(log: Seq<IoEvent>, a: int, b: int)
    requires 0 <= a <= b <= log.len(),
    ensures tail(log, a) == tail(log.take(b), a) + tail(log, b),
{
    assert(tail(log, a) =~= tail(log.take(b), a) + tail(log, b));
}

pub open spec fn min_int(a: int, b: int) -> int { if a <= b { a } else { b } }
pub open spec fn nchunks(n: int) -> int { (n + 255) / 256 }
// the marker writes of one extent: chunk j covers blocks [s + 256 j, s + 256 j + min(256, n - 256 j))
pub open spec fn chunks(s: u64, n: int, c: int) -> Seq<Abs>
    decreases c,
{
    if c <= 0 { Seq::<Abs>::empty() } else { chunks(s, n, c - 1).push(Abs::W((s + 256 * (c - 1)) as u64, min_int(256, n - 256 * (c - 1)))) }
}
// the marker writes of the first k extents, in order
pub open spec fn ext_writes(ex: Seq<(u64, usize)>, k: int) -> Seq<Abs>
    decreases k,
{
    if k <= 0 { Seq::<Abs>::empty() } else { ext_writes(ex, k - 1) + chunks(ex[k - 1].0, ex[k - 1].1 as int, nchunks(ex[k - 1].1 as int)) }
}
// one journaled retirement transaction for the extents `ex`: intent, markers of every extent, fsync, clear
pub open spec fn transaction(ex: Seq<(u64, usize)>) -> Seq<Abs> {
    seq![Abs::J(ex)] + ext_writes(ex, ex.len() as int) + seq![Abs::F, Abs::C]
}
// the transactions for the first `done` entries of `co`, 1024 entries per transaction
pub open spec fn transactions(co: Seq<(u64, usize)>, done: int) -> Seq<Abs>
    decreases done,
{
    if done <= 0 { Seq::<Abs>::empty() } else {
        let start = ((done - 1) / 1024) * 1024;
        transactions(co, start) + transaction(co.subrange(start, done))
    }
}

// what coalesce_extents returns for `ex`: ascending, separated runs covering exactly the blocks of `ex`
pub open spec fn coalesced_of(c: Seq<(u64, usize)>, ex: Seq<(u64, usize)>) -> bool {
    &&& forall|i: int| 0 <= i < c.len() ==> (#[trigger] c[i]).1 >= 1 && ext_end(c[i]) <= u64::MAX
    &&& forall|i: int, j: int| 0 <= i < j < c.len() ==> ext_end(#[trigger] c[i]) < (#[trigger] c[j]).0
    &&& forall|b: int| covered(c, b) <==> covered(ex, b)
}
pub open spec fn no_clear_after(log: Seq<IoEvent>, from: int) -> bool {
    forall|k: int| from <= k < log.len() ==> !(#[trigger] log[k] matches IoEvent::Clear { ok } && ok)
}

pub proof fn lemma_covered_push(s: Seq<(u64, usize)>, e: (u64, usize), b: int)
    ensures covered(s.push(e), b) <==> (covered(s, b) || in_extent(e, b)),
{
    if covered(s.push(e), b) {
        let i = choose|i: int| 0 <= i < s.push(e).len() && in_extent(#[trigger] s.push(e)[i], b);
        if i < s.len() {
            assert(s[i] == s.push(e)[i]);
        }
    }
    if covered(s, b) {
        let i = choose|i: int| 0 <= i < s.len() && in_extent(#[trigger] s[i], b);
        assert(s.push(e)[i] == s[i]);
    }
    if in_extent(e, b) {
        assert(s.push(e)[s.len() as int] == e);
    }
}
pub proof fn lemma_covered_take_next(o: Seq<(u64, usize)>, k: int, b: int)
    requires 0 <= k < o.len(),
    ensures covered(o.take(k + 1), b) <==> (covered(o.take(k), b) || in_extent(o[k], b)),
{
    assert(o.take(k + 1) =~= o.take(k).push(o[k]));
    lemma_covered_push(o.take(k), o[k], b);
}
// replacing the last run by one that covers the old last run plus an adjacent extent
pub proof fn lemma_covered_merge_last(s: Seq<(u64, usize)>, add: (u64, usize), merged: (u64, usize), b: int)
    requires
        s.len() > 0,
        merged.0 == s.last().0,
        add.0 as int == ext_end(s.last()),
        ext_end(merged) == ext_end(add),
        add.1 >= 1,
    ensures covered(s.update(s.len() - 1, merged), b) <==> (covered(s, b) || in_extent(add, b)),
{
    let t = s.update(s.len() - 1, merged);
    let l = s.len() - 1;
    if covered(t, b) {
        let i = choose|i: int| 0 <= i < t.len() && in_extent(#[trigger] t[i], b);
        if i < l {
            assert(s[i] == t[i]);
        } else {
            assert(t[l] == merged);
            if b < ext_end(s.last()) {
                assert(in_extent(s[l], b));
            }
        }
    }
    if covered(s, b) {
        let i = choose|i: int| 0 <= i < s.len() && in_extent(#[trigger] s[i], b);
        if i < l {
            assert(t[i] == s[i]);
        } else {
            assert(in_extent(t[l], b));
        }
    }
    if in_extent(add, b) {
        assert(in_extent(t[l], b));
    }
}
pub proof fn lemma_covered_perm(r: Seq<(u64, usize)>, ex: Seq<(u64, usize)>, b: int)
    requires forall|x: (u64, usize)| r.contains(x) <==> ex.contains(x),
    ensures covered(r, b) <==> covered(ex, b),
{
    if covered(r, b) {
        let i = choose|i: int| 0 <= i < r.len() && in_extent(#[trigger] r[i], b);
        assert(r.contains(r[i]));
        let j = choose|j: int| 0 <= j < ex.len() && ex[j] == r[i];
        assert(in_extent(ex[j], b));
    }
    if covered(ex, b) {
        let i = choose|i: int| 0 <= i < ex.len() && in_extent(#[trigger] ex[i], b);
        assert(ex.contains(ex[i]));
        let j = choose|j: int| 0 <= j < r.len() && r[j] == ex[i];
        assert(in_extent(r[j], b));
    }
}

// b continues a: same events at the same positions, possibly more after them
pub open spec fn extends(a: Seq<IoEvent>, b: Seq<IoEvent>) -> bool {
    a.len() <= b.len() && forall|k: int| 0 <= k < a.len() ==> #[trigger] b[k] == a[k]
}

// one iteration of retire_extents: the log grew by exactly one transaction for the chunk co[start..done]
pub proof fn lemma_retire_step(l0: Seq<IoEvent>, l1: Seq<IoEvent>, l2: Seq<IoEvent>, l3: Seq<IoEvent>, n0: int, co: Seq<(u64, usize)>, start: int, done: int)
    requires
        0 <= n0 <= l0.len(),
        0 <= start < done <= co.len(),
        ((done - 1) / 1024) * 1024 == start,
        tail(l0, n0) == transactions(co, start),
        l1 == l0.push(IoEvent::Journal { extents: co.subrange(start, done), ok: true }),
        extends(l1, l2),
        tail(l2, l1.len() as int) == ext_writes(co.subrange(start, done), done - start).push(Abs::F),
        l3 == l2.push(IoEvent::Clear { ok: true }),
    ensures
        tail(l3, n0) == transactions(co, done),
{
    let chunk = co.subrange(start, done);
    lemma_tail_push(l0, n0, IoEvent::Journal { extents: chunk, ok: true });
    lemma_tail_split(l2, n0, l1.len() as int);
    assert(l2.take(l1.len() as int) =~= l1);
    lemma_tail_push(l2, n0, IoEvent::Clear { ok: true });
    assert(chunk.len() == done - start);
    assert(transaction(chunk) =~= seq![Abs::J(chunk)] + ext_writes(chunk, done - start) + seq![Abs::F, Abs::C]);
    assert(tail(l3, n0) =~= transactions(co, start) + transaction(chunk));
}
