// block b lies in extent e
pub open spec fn in_extent(e: (u64, usize), b: int) -> bool {
    e.0 as int <= b < e.0 as int + e.1 as int
}
pub open spec fn covered(s: Seq<(u64, usize)>, b: int) -> bool {
    exists|i: int| 0 <= i < s.len() && in_extent(#[trigger] s[i], b)
}
// markers for `blocks` consecutive blocks starting at `sector`: block i carries marker19(sector + i, remaining - i) in its first 19 bytes
pub open spec fn markers_ok(d: Seq<u8>, sector: u64, remaining: usize, blocks: int) -> bool {
    d.len() == blocks * 4096 && forall|i: int| 0 <= i < blocks ==> #[trigger] d.subrange(i * 4096, i * 4096 + 19) == marker19((sector + i) as u64, (remaining - i) as usize)
}
// fill_retirement_markers(&mut S[..n], sector, remaining)   (rule R-subslice): contract of fill_retirement_markers on the prefix
#[verifier::external_body]
pub fn fill_retirement_markers_prefix(s: &mut [u8], n: usize, sector: u64, remaining: usize)
    requires n <= old(s)@.len(), n % 4096 == 0, n / 4096 <= remaining, sector as int + n / 4096 <= u64::MAX,
    ensures
        final(s)@.len() == old(s)@.len(),
        markers_ok(final(s)@.subrange(0, n as int), sector, remaining, (n / 4096) as int),
{
    unimplemented!()
}
