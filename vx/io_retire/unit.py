UNIT = dict(
    sources={"i": "src/storage/io.rs", "f": "src/storage/format.rs", "c": "src/constants.rs", "j": "src/storage/allocation_journal.rs", "e": "src/error.rs"},
    uses=["use vstd::slice::*;"],
    prelude=["io_opaque.rs"],
    rules=["ioretmisc", "veczero", "sig_ioret"],
    forbid=[r"\.\s*iter\s*\(\s*\)", r"\.\s*chunks\s*\(", r"last_mut", r"sort_unstable", r"&mut\s+\w+\s*\[", r"\.\s*(map|map_err|max|min)\s*\("],
    items=[
        ("error_enum", "e"),
        ("const", "c", "FEOX_BLOCK_SIZE"),
        ("const", "c", "DELETION_MARKER_SIZE"),
        ("const", "j", "ALLOCATION_JOURNAL_MAX_ENTRIES"),
        ("const", "i", "RETIREMENT_WRITE_BLOCKS"),
        ("fn", "f", "fill_retirement_markers"),
        ("fn", "i", "coalesce_extents"),
        ("impl", "i", "DiskIO", ["retire_extents", "replay_allocation_journal", "retire_extents_unjournaled", "write_retirement_extent_buffered"], {"header": "impl DiskIO {"}),
    ],
    contracts="contracts.vc",
    spec=["spec.rs"],
)
