UNIT = dict(
    sources={"k": "src/core/cache.rs", "c": "src/constants.rs"},
    uses=["use std::sync::Arc;"],
    prelude=["cache_opaque.rs"],
    rules=["position", "cachemisc", "omap", "oissome", "oisnoneor", "sig_cache"],
    forbid=[r"\.\s*iter\s*\(\s*\)\s*\.\s*(map|filter|filter_map|enumerate|all|any|position)\s*\(", r"\.\s*collect\s*::", r"\.\s*iter_mut\s*\("],
    items=[
        ("const", "c", "CACHE_BUCKETS"),
        ("fn", "k", "can_replace_generation"),
        ("impl", "k", "ClockCache", ["get", "get_for_record", "get_entry", "insert", "insert_for_record", "remove", "remove_for_record", "remove_entry", "insert_entry", "evict_entries", "record_entry", "clear"], {"header": "impl ClockCache {"}),
        ("impl", "k", "RecordCacheEntry", ["value"], {"header": "impl RecordCacheEntry<'_> {"}),
    ],
    contracts="contracts.vc",
    spec=["spec.rs"],
)
