// the generation a lookup or removal is asked for matches the one an entry was cached for
pub open spec fn gen_matches(expected: Option<&Arc<Record>>, cached: Option<WeakRec>) -> bool {
    match expected {
        Some(e) => cached is Some && cached->Some_0.generation() == arc_gen(e),
        None => true,
    }
}
