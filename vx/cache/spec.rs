// the generation a lookup or removal is asked for matches the one an entry was cached for
pub open spec fn gen_matches(expected: Option<&Arc<Record>>, cached: Option<WeakRec>) -> bool {
    match expected {
        Some(e) => cached is Some && cached->Some_0.generation() == arc_gen(e),
        None => true,
    }
}

// the summed sizes of a bucket's entries (what the gauge holds for them)
pub open spec fn total_size(s: Seq<CacheEntry>) -> int
    decreases s.len(),
{
    if s.len() == 0 { 0 } else { total_size(s.drop_last()) + s.last().size as int }
}
