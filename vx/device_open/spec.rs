// (no extra spec)
