UNIT = dict(
    sources={"p": "src/core/store/persistence.rs", "c": "src/constants.rs", "e": "src/error.rs"},
    uses=["use std::sync::Arc;"],
    prelude=["open_opaque.rs"],
    rules=["openmisc"],
    inline_helpers=False,
    forbid=[r"OpenOptions", r"\.\s*metadata\s*\(", r"_metadata\s*\.\s*write", r"#\[cfg"],
    items=[
        ("error_enum", "e"),
        ("const", "c", "FEOX_BLOCK_SIZE"),
        ("const", "c", "FEOX_DATA_START_BLOCK"),
        ("const", "c", "MAX_DEVICE_SIZE"),
        ("const", "c", "DEFAULT_DEVICE_SIZE"),
        ("fn", "p", "validate_device_size"),
        ("impl", "p", "FeoxStore", ["open_device", "open_device_read_only", "open_fresh_device", "initialize_fresh_device"], {"header": "impl FeoxStore {"}),
    ],
    contracts="contracts.vc",
    spec=["spec.rs"],
)
