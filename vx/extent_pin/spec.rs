// (no extra spec)
