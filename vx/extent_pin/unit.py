UNIT = dict(
    sources={"r": "src/core/record.rs"},
    uses=[],
    prelude=["pin_opaque.rs"],
    rules=["extentpin"],
    inline_helpers=False,
    auto_fns=False,
    forbid=[r"compare_exchange", r"fetch_add", r"fetch_and", r"\.\s*store\s*\(", r"\.\s*swap\s*\("],
    items=[
        ("const", "r", "EXTENT_RETIRED"),
        ("const", "r", "EXTENT_READERS"),
        ("impl", "r", "Record", ["acquire_extent", "retire_extent", "extent_has_readers"], {"header": "impl Record {"}),
        ("impl", "r", "ExtentReadGuard", ["drop"], {"header": "impl<'a> ExtentReadGuard<'a> {", "trait": "Drop"}),
    ],
    contracts="contracts.vc",
    spec=["spec.rs"],
)
