// Independent statement of the allocation-journal image (allocation_journal.rs layout comments):
//   0..8   magic "\0FEOXAJ1"      8..12  version (2)         12..16 checksum
//   16..24 generation             24..28 state (0 clear / 1 active)
//   28..32 entry count            32..36 !checksum           36..40 zero
//   40..   entries: sector u32, blocks u32 (little-endian), image zero-padded to a 4 KiB multiple
//   checksum = CRC32C(bytes 0..12 ++ 0000 ++ bytes 16..32 ++ 0000 ++ bytes 36..image_len)

pub open spec fn zeros(n: int) -> Seq<u8> {
    Seq::new(n as nat, |i: int| 0u8)
}

pub open spec fn magic_spec() -> Seq<u8> {
    seq![0u8, 0x46, 0x45, 0x4F, 0x58, 0x41, 0x4A, 0x31]
}

pub open spec fn image_len(count: int) -> int {
    ((40 + 8 * count + 4095) / 4096) * 4096
}

pub open spec fn entry_bytes(e: (u64, usize)) -> Seq<u8> {
    le_seq(e.0 as nat, 4) + le_seq(e.1 as nat, 4)
}

pub open spec fn entries_bytes(ext: Seq<(u64, usize)>) -> Seq<u8>
    decreases ext.len(),
{
    if ext.len() == 0 { Seq::<u8>::empty() } else { entries_bytes(ext.drop_last()) + entry_bytes(ext.last()) }
}

// image before the checksum is stamped (checksum fields zero)
pub open spec fn unstamped(generation: u64, state: u32, ext: Seq<(u64, usize)>) -> Seq<u8> {
    magic_spec() + le_seq(2, 4) + zeros(4) + le_seq(generation as nat, 8) + le_seq(state as nat, 4)
        + le_seq(ext.len(), 4) + zeros(8) + entries_bytes(ext) + zeros(image_len(ext.len() as int) - 40 - 8 * ext.len())
}

pub open spec fn checksum_input(img: Seq<u8>) -> Seq<u8> {
    img.subrange(0, 12) + zeros(4) + img.subrange(16, 32) + zeros(4) + img.subrange(36, img.len() as int)
}

pub open spec fn stamped(img: Seq<u8>) -> Seq<u8> {
    let ck = crc_spec(0, checksum_input(img));
    img.subrange(0, 12) + le_seq(ck as nat, 4) + img.subrange(16, 32) + le_seq((!ck) as nat, 4) + img.subrange(36, img.len() as int)
}

pub open spec fn journal_image(generation: u64, state: u32, ext: Seq<(u64, usize)>) -> Seq<u8> {
    stamped(unstamped(generation, state, ext))
}

pub open spec fn extent_ok(e: (u64, usize)) -> bool {
    16 <= e.0 && e.0 <= 0xFFFF_FFFF && 1 <= e.1 && e.1 <= 0xFFFF_FFFF
}

// ---- type-specific shims (trusted, A5) -------------------------------------------------------
pub open spec fn idx_ok(a: int, n: int) -> bool {
    0 <= a < n
}

pub open spec fn is_perm(p: Seq<int>, n: int) -> bool {
    p.len() == n
        && (forall|i: int| 0 <= i < n ==> 0 <= #[trigger] p[i] < n)
        && (forall|i: int, j: int| 0 <= i < j < n ==> p[i] != p[j])
        && (forall|a: int| #[trigger] idx_ok(a, n) ==> exists|i: int| 0 <= i < n && #[trigger] p[i] == a)
}

#[verifier::external_body]
pub fn sort_by_first(v: &mut Vec<(u64, usize)>)
    ensures
        final(v)@.len() == old(v)@.len(),
        forall|i: int, j: int| 0 <= i < j < final(v)@.len() ==> final(v)@[i].0 <= final(v)@[j].0,
        exists|p: Seq<int>| is_perm(p, old(v)@.len() as int) && forall|i: int| 0 <= i < old(v)@.len() ==> final(v)@[i] == old(v)@[#[trigger] p[i]],
{
    v.sort_unstable_by_key(|e| e.0)
}

#[verifier::external_body]
pub fn max_by_generation(v: Vec<JournalState>) -> (r: Option<JournalState>)
    ensures
        v@.len() == 0 ==> r is None,
        v@.len() > 0 ==> r is Some && exists|k: int| 0 <= k < v@.len() && r->Some_0 == v@[k]
            && (forall|i: int| 0 <= i < v@.len() ==> v@[i].generation <= v@[k].generation)
            && (forall|i: int| k < i < v@.len() ==> v@[i].generation < v@[k].generation),
{
    v.into_iter().max_by_key(|s| s.generation)
}

#[verifier::external_body]
pub fn min_by_generation(v: Vec<JournalState>) -> (r: Option<JournalState>)
    ensures
        v@.len() == 0 ==> r is None,
        v@.len() > 0 ==> r is Some && exists|k: int| 0 <= k < v@.len() && r->Some_0 == v@[k]
            && (forall|i: int| 0 <= i < v@.len() ==> v@[k].generation <= v@[i].generation)
            && (forall|i: int| 0 <= i < k ==> v@[k].generation < v@[i].generation),
{
    v.into_iter().min_by_key(|s| s.generation)
}

#[verifier::external_body]
pub fn vec_last(v: Vec<usize>) -> (r: Option<usize>)
    ensures
        v@.len() == 0 ==> r is None,
        v@.len() > 0 ==> r == Some(v@[v@.len() - 1]),
{
    v.into_iter().next_back()
}

// ---- lemmas ----------------------------------------------------------------------------------
pub proof fn lemma_le_seq_len(v: nat, n: nat)
    ensures le_seq(v, n).len() == n,
    decreases n,
{
    if n > 0 {
        lemma_le_seq_len(v / 256, (n - 1) as nat);
    }
}

pub proof fn lemma_image_len(count: int)
    requires 0 <= count <= 1024,
    ensures
        image_len(count) % 4096 == 0,
        40 + 8 * count <= image_len(count) <= 12288,
        image_len(count) >= 4096,
{
}

pub proof fn lemma_entries_len(ext: Seq<(u64, usize)>)
    ensures entries_bytes(ext).len() == 8 * ext.len(),
    decreases ext.len(),
{
    if ext.len() > 0 {
        lemma_entries_len(ext.drop_last());
        lemma_le_seq_len(ext.last().0 as nat, 4);
        lemma_le_seq_len(ext.last().1 as nat, 4);
    }
}

// 40-byte header with zero checksum fields
pub open spec fn header40(generation: u64, state: u32, count: int) -> Seq<u8> {
    magic_spec() + le_seq(2, 4) + zeros(4) + le_seq(generation as nat, 8) + le_seq(state as nat, 4)
        + le_seq(count as nat, 4) + zeros(8)
}

pub proof fn lemma_zeros_split(a: int, b: int)
    requires 0 <= a, 0 <= b,
    ensures zeros(a + b) =~= zeros(a) + zeros(b),
{
}

pub proof fn lemma_header40_len(generation: u64, state: u32, count: int)
    requires 0 <= count,
    ensures header40(generation, state, count).len() == 40,
{
    lemma_le_seq_len(2, 4);
    lemma_le_seq_len(generation as nat, 8);
    lemma_le_seq_len(state as nat, 4);
    lemma_le_seq_len(count as nat, 4);
}

pub proof fn lemma_entries_snoc(ext: Seq<(u64, usize)>, k: int)
    requires 0 <= k < ext.len(),
    ensures entries_bytes(ext.subrange(0, k + 1)) == entries_bytes(ext.subrange(0, k)) + entry_bytes(ext[k]),
{
    let s = ext.subrange(0, k + 1);
    assert(s.drop_last() =~= ext.subrange(0, k));
    assert(s.last() == ext[k]);
}

pub proof fn lemma_unstamped_shape(generation: u64, state: u32, ext: Seq<(u64, usize)>)
    requires ext.len() <= 1024,
    ensures
        unstamped(generation, state, ext) =~= header40(generation, state, ext.len() as int) + entries_bytes(ext)
            + zeros(image_len(ext.len() as int) - 40 - 8 * ext.len()),
        unstamped(generation, state, ext).len() == image_len(ext.len() as int),
{
    lemma_header40_len(generation, state, ext.len() as int);
    lemma_entries_len(ext);
    lemma_image_len(ext.len() as int);
}

// ---- decoder side ----------------------------------------------------------------------------
pub open spec fn f32(d: Seq<u8>, at: int) -> nat {
    le_val(d.subrange(at, at + 4))
}

pub open spec fn f64(d: Seq<u8>, at: int) -> nat {
    le_val(d.subrange(at, at + 8))
}

pub open spec fn slot_count(d: Seq<u8>) -> int {
    f32(d, 28) as int
}

pub open spec fn slot_entry(d: Seq<u8>, i: int) -> (u64, usize) {
    (f32(d, 40 + 8 * i) as u64, f32(d, 44 + 8 * i) as usize)
}

pub open spec fn slot_extents(d: Seq<u8>) -> Seq<(u64, usize)> {
    Seq::new(slot_count(d) as nat, |i: int| slot_entry(d, i))
}

pub open spec fn cklen(d: Seq<u8>) -> int {
    if f32(d, 8) == 1 { 12288 } else { image_len(slot_count(d)) }
}

pub open spec fn ext_in_bounds(e: (u64, usize), total: u64) -> bool {
    16 <= e.0 && e.1 >= 1 && e.0 as int + e.1 as int <= total as int
}

pub open spec fn ext_disjoint(a: (u64, usize), b: (u64, usize)) -> bool {
    a.0 as int + a.1 as int <= b.0 as int || b.0 as int + b.1 as int <= a.0 as int
}

pub open spec fn pairwise_disjoint(s: Seq<(u64, usize)>) -> bool {
    forall|i: int, j: int| 0 <= i < j < s.len() ==> ext_disjoint(#[trigger] s[i], #[trigger] s[j])
}

// a 12288-byte slot image that recovery may act on
pub open spec fn slot_valid(d: Seq<u8>, total: u64) -> bool {
    &&& d.len() == 12288
    &&& d.subrange(0, 8) == magic_spec()
    &&& (f32(d, 8) == 1 || f32(d, 8) == 2)
    &&& f64(d, 16) != 0
    &&& slot_count(d) <= 1024
    &&& (f32(d, 24) == 0 || f32(d, 24) == 1)
    &&& (f32(d, 24) == 0 ==> slot_count(d) == 0)
    &&& (f32(d, 24) == 1 ==> slot_count(d) != 0)
    &&& f32(d, 32) == (!(f32(d, 12) as u32)) as nat
    &&& f32(d, 12) == crc_spec(0, checksum_input(d.subrange(0, cklen(d)))) as nat
    &&& (forall|i: int| 0 <= i < slot_count(d) ==> ext_in_bounds(#[trigger] slot_entry(d, i), total))
    &&& pairwise_disjoint(slot_extents(d))
}

pub open spec fn slot_bytes(d: Seq<u8>, k: int) -> Seq<u8> {
    d.subrange(k * 12288, (k + 1) * 12288)
}

pub open spec fn all_zero_seq(s: Seq<u8>) -> bool {
    forall|i: int| 0 <= i < s.len() ==> s[i] == 0
}

// a decoded state is the faithful reading of slot k
pub open spec fn state_of_slot(st: JournalState, d: Seq<u8>, k: int) -> bool {
    st.slot == k && st.generation as nat == f64(slot_bytes(d, k), 16) && st.extents@ == slot_extents(slot_bytes(d, k))
}

// sorted by start + adjacent non-overlap (lengths >= 1)  ==>  any two positions are disjoint
pub proof fn lemma_sorted_chain(o: Seq<(u64, usize)>, i: int, j: int)
    requires
        forall|k: int| 0 <= k < o.len() ==> (#[trigger] o[k]).1 >= 1,
        forall|k: int| 0 <= k < o.len() - 1 ==> (#[trigger] o[k]).0 as int + o[k].1 as int <= o[k + 1].0 as int,
        0 <= i < j < o.len(),
    ensures
        o[i].0 as int + o[i].1 as int <= o[j].0 as int,
    decreases j - i,
{
    if j > i + 1 {
        lemma_sorted_chain(o, i, j - 1);
        assert(o[j - 1].0 as int + o[j - 1].1 as int <= o[j].0 as int);
    }
}

// transfer pairwise disjointness from the sorted copy to the original through the permutation
pub proof fn lemma_perm_disjoint(orig: Seq<(u64, usize)>, o: Seq<(u64, usize)>, p: Seq<int>)
    requires
        o.len() == orig.len(),
        is_perm(p, orig.len() as int),
        forall|i: int| 0 <= i < orig.len() ==> o[i] == orig[#[trigger] p[i]],
        forall|k: int| 0 <= k < o.len() ==> (#[trigger] o[k]).1 >= 1,
        forall|k: int| 0 <= k < o.len() - 1 ==> (#[trigger] o[k]).0 as int + o[k].1 as int <= o[k + 1].0 as int,
    ensures
        pairwise_disjoint(orig),
{
    assert forall|a: int, b: int| 0 <= a < b < orig.len() implies ext_disjoint(#[trigger] orig[a], #[trigger] orig[b]) by {
        assert(idx_ok(a, orig.len() as int));
        assert(idx_ok(b, orig.len() as int));
        let i = choose|i: int| 0 <= i < orig.len() && #[trigger] p[i] == a;
        let j = choose|j: int| 0 <= j < orig.len() && #[trigger] p[j] == b;
        assert(i != j);
        if i < j {
            lemma_sorted_chain(o, i, j);
        } else {
            lemma_sorted_chain(o, j, i);
        }
    }
}

// an adjacent overlap in the sorted copy is an overlap of two distinct original extents
pub proof fn lemma_perm_overlap(orig: Seq<(u64, usize)>, o: Seq<(u64, usize)>, p: Seq<int>, k: int)
    requires
        o.len() == orig.len(),
        is_perm(p, orig.len() as int),
        forall|i: int| 0 <= i < orig.len() ==> o[i] == orig[#[trigger] p[i]],
        forall|i: int, j: int| 0 <= i < j < o.len() ==> o[i].0 <= o[j].0,
        forall|i: int| 0 <= i < o.len() ==> (#[trigger] o[i]).1 >= 1,
        0 <= k < o.len() - 1,
        o[k].0 as int + o[k].1 as int > o[k + 1].0 as int,
    ensures
        !pairwise_disjoint(orig),
{
    let a = p[k];
    let b = p[k + 1];
    assert(a != b);
    assert(!ext_disjoint(o[k], o[k + 1]));
    if a < b {
        assert(!ext_disjoint(orig[a], orig[b]));
    } else {
        assert(!ext_disjoint(orig[b], orig[a]));
    }
}

// ---- decode(): loop invariants as predicates (also pins the element types for inference) -------
pub open spec fn valid_inv(v: Seq<JournalState>, d: Seq<u8>, upto: int, total: u64) -> bool {
    &&& forall|i: int| 0 <= i < v.len() ==> 0 <= (#[trigger] v[i]).slot < upto && slot_valid(slot_bytes(d, v[i].slot as int), total)
            && state_of_slot(v[i], d, v[i].slot as int)
    &&& forall|k: int| 0 <= k < upto && slot_valid(#[trigger] slot_bytes(d, k), total) ==> exists|i: int| 0 <= i < v.len() && (#[trigger] v[i]).slot == k
}

pub open spec fn missing_inv(m: Seq<usize>, d: Seq<u8>, upto: int) -> bool {
    &&& forall|i: int| 0 <= i < m.len() ==> 0 <= #[trigger] m[i] < upto && all_zero_seq(slot_bytes(d, m[i] as int))
    &&& forall|i: int, j: int| 0 <= i < j < m.len() ==> m[i] < m[j]
    &&& forall|k: int| 0 <= k < upto && all_zero_seq(#[trigger] slot_bytes(d, k)) ==> exists|i: int| 0 <= i < m.len() && #[trigger] m[i] == k
}

pub proof fn lemma_zero_slot_invalid(s: Seq<u8>, total: u64)
    requires s.len() == 12288, all_zero_seq(s),
    ensures !slot_valid(s, total),
{
    assert(s.subrange(0, 8)[1] == s[1]);
    assert(magic_spec()[1] == 0x46);
}

// what decode() must return
pub open spec fn decode_post(st: JournalState, d: Seq<u8>, total: u64) -> bool {
    ||| exists|k: int| 0 <= k < 2 && slot_valid(#[trigger] slot_bytes(d, k), total) && state_of_slot(st, d, k)
            && (forall|k2: int| 0 <= k2 < 2 && slot_valid(#[trigger] slot_bytes(d, k2), total) ==> f64(slot_bytes(d, k2), 16) <= st.generation as nat)
    ||| (st.generation == 0 && st.extents@.len() == 0 && 0 <= st.slot < 2 && all_zero_seq(slot_bytes(d, st.slot as int))
            && (forall|k2: int| 0 <= k2 < 2 ==> !slot_valid(#[trigger] slot_bytes(d, k2), total))
            && (forall|k2: int| st.slot < k2 < 2 ==> !all_zero_seq(#[trigger] slot_bytes(d, k2))))
}
