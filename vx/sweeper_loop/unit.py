UNIT = dict(
    sources={"s": "src/core/ttl_sweep.rs"},
    uses=[],
    prelude=["sweeploop_opaque.rs"],
    rules=["sweeploop"],
    inline_helpers=False,
    auto_fns=False,
    forbid=[r"thread\s*::", r"\bf32\b", r"Instant\s*::", r"SystemTime", r"\.\s*elapsed\s*\("],
    items=[
        ("fn", "s", "run_sweeper_loop"),
    ],
    contracts="contracts.vc",
    spec=["spec.rs"],
)
