// (no extra spec)
