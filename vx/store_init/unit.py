UNIT = dict(
    sources={"n": "src/core/store/init.rs", "e": "src/error.rs"},
    uses=["use std::sync::Arc;"],
    prelude=["init_opaque.rs"],
    rules=["initmisc", "sig_init"],
    inline_helpers=False,
    forbid=[r"HashMap\s*::", r"SkipMap", r"RwLock", r"num_cpus", r"#\[cfg"],
    items=[
        ("error_enum", "e"),
        ("type", "n", "OpenMode"),
        ("impl", "n", "FeoxStore", ["with_config", "with_config_and_legacy_recovery", "with_config_for_migration_source", "with_config_for_migration_destination", "with_config_and_open_mode"], {"header": "impl FeoxStore {"}),
    ],
    contracts="contracts.vc",
    spec=["spec.rs"],
)
