// what a successfully constructed persistent store went through: one open step matching the mode, then load_indexes
spec fn opened_as(steps: Seq<Step>, mode: OpenMode) -> bool {
    steps.len() == 2 && steps[1] is Load && (match mode {
        OpenMode::ReadWrite => steps[0] is OpenRw,
        OpenMode::ReadOnly(_) => steps[0] is OpenRo,
        OpenMode::Fresh(_) => steps[0] is OpenFresh,
    })
}
