UNIT = dict(
    sources={"s": "src/core/ttl_sweep.rs"},
    uses=["use std::sync::Arc;"],
    prelude=["sweeper_opaque.rs"],
    rules=["sweepstop"],
    inline_helpers=False,
    auto_fns=False,
    forbid=[r"thread\s*::", r"\.\s*join\s*\("],
    items=[
        ("impl", "s", "TtlSweeper", ["stop"], {"header": "impl TtlSweeper {"}),
    ],
    contracts="contracts.vc",
    spec=["spec.rs"],
)
