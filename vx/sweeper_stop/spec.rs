// (no extra spec)
