// ---- the reservation word of a write entry (write_buffer.rs reserved_sector .. clear_reserved_sector; Kani unit
// wb_reservation proves the bit operations): flags are read through shims and modelled as stable within one call (A3)
pub uninterp spec fn quarantined(e: &WriteEntry) -> bool;
pub uninterp spec fn dirty(e: &WriteEntry) -> bool;

#[verifier::external_body]
fn reservation_is_quarantined(entry: &WriteEntry) -> (b: bool)
    ensures b == quarantined(entry),
{
    unimplemented!()
}
#[verifier::external_body]
fn reservation_is_dirty(entry: &WriteEntry) -> (b: bool)
    ensures b == dirty(entry),
{
    unimplemented!()
}
#[verifier::external_body]
fn quarantine_reservation(entry: &WriteEntry) { unimplemented!() }
#[verifier::external_body]
fn mark_reservation_clean(entry: &WriteEntry) { unimplemented!() }
#[verifier::external_body]
fn clear_reserved_sector(entry: &WriteEntry) { unimplemented!() }

spec fn prepared_wf(p: &PreparedWrite) -> bool {
    &&& 1 <= p.sectors_needed <= 0x1_0200
    &&& (p.sector matches Some(s) ==> 16 <= s && s as int + p.sectors_needed as int <= 0x1002_0000)
}
spec fn all_prepared_wf(w: Seq<PreparedWrite>) -> bool {
    forall|i: int| 0 <= i < w.len() ==> prepared_wf(&#[trigger] w[i])
}

// an allocation takes part in scrub-and-release iff it has a block run and is not quarantined
spec fn eligible(p: &PreparedWrite) -> bool {
    p.sector is Some && !quarantined(&p.entry)
}
// blocks held by the eligible allocations of a batch
spec fn eligible_blocks(w: Seq<PreparedWrite>) -> int
    decreases w.len(),
{
    if w.len() == 0 { 0 } else { (if eligible(&w[0]) { w[0].sectors_needed as int } else { 0 }) + eligible_blocks(w.drop_first()) }
}

// blocks of ordered[a..b]
spec fn sum_needed(o: Seq<(u64, &PreparedWrite)>, a: int, b: int) -> int
    decreases b - a,
{
    if a >= b { 0 } else { o[a].1.sectors_needed as int + sum_needed(o, a + 1, b) }
}
proof fn lemma_sum_needed_extend(o: Seq<(u64, &PreparedWrite)>, a: int, b: int)
    requires 0 <= a <= b < o.len(),
    ensures sum_needed(o, a, b + 1) == sum_needed(o, a, b) + o[b].1.sectors_needed as int,
    decreases b - a,
{
    reveal_with_fuel(sum_needed, 3);
    if a < b {
        lemma_sum_needed_extend(o, a + 1, b);
    }
}
proof fn lemma_sum_needed_split(o: Seq<(u64, &PreparedWrite)>, a: int, m: int, b: int)
    requires 0 <= a <= m <= b <= o.len(),
    ensures sum_needed(o, a, b) == sum_needed(o, a, m) + sum_needed(o, m, b),
    decreases m - a,
{
    if a < m {
        lemma_sum_needed_split(o, a + 1, m, b);
    }
}
proof fn lemma_sum_needed_bound(o: Seq<(u64, &PreparedWrite)>, a: int, b: int, c: int)
    requires 0 <= a <= b <= c <= o.len(), forall|i: int| 0 <= i < o.len() ==> (#[trigger] o[i]).1.sectors_needed >= 0,
    ensures 0 <= sum_needed(o, a, b) <= sum_needed(o, a, c),
    decreases c - a,
{
    lemma_sum_needed_split(o, a, b, c);
    lemma_sum_needed_nonneg(o, b, c);
    lemma_sum_needed_nonneg(o, a, b);
}
proof fn lemma_sum_needed_nonneg(o: Seq<(u64, &PreparedWrite)>, a: int, b: int)
    requires 0 <= a <= b <= o.len(),
    ensures 0 <= sum_needed(o, a, b),
    decreases b - a,
{
    if a < b {
        lemma_sum_needed_nonneg(o, a + 1, b);
    }
}
// ordered[a..b] is one run of back-to-back extents
spec fn run(o: Seq<(u64, &PreparedWrite)>, a: int, b: int) -> bool {
    forall|k: int| a <= k < b - 1 ==> (#[trigger] o[k + 1]).0 as int == o[k].0 as int + o[k].1.sectors_needed as int
}
pub open spec fn sum_released(r: Seq<(u64, u64)>, from: int) -> int
    decreases r.len() - from,
{
    if from >= r.len() { 0 } else { r[from].1 as int + sum_released(r, from + 1) }
}
pub proof fn lemma_sum_released_push(r: Seq<(u64, u64)>, from: int, x: (u64, u64))
    requires 0 <= from <= r.len(),
    ensures sum_released(r.push(x), from) == sum_released(r, from) + x.1 as int,
    decreases r.len() - from,
{
    if from < r.len() {
        lemma_sum_released_push(r, from + 1, x);
        assert(r.push(x)[from] == r[from]);
    } else {
        assert(r.push(x)[from] == x);
        assert(sum_released(r.push(x), from + 1) == 0);
    }
}

// allocations.iter().filter(not quarantined).filter_map(sector -> (sector, allocation)).collect(); sort_unstable_by_key(sector)
// (rule R-collect): the eligible allocations with their head sector, ascending by sector. TRUSTED: definition of the
// iterator chain and that sorting permutes (so the block total is the eligible total).
#[verifier::external_body]
fn scrubbed_sorted<'a>(allocations: &'a [PreparedWrite]) -> (r: Vec<(u64, &'a PreparedWrite)>)
    ensures
        r@.len() <= allocations@.len(),
        all_prepared_wf(allocations@) ==> forall|i: int| 0 <= i < r@.len() ==> prepared_wf((#[trigger] r@[i]).1),
        forall|i: int| 0 <= i < r@.len() ==> (eligible((#[trigger] r@[i]).1) && r@[i].1.sector == Some(r@[i].0) && allocations@.contains(*r@[i].1)),
        forall|i: int, j: int| 0 <= i < j < r@.len() ==> (#[trigger] r@[i]).0 <= (#[trigger] r@[j]).0,
        sum_needed(r@, 0, r@.len() as int) == eligible_blocks(allocations@),
{
    unimplemented!()
}
// allocations.iter().filter(not quarantined).filter_map(sector -> (sector, sectors_needed)).collect()   (rule R-collect)
#[verifier::external_body]
fn scrub_extents_of(allocations: &[PreparedWrite]) -> (r: Vec<(u64, usize)>)
    ensures
        r@.len() <= allocations@.len(),
        (r@.len() == 0) == (eligible_blocks(allocations@) == 0),
        forall|i: int| 0 <= i < r@.len() ==> exists|k: int| 0 <= k < allocations@.len() && eligible(&#[trigger] allocations@[k]) && (#[trigger] r@[i]) == (allocations@[k].sector->Some_0, allocations@[k].sectors_needed),
{
    unimplemented!()
}

pub open spec fn all_bounded(group: Seq<WriteEntry>) -> bool {
    forall|i: int| 0 <= i < group.len() ==> record_bounded(&*(#[trigger] group[i]).record)
}

// blocks held by the first n allocations that have a block run and are not dirty (release_allocations hands back exactly those)
spec fn clean(p: &PreparedWrite) -> bool {
    p.sector is Some && !dirty(&p.entry)
}
spec fn clean_blocks(w: Seq<PreparedWrite>, n: int) -> int
    decreases n,
{
    if n <= 0 { 0 } else { clean_blocks(w, n - 1) + (if clean(&w[n - 1]) { w[n - 1].sectors_needed as int } else { 0 }) }
}
