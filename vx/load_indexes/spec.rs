// (no extra spec)
