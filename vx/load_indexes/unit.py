UNIT = dict(
    sources={"r": "src/core/store/recovery.rs", "c": "src/constants.rs", "e": "src/error.rs"},
    uses=["use std::sync::Arc;"],
    prelude=["load_opaque.rs"],
    rules=["loadmisc"],
    inline_helpers=False,
    forbid=[r"\.\s*(map|filter)\s*\(", r"_metadata\s*\.\s*write"],
    items=[
        ("error_enum", "e"),
        ("impl", "r", "FeoxStore", ["load_indexes"], {"header": "impl FeoxStore {"}),
    ],
    contracts="contracts.vc",
    spec=["spec.rs"],
)
