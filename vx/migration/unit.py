UNIT = dict(
    sources={"m": "src/core/store/migration.rs", "e": "src/error.rs"},
    uses=["use std::sync::Arc;"],
    prelude=["mig_opaque.rs"],
    rules=["migmisc", "forvec", "sig_mig"],
    forvec=["records"],
    inline_helpers=False,
    forbid=[r"\.\s*(map|map_err|and_then|filter|zip|as_deref|last)\s*\(", r"\bfs\s*::", r"\.\s*as_ref\s*\(\s*\)\s*[!=]="],
    items=[
        ("error_enum", "e"),
        ("const", "m", "MIGRATION_FLUSH_RECORDS"),
        ("const", "m", "MIGRATION_FLUSH_BYTES"),
        ("fn", "m", "copy_records"),
        ("fn", "m", "verify_records"),
        ("impl", "m", "DestinationGuard", ["publish", "rollback_publication"], {"header": "impl DestinationGuard {"}),
    ],
    contracts="contracts.vc",
    spec=["spec.rs"],
)
