// (no extra spec)
