pub open spec fn all_bounded(group: Seq<WriteEntry>) -> bool {
    forall|i: int| 0 <= i < group.len() ==> record_bounded(&*(#[trigger] group[i]).record)
}
