// (no extra spec for this unit)
