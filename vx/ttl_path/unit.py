UNIT = dict(
    sources={"t": "src/core/store/ttl.rs", "e": "src/error.rs"},
    uses=["use std::sync::Arc;"],
    prelude=["upd_opaque.rs", "ttl_opaque.rs"],
    rules=["updmisc", "boolthen", "omap", "oandthen", "ttlmisc"],
    forbid=[r"\.\s*(map|and_then|or_else|then|flatten|filter)\s*\(", r"\.\s*max\s*\("],
    lifts={
        "FeoxStore::update_ttl": [dict(
            call=r"self\s*\.\s*hash_table\s*\.\s*update\s*\(",
            name="update_ttl_entry",
            params=["stored_key", "current"],
            sig="fn update_ttl_entry(&self, ttl_seconds: u64, stored_key: &Vec<u8>, current: &mut Arc<Record>) -> Result<(Arc<Record>, Arc<Record>, bool)>",
            replace="self.hash_table.update_lifted_ttl(key, self, ttl_seconds)",
        )],
    },
    items=[
        ("error_enum", "e"),
        ("type", "t", "TtlReplacementValue"),
        ("fn", "t", "ttl_expiry"),
        ("impl", "t", "FeoxStore", ["get_ttl", "update_ttl", "ttl_replacement_value", "ensure_ttl_write_supported", "persist"], {"header": "impl FeoxStore {"}),
    ],
    contracts="contracts.vc",
    spec=["spec.rs"],
)
