pub open spec fn strictly_expired(r: &Record, now: u64) -> bool {
    r.ttl_expiry.val() > 0 && now > r.ttl_expiry.val()
}
// what the post-scan pass queues for removal: (key, generation) pairs whose generation is bounded, strictly expired, and carries that key
pub open spec fn candidates_ok(c: Seq<(Vec<u8>, Arc<Record>)>, now: u64) -> bool {
    forall|i: int| 0 <= i < c.len() ==> (record_bounded(&*(#[trigger] c[i]).1) && strictly_expired(&*c[i].1, now) && c[i].0@ == c[i].1.key@)
}
