UNIT = dict(
    sources={"r": "src/core/store/recovery.rs", "c": "src/constants.rs", "e": "src/error.rs"},
    uses=["use vstd::slice::*;", "use std::sync::Arc;"],
    prelude=["bytes.rs", "bytes_w.rs", "store_opaque.rs", "winners_opaque.rs"],
    rules=["winnersmisc", "forvec", "divceil", "sig_wb"],
    forvec=["expired"],
    forbid=[r"\.\s*(map|and_then|filter|as_deref)\s*\(", r"crossbeam_epoch"],
    items=[
        ("error_enum", "e"),
        ("const", "c", "FEOX_BLOCK_SIZE"),
        ("const", "r", "RECOVERY_EXPIRED_BATCH"),
        ("impl", "r", "FeoxStore", ["remove_expired_recovery_winners"], {"header": "impl FeoxStore {"}),
    ],
    contracts="contracts.vc",
    spec=["spec.rs"],
)
