// (no extra spec)
