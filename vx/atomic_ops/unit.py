UNIT = dict(
    sources={"a": "src/core/store/atomic.rs", "j": "src/core/store/json_patch.rs", "e": "src/error.rs"},
    uses=["use std::sync::Arc;"],
    prelude=["upd_opaque.rs", "atomic_opaque.rs"],
    rules=["updmisc", "atomicmisc", "oissome", "ttlmisc", "sig_upd"],
    forbid=[r"\.\s*(map|map_or|and_then|or_else|unwrap_or_else|get_or_insert_with|then|flatten|filter|map_err)\s*\(", r"\.\s*max\s*\(", r"from_le_bytes"],
    items=[
        ("error_enum", "e"),
        ("fn", "a", "counter_record"),
        ("impl", "a", "FeoxStore", ["insert_if_absent", "compare_and_swap_with_timestamp_and_ttl", "atomic_increment_with_timestamp_and_ttl"], {"header": "impl FeoxStore {"}),
        ("impl", "j", "FeoxStore", ["json_patch_with_timestamp"], {"header": "impl FeoxStore {"}),
    ],
    contracts="contracts.vc",
    spec=["spec.rs"],
)
