FMT = ["record_header_size", "total_size", "parse_record", "value_offset"]
UNIT = dict(
    sources={"f": "src/storage/format.rs", "c": "src/constants.rs", "e": "src/error.rs", "p": "src/core/store/persistence.rs"},
    uses=["use vstd::slice::*;"],
    prelude=["bytes.rs"],
    rules=["le", "sub", "tovec", "tryinto_letelse", "slice_ne"],
    vec_receivers=["record.key"],
    items=[
        ("error_enum", "e"),
        ("const", "c", "FEOX_BLOCK_SIZE"),
        ("const", "c", "SECTOR_HEADER_SIZE"),
        ("const", "c", "SECTOR_MARKER"),
        ("const", "c", "FEOX_DATA_START_BLOCK"),
        ("const", "c", "MAX_DEVICE_SIZE"),
        # Record reduced to the three plain fields these functions read (stated drop):
        ("raw", "pub struct Record {\n    pub key: Vec<u8>,\n    pub value_len: usize,\n    pub timestamp: u64,\n}"),
        ("type", "f", "FormatV1"),
        ("type", "f", "FormatV2"),
        # trait methods extracted as inherent methods of the two unit structs (trait object dispatch dropped)
        ("impl", "f", "FormatV1", FMT, {"trait": "RecordFormat", "header": "impl FormatV1 {"}),
        ("impl", "f", "FormatV2", FMT, {"trait": "RecordFormat", "header": "impl FormatV2 {"}),
        ("fn", "f", "sector_holds_record"),
        ("fn", "p", "validate_device_size"),
    ],
    contracts="contracts.vc",
    spec=["spec.rs"],
)
