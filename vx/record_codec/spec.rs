// Independent statement of the record head layout (README "Storage Format"; format.rs doc comments):
//   v1     : marker(2) token(2) key_len(2) key value_len(8) timestamp(8)              value...
//   v2, v3 : marker(2) token(2) key_len(2) key value_len(8) timestamp(8) expiry(8)    value...
// All integers little-endian. `fixed` is 16 for v1 and 24 for v2/v3.

pub open spec fn field(data: Seq<u8>, at: int, n: int) -> nat {
    le_val(data.subrange(at, at + n))
}

pub open spec fn klen_of(data: Seq<u8>) -> int {
    field(data, 4, 2) as int
}

// the buffer holds a complete head for a key of the declared length
pub open spec fn head_fits(data: Seq<u8>, fixed: int) -> bool {
    data.len() >= 6 && 6 + klen_of(data) + fixed <= data.len()
}

pub open spec fn key_of(data: Seq<u8>) -> Seq<u8> {
    data.subrange(6, 6 + klen_of(data))
}

pub open spec fn vlen_of(data: Seq<u8>) -> nat {
    field(data, 6 + klen_of(data), 8)
}

pub open spec fn ts_of(data: Seq<u8>) -> nat {
    field(data, 14 + klen_of(data), 8)
}

pub open spec fn expiry_of(data: Seq<u8>) -> nat {
    field(data, 22 + klen_of(data), 8)
}

pub proof fn lemma_field_bounds(data: Seq<u8>, at: int, n: int)
    requires 0 <= at, at + n <= data.len(), n == 2 || n == 4 || n == 8,
    ensures
        n == 2 ==> field(data, at, n) < 0x1_0000 && field(data, at, n) == data[at] as nat + 256 * (data[at + 1] as nat),
        n == 4 ==> field(data, at, n) < 0x1_0000_0000,
        n == 8 ==> field(data, at, n) < 0x1_0000_0000_0000_0000,
{
    lemma_le_val_bound(data.subrange(at, at + n));
}
