// (no extra spec)
