UNIT = dict(
    sources={"s": "src/core/ttl_sweep.rs"},
    uses=["use std::sync::Arc;"],
    prelude=["sampler_opaque.rs"],
    rules=["samplermisc", "sig_sampler"],
    inline_helpers=False,
    forbid=[r"\.\s*(map|filter|min|max)\s*\(", r"random_range"],
    lifts={
        "sample_ttl_entries": [dict(
            call=r"hash_table\s*\.\s*scan\s*\(",
            name="sample_ttl_visit",
            params=["key: &Vec<u8>", "value: &Arc<crate::core::record::Record>"],
            sig="fn sample_ttl_visit(key: &Vec<u8>, value: &Arc<Record>, sample_size: usize, rng: &mut RngH, candidates: &mut Vec<(Vec<u8>, Arc<Record>)>, seen: &mut usize)",
            replace="hash_table.scan_lifted(sample_size, rng, &mut candidates, &mut seen)",
            deref=["seen"],
        )],
    },
    items=[
        ("fn", "s", "sample_ttl_entries"),
    ],
    contracts="contracts.vc",
    spec=["spec.rs"],
)
