pub open spec fn extent_blocks(entry: &WriteEntry, format: &FormatAny) -> int {
    (format.fixed() + entry.record.key@.len() + entry.record.value_len + 4095) / 4096
}

pub open spec fn sum_blocks(group: Seq<WriteEntry>, format: &FormatAny) -> int
    decreases group.len(),
{
    if group.len() == 0 { 0 } else { extent_blocks(&group[0], format) + sum_blocks(group.drop_first(), format) }
}

pub open spec fn all_bounded(group: Seq<WriteEntry>) -> bool {
    forall|i: int| 0 <= i < group.len() ==> record_bounded(&*(#[trigger] group[i]).record)
}

// group.iter().map(|entry| format_extent_size(entry, format) as u64).sum::<u64>()   (rule R-sum)
#[verifier::external_body]
fn sum_extent_sizes(group: &Vec<WriteEntry>, format: &FormatAny) -> (r: u64)
    requires all_bounded(group@), sum_blocks(group@, format) <= u64::MAX,
    ensures r as int == sum_blocks(group@, format),
{
    unimplemented!()
}

spec fn entries_of(w: Seq<PreparedWrite>) -> Seq<WriteEntry> {
    w.map_values(|p: PreparedWrite| p.entry)
}

// retry_entries.extend(prepared_writes.drain(..).map(|write| write.entry))   (rule R-extend)
trait DrainEntries {
    fn drain_entries_into(&mut self, a: &mut Vec<WriteEntry>);
}
impl DrainEntries for Vec<PreparedWrite> {
    #[verifier::external_body]
    fn drain_entries_into(&mut self, a: &mut Vec<WriteEntry>)
        ensures
            final(a)@ == old(a)@ + entries_of(old(self)@),
            final(self)@.len() == 0,
    {
        unimplemented!()
    }
}

// Failure helpers of the batch path: contracts checked by the Kani unit wb_reservation
// (quarantine_contract, cleanup_scrubs_before_release, release_scrubbed_contract); here only their
// effect on the device log matters.
#[verifier::external_body]
fn quarantine_allocations(allocations: &Vec<PreparedWrite>) {
    unimplemented!()
}

pub uninterp spec fn cleanups(d: &DiskIO) -> nat;
// whether the last scrub-and-release cleanup on this handle succeeded
pub uninterp spec fn cleanup_succeeded(d: &DiskIO) -> bool;

#[verifier::external_body]
fn cleanup_failed_allocations(disk_io: &mut DiskIO, free_space: &FreeSpaceLock, allocations: &Vec<PreparedWrite>, stats: &Statistics, clear_journal: bool) -> (r: Result<()>)
    ensures
        cleanups(final(disk_io)) == cleanups(old(disk_io)) + 1,
        old(disk_io).log().is_prefix_of(final(disk_io).log()),
        (r is Ok) == cleanup_succeeded(final(disk_io)),
{
    unimplemented!()
}

// releasable.sort_unstable_by_key(|entry| entry.record.sector.load(..))   (rule R-sort): a permutation.
// The two consequences below follow from that and are stated directly.
#[verifier::external_body]
fn sort_by_sector(v: &mut Vec<WriteEntry>)
    ensures
        final(v)@.to_multiset() == old(v)@.to_multiset(),
        final(v)@.len() == old(v)@.len(),
        all_bounded(old(v)@) ==> all_bounded(final(v)@),
        forall|f: &FormatAny| sum_blocks(final(v)@, f) == sum_blocks(old(v)@, f),
{
    unimplemented!()
}

pub proof fn lemma_extent_bound(e: &WriteEntry, format: &FormatAny)
    requires record_bounded(&*e.record),
    ensures 1 <= extent_blocks(e, format) <= 0x1_0200,
{
    axiom_format_fixed(format);
}

pub proof fn lemma_sum_bound(g: Seq<WriteEntry>, format: &FormatAny)
    requires all_bounded(g),
    ensures 0 <= sum_blocks(g, format) <= 0x1_0200 * g.len(),
    decreases g.len(),
{
    if g.len() > 0 {
        lemma_extent_bound(&g[0], format);
        assert(all_bounded(g.drop_first())) by {
            assert forall|i: int| 0 <= i < g.drop_first().len() implies record_bounded(&*(#[trigger] g.drop_first()[i]).record) by {
                assert(g.drop_first()[i] == g[i + 1]);
            }
        }
        lemma_sum_bound(g.drop_first(), format);
    }
}

pub open spec fn markers_match(extents: Seq<(u64, usize)>, writes: Seq<WriteEntry>, format: &FormatAny) -> bool {
    &&& extents.len() == writes.len()
    &&& forall|i: int| 0 <= i < writes.len() ==> (#[trigger] extents[i]).0 == writes[i].record.sector.val()
            && extents[i].1 as int == extent_blocks(&writes[i], format)
}

// ---- the reservation word of an entry (Kani unit wb_reservation: reservation_word_contract). Stable model.
pub uninterp spec fn reserved_spec(e: &WriteEntry) -> Option<u64>;

#[verifier::external_body]
fn reserved_sector(entry: &WriteEntry) -> (r: Option<u64>)
    ensures r == reserved_spec(entry), r matches Some(s) ==> 16 <= s <= 0x1000_0000,
{
    unimplemented!()
}

// panics when the sector does not fit the 30-bit field
#[verifier::external_body]
fn reserve_sector(entry: &WriteEntry, sector: u64)
    requires sector < 0x4000_0000,
{
    unimplemented!()
}

#[verifier::external_body]
fn mark_reservation_dirty(entry: &WriteEntry) {
    unimplemented!()
}

// hands back the clean reservations of a batch whose allocation failed midway (Kani: release_allocations_contract)
#[verifier::external_body]
fn release_allocations(free_space: &FreeSpaceLock, allocations: &Vec<PreparedWrite>, stats: &Statistics) -> Result<()> {
    unimplemented!()
}

// unit record_encoder_vx: the extent image, a positive whole number of blocks
#[verifier::external_body]
fn prepare_record_data(record: &Arc<Record>, format: &FormatAny, disk_io: &DiskLock) -> (r: Result<Vec<u8>>)
    ensures r matches Ok(d) ==> d@.len() % 4096 == 0 && 4096 <= d@.len() <= 0x1_0200 * 4096,
{
    unimplemented!()
}

// seq_token.rs: overwrites bytes 2..4 of the head (Kani unit crc_token); length unchanged
#[verifier::external_body]
fn stamp_seq_token(data: &mut Vec<u8>, sector: u64, format: &FormatAny)
    ensures final(data)@.len() == old(data)@.len(),
{
    unimplemented!()
}

// retirement_queue.pending.lock().extend(V.drain(..))   (rule R-extend): the deletes move to the retirement queue
impl PendingGuard {
    #[verifier::external_body]
    fn extend_drained(self, v: &mut Vec<WriteEntry>)
        ensures final(v)@.len() == 0,
    {
        unimplemented!()
    }
}

#[verifier::external_body]
fn io_error_other() -> IoErrorOpaque { unimplemented!() }
#[verifier::external_body]
fn atomic_fence(o: Ordering) { unimplemented!() }

// prepared_writes.iter().map(|write| (write.sector.expect(..), write.sectors_needed)).collect()   (rule R-collect)
#[verifier::external_body]
fn journal_extents_of(w: &Vec<PreparedWrite>) -> (r: Vec<(u64, usize)>)
    requires forall|i: int| 0 <= i < w@.len() ==> (#[trigger] w@[i]).sector is Some,
    ensures
        r@.len() == w@.len(),
        forall|i: int| 0 <= i < w@.len() ==> #[trigger] r@[i] == (w@[i].sector->Some_0, w@[i].sectors_needed),
{
    unimplemented!()
}

// ---- what the batch path has to keep true about its own bookkeeping
spec fn prepared_wf(p: PreparedWrite) -> bool {
    &&& 1 <= p.sectors_needed <= 0x1_0200
    &&& record_bounded(&*p.entry.record)
    &&& (p.sector matches Some(s) ==> 16 <= s && s as int + p.sectors_needed as int <= 0x1002_0000)
}

spec fn all_prepared_wf(w: Seq<PreparedWrite>) -> bool {
    forall|i: int| 0 <= i < w.len() ==> prepared_wf(#[trigger] w[i])
}

// the first `n` prepared writes have their block run, and the data batch targets exactly those runs
spec fn placed(w: Seq<PreparedWrite>, batch: Seq<(u64, Bytes)>, n: int) -> bool {
    &&& batch.len() == n
    &&& forall|i: int| 0 <= i < n ==> (#[trigger] w[i]).sector == Some(batch[i].0)
}

spec fn sectors_of(batch: Seq<(u64, Bytes)>) -> Seq<u64> {
    batch.map_values(|b: (u64, Bytes)| b.0)
}

pub open spec fn failed_data(e: DiskEvent) -> bool {
    match e {
        DiskEvent::Data { sectors, ok } => !ok,
        _ => false,
    }
}

// device history of one batch, as far as it has got
pub open spec fn intent_durable(log: Seq<DiskEvent>, extents: Seq<(u64, usize)>) -> bool {
    &&& log.len() >= 1
    &&& log[0] == (DiskEvent::Journal { extents, ok: true })
    &&& forall|i: int| 1 <= i < log.len() ==> failed_data(#[trigger] log[i])
}

// the head sectors the intent journal names
pub open spec fn heads_of(extents: Seq<(u64, usize)>) -> Seq<u64> {
    extents.map_values(|e: (u64, usize)| e.0)
}

pub open spec fn data_durable(log: Seq<DiskEvent>, extents: Seq<(u64, usize)>) -> bool {
    &&& log.len() >= 2
    &&& log[0] == (DiskEvent::Journal { extents, ok: true })
    &&& log[log.len() - 1] == (DiskEvent::Data { sectors: heads_of(extents), ok: true })
    &&& forall|i: int| 1 <= i < log.len() - 1 ==> failed_data(#[trigger] log[i])
}

// C03/C09: a record's sector is published only when the device history of the batch reads
//   journal(intent for exactly the batch's extents) ok, [failed data attempts], data(written at exactly the journaled runs) ok, journal clear ok
pub open spec fn publish_ready(log: Seq<DiskEvent>, extents: Seq<(u64, usize)>) -> bool {
    &&& log.len() >= 3
    &&& log[0] == (DiskEvent::Journal { extents, ok: true })
    &&& log[log.len() - 2] == (DiskEvent::Data { sectors: heads_of(extents), ok: true })
    &&& log[log.len() - 1] == (DiskEvent::Clear { ok: true })
    &&& forall|i: int| 1 <= i < log.len() - 2 ==> failed_data(#[trigger] log[i])
}

spec fn extents_cover_batch(extents: Seq<(u64, usize)>, w: Seq<PreparedWrite>, batch: Seq<(u64, Bytes)>) -> bool {
    &&& extents.len() == batch.len()
    &&& extents.len() == w.len()
    &&& extents.len() > 0
    &&& forall|i: int| 0 <= i < extents.len() ==> (#[trigger] extents[i]).0 == batch[i].0 && extents[i].1 == w[i].sectors_needed
}

// retirement-queue flush (its core, process_deletions, is verified above); Ok(true) = retirements left to retry
#[verifier::external_body]
fn flush_pending_deletions(q: &RetirementQueue, disk_io: &DiskLock, free_space: &FreeSpaceLock, stats: &Statistics, format: &FormatAny) -> Result<bool> {
    unimplemented!()
}

// members of a retirement group are adjacent on the device: each starts where the previous one ends
pub open spec fn adjacent(a: WriteEntry, b: WriteEntry, format: &FormatAny) -> bool {
    b.record.sector.val() as int == a.record.sector.val() as int + extent_blocks(&a, format)
}

pub open spec fn contiguous(g: Seq<WriteEntry>, format: &FormatAny) -> bool {
    forall|i: int, j: int| 0 <= i && j == i + 1 && j < g.len() ==> #[trigger] adjacent(g[i], g[j], format)
}

// ---- shard ownership (C02 / C19: worker w owns shards w, w+W, w+2W, ...) ----
// the shards of a worker context are numbered by their position in `sharded_buffers`
pub open spec fn shards_wf(ctx: &WorkerContext) -> bool {
    forall|i: int| 0 <= i < ctx.sharded_buffers@.len() ==> (#[trigger] ctx.sharded_buffers@[i]).id() == i
}
// the j-th shard of worker w's stride when there are `count` workers
pub open spec fn owned(w: int, count: int, j: int) -> int { w + j * count }

pub proof fn lemma_owned_step(w: int, count: int, j: int)
    ensures owned(w, count, j + 1) == owned(w, count, j) + count, owned(w, count, 0) == w,
{
    assert((j + 1) * count == j * count + count) by (nonlinear_arith);
}
pub proof fn lemma_owned_mono(w: int, count: int, j: int, k: int)
    requires count > 0, owned(w, count, j) < owned(w, count, k),
    ensures j < k,
{
    if j >= k {
        assert(j * count >= k * count) by (nonlinear_arith) requires j >= k, count > 0;
    }
}
// the strides of workers 0..count partition the shard numbers: every shard belongs to the stride of exactly one worker
pub proof fn lemma_every_shard_owned(s: int, count: int)
    requires count > 0, s >= 0,
    ensures 0 <= s % count < count, s / count >= 0, owned(s % count, count, s / count) == s,
{
    vstd::arithmetic::div_mod::lemma_fundamental_div_mod(s, count);
    vstd::arithmetic::div_mod::lemma_mod_bound(s, count);
    vstd::arithmetic::div_mod::lemma_div_pos_is_pos(s, count);
    assert(count * (s / count) == (s / count) * count) by (nonlinear_arith);
}
pub proof fn lemma_owner_unique(w1: int, w2: int, count: int, j1: int, j2: int)
    requires 0 <= w1 < count, 0 <= w2 < count, owned(w1, count, j1) == owned(w2, count, j2),
    ensures w1 == w2, j1 == j2,
{
    if j1 < j2 {
        assert(j2 * count >= j1 * count + count) by (nonlinear_arith) requires j1 < j2, count > 0;
    } else if j2 < j1 {
        assert(j1 * count >= j2 * count + count) by (nonlinear_arith) requires j2 < j1, count > 0;
    }
}
