// byte-wise lexicographic order on keys (the order of Vec<u8> / [u8] comparisons and of the skip list)
pub open spec fn bytes_lt(a: Seq<u8>, b: Seq<u8>) -> bool
    decreases a.len(),
{
    if b.len() == 0 { false }
    else if a.len() == 0 { true }
    else if a[0] < b[0] { true }
    else if a[0] > b[0] { false }
    else { bytes_lt(a.drop_first(), b.drop_first()) }
}

pub open spec fn ascending(keys: Seq<Seq<u8>>) -> bool {
    forall|i: int, j: int| 0 <= i < j < keys.len() ==> bytes_lt(#[trigger] keys[i], #[trigger] keys[j])
}

pub proof fn lemma_lt_transitive(a: Seq<u8>, b: Seq<u8>, c: Seq<u8>)
    requires bytes_lt(a, b), bytes_lt(b, c),
    ensures bytes_lt(a, c),
    decreases a.len(),
{
    if a.len() == 0 {
    } else if a[0] < b[0] {
    } else if b[0] < c[0] {
    } else {
        lemma_lt_transitive(a.drop_first(), b.drop_first(), c.drop_first());
    }
}

pub proof fn lemma_lt_irreflexive(a: Seq<u8>)
    ensures !bytes_lt(a, a),
    decreases a.len(),
{
    if a.len() > 0 {
        lemma_lt_irreflexive(a.drop_first());
    }
}

// !(a < b) && b < c  ==>  !(c < a)  i.e. a >= b, b < c  ==>  a ... (used as: lower bound carries over to later keys)
pub proof fn lemma_ge_then_lt(a: Seq<u8>, b: Seq<u8>, c: Seq<u8>)
    requires !bytes_lt(b, a), bytes_lt(b, c),
    ensures !bytes_lt(c, a),
    decreases a.len(),
{
    // a <= b < c  ==>  a < c  ==> !(c < a)
    if bytes_lt(c, a) {
        lemma_lt_transitive(b, c, a);
    }
}

pub open spec fn in_range(k: Seq<u8>, start: Seq<u8>, end: Seq<u8>) -> bool {
    !bytes_lt(k, start) && !bytes_lt(end, k)
}

pub open spec fn has_key(res: Seq<(Vec<u8>, Vec<u8>)>, k: Seq<u8>) -> bool {
    exists|i: int| 0 <= i < res.len() && #[trigger] res[i].0@ == k
}
