UNIT = dict(
    sources={"r": "src/core/store/range.rs", "e": "src/error.rs", "c": "src/constants.rs"},
    uses=["use std::sync::Arc;"],
    prelude=["range_opaque.rs"],
    rules=["rangemisc"],
    forbid=[r"\.\s*(map|and_then|or_else|filter|min|max)\s*\(", r"epoch\s*::"],
    items=[
        ("error_enum", "e"),
        ("const", "c", "MAX_KEY_SIZE"),
        ("const", "r", "RANGE_PREALLOC_LIMIT"),
        ("const", "r", "RANGE_REPIN_INTERVAL"),
        ("impl", "r", "FeoxStore", ["range_query"], {"header": "impl FeoxStore {"}),
    ],
    contracts="contracts.vc",
    spec=["spec.rs"],
)
