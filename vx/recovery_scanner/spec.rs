// RecoveryScanner: a sliding read window over the device (C17: arithmetic on scan positions
// never overflows or indexes out of bounds; visit_blocks terminates).
impl<'a> RecoveryScanner<'a> {
    spec fn wf(&self) -> bool {
        &&& self.buffer@.len() % 4096 == 0
        &&& self.buffer_start as int + self.buffer@.len() as int / 4096 <= self.total_sectors as int
    }

    spec fn holds(&self, sector: u64) -> bool {
        self.buffer_start <= sector && (sector as int) < self.buffer_start as int + self.buffer@.len() as int / 4096
    }
}

// a chunk handed to the visitor: inside the requested range, a positive whole number of blocks
pub open spec fn chunk_ok(start: u64, blocks: u64, s: u64, b: Seq<u8>) -> bool {
    start <= s && b.len() > 0 && b.len() % 4096 == 0 && s as int + b.len() as int / 4096 <= start as int + blocks as int
}

// offset arithmetic of the window: block d of a buffer of whole blocks
pub proof fn lemma_block_offset(d: int, len: int)
    requires 0 <= d, len % 4096 == 0, d < len / 4096,
    ensures
        d * 4096 + 4096 <= len,
        d * (FEOX_BLOCK_SIZE as int) == d * 4096,
{
    assert(d * (FEOX_BLOCK_SIZE as int) == d * 4096) by (nonlinear_arith)
        requires FEOX_BLOCK_SIZE == 4096;
}

pub proof fn lemma_chunk_len(n: int, d: int, len: int)
    requires 0 <= d, 0 < n, len % 4096 == 0, d + n <= len / 4096,
    ensures
        n * (FEOX_BLOCK_SIZE as int) == n * 4096,
        d * 4096 + n * 4096 <= len,
        (n * 4096) % 4096 == 0,
        (n * 4096) / 4096 == n,
{
    assert(n * (FEOX_BLOCK_SIZE as int) == n * 4096) by (nonlinear_arith)
        requires FEOX_BLOCK_SIZE == 4096;
}
