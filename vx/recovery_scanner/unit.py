UNIT = dict(
    sources={"r": "src/core/store/recovery.rs", "c": "src/constants.rs", "e": "src/error.rs"},
    uses=["use vstd::slice::*;"],
    prelude=["bytes.rs", "bytes_w.rs", "scan_io.rs"],
    rules=["tryfrom", "ofilt", "sub", "minmax"],
    vec_receivers=["self.buffer"],
    items=[
        ("error_enum", "e"),
        ("const", "c", "FEOX_BLOCK_SIZE"),
        ("const", "r", "RECOVERY_SCAN_BLOCKS"),
        ("type", "r", "RecoveryScanner"),
        ("impl", "r", "RecoveryScanner", ["new", "block", "visit_blocks", "fill_at"], {"header": "impl<'a> RecoveryScanner<'a> {"}),
    ],
    contracts="contracts.vc",
    spec=["spec.rs"],
)
