UNIT = dict(
    sources={"r": "src/core/record.rs"},
    uses=["use std::sync::Arc;"],
    prelude=["epoch_opaque.rs"],
    rules=["treeslot"],
    inline_helpers=False,
    auto_fns=False,
    forbid=[r"\bunsafe\b", r"\bepoch\s*::", r"\bAtomic\s*::", r"\bOwned\s*::", r"mem\s*::", r"\bunprotected\b", r"from_raw", r"as_raw"],
    items=[
        ("impl", "r", "TreeSlot", ["*"], {"header": "impl TreeSlot {"}),
        ("impl", "r", "TreeSlot", ["drop"], {"header": "impl TreeSlot {", "trait": "Drop"}),
    ],
    contracts="contracts.vc",
    spec=["spec.rs"],
)
