// (no extra spec)
