UNIT = dict(
    sources={"i": "src/storage/io.rs", "c": "src/constants.rs", "j": "src/storage/allocation_journal.rs", "e": "src/error.rs"},
    uses=["use vstd::slice::*;"],
    prelude=["iometa_opaque.rs"],
    rules=["iometamisc", "sig_iometa"],
    inline_helpers=False,
    auto_fns=False,
    forbid=[r"\.\s*store\s*\(", r"copy_from_slice", r"vec!\["],
    items=[
        ("error_enum", "e"),
        ("const", "c", "FEOX_BLOCK_SIZE"),
        ("fn", "i", "metadata_block"),
        ("impl", "i", "DiskIO", ["read_allocation_journal", "write_metadata", "write_store_metadata", "initialize_store_metadata"], {"header": "impl DiskIO {"}),
    ],
    contracts="contracts.vc",
    spec=["spec.rs"],
)
