pub open spec fn ok_write_to(e: MEvent, sector: u64) -> bool {
    match e { MEvent::Write { sector: s, data, ok } => ok && s == sector, _ => false }
}
pub open spec fn write_data(e: MEvent) -> Seq<u8> {
    match e { MEvent::Write { sector, data, ok } => data, _ => Seq::empty() }
}
