// Independent statement of the record head after the 4-byte sector header (README "Storage Format"):
//   key_len u16 | key | value_len u64 | timestamp u64 | [expiry u64, v2/v3 only] | [value]
pub open spec fn head_v1(r: &Record) -> Seq<u8> {
    le_seq(rec_key_spec(r).len() % 0x1_0000, 2) + rec_key_spec(r) + le_seq(rec_value_len_spec(r) as nat, 8) + le_seq(rec_timestamp_spec(r) as nat, 8)
}

pub open spec fn head_v2(r: &Record) -> Seq<u8> {
    head_v1(r) + le_seq(rec_expiry_spec(r) as nat, 8)
}

pub open spec fn value_part(r: &Record, include_value: bool) -> Seq<u8> {
    if include_value && rec_resident_spec(r) is Some { rec_resident_spec(r)->Some_0 } else { Seq::<u8>::empty() }
}

pub proof fn lemma_le_seq_len2(v: nat)
    ensures le_seq(v, 2).len() == 2,
{
    reveal_with_fuel(le_seq, 3);
}

// total size rounded up to whole blocks
pub open spec fn pad_block(n: nat) -> nat {
    (((n + 4095) / 4096) * 4096) as nat
}

pub proof fn lemma_head_len(r: &Record)
    ensures
        head_v1(r).len() == 18 + rec_key_spec(r).len(),
        head_v2(r).len() == 26 + rec_key_spec(r).len(),
{
    reveal_with_fuel(le_seq, 9);
}

pub proof fn lemma_pad_block(total: int, sectors: int)
    requires 0 <= total, sectors == (total + 4096 - 1) / 4096,
    ensures
        sectors * (FEOX_BLOCK_SIZE as int) == pad_block(total as nat),
        sectors * 4096 >= total,
        sectors * 4096 < total + 4096,
{
    assert(sectors * (FEOX_BLOCK_SIZE as int) == sectors * 4096) by (nonlinear_arith)
        requires FEOX_BLOCK_SIZE == 4096;
}

pub open spec fn extent_image(head: Seq<u8>, value: Seq<u8>, padded: nat) -> Seq<u8> {
    le_seq(0xABCD, 2) + le_seq(0, 2) + head + value + Seq::new((padded - 4 - head.len() - value.len()) as nat, |i: int| 0u8)
}
