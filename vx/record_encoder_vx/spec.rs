// Independent statement of the record head after the 4-byte sector header (README "Storage Format"):
//   key_len u16 | key | value_len u64 | timestamp u64 | [expiry u64, v2/v3 only] | [value]
pub open spec fn head_v1(r: &Record) -> Seq<u8> {
    le_seq(rec_key_spec(r).len() % 0x1_0000, 2) + rec_key_spec(r) + le_seq(rec_value_len_spec(r) as nat, 8) + le_seq(rec_timestamp_spec(r) as nat, 8)
}

pub open spec fn head_v2(r: &Record) -> Seq<u8> {
    head_v1(r) + le_seq(rec_expiry_spec(r) as nat, 8)
}

pub open spec fn value_part(r: &Record, include_value: bool) -> Seq<u8> {
    if include_value && rec_resident_spec(r) is Some { rec_resident_spec(r)->Some_0 } else { Seq::<u8>::empty() }
}

pub proof fn lemma_le_seq_len2(v: nat)
    ensures le_seq(v, 2).len() == 2,
{
    reveal_with_fuel(le_seq, 3);
}
