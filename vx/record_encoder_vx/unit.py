TRAIT = """
// the part of `trait RecordFormat` this unit needs, with the contract every format must meet
pub trait RecordFormat {
    spec fn head(&self, r: &Record) -> Seq<u8>;
    fn serialize_record_into(&self, record: &Record, include_value: bool, data: &mut Vec<u8>)
        ensures final(data)@ == old(data)@ + self.head(record) + value_part(record, include_value);
}
"""

UNIT = dict(
    sources={"f": "src/storage/format.rs", "c": "src/constants.rs", "w": "src/storage/write_buffer.rs"},
    uses=["use vstd::slice::*;"],
    prelude=["bytes.rs", "bytes_w.rs", "record_opaque.rs"],
    rules=["opq_record", "tole", "resize", "sig_dyn_format"],
    items=[
        ("const", "c", "FEOX_BLOCK_SIZE"),
        ("const", "c", "SECTOR_HEADER_SIZE"),
        ("const", "c", "SECTOR_MARKER"),
        ("type", "f", "FormatV1"),
        ("type", "f", "FormatV2"),
        ("raw", TRAIT),
        ("impl", "f", "FormatV1", ["serialize_record_into"], {"trait": "RecordFormat", "header": "impl RecordFormat for FormatV1 {\n    open spec fn head(&self, r: &Record) -> Seq<u8> { head_v1(r) }"}),
        ("impl", "f", "FormatV2", ["serialize_record_into"], {"trait": "RecordFormat", "header": "impl RecordFormat for FormatV2 {\n    open spec fn head(&self, r: &Record) -> Seq<u8> { head_v2(r) }"}),
        ("fn", "w", "serialize_record_data"),
    ],
    contracts="contracts.vc",
    spec=["spec.rs"],
)
