TRAIT = """
// the part of `trait RecordFormat` this unit needs, with the contract every format must meet
pub trait RecordFormat {
    spec fn head(&self, r: &Record) -> Seq<u8>;
    // bytes of an extent head other than key and value: 4 + 2 + 8 + 8 (v1), + 8 (v2/v3)
    spec fn fixed(&self) -> nat;
    // the head has the length the size formula announces (the 4-byte sector header is not part of it)
    proof fn head_len(&self, r: &Record)
        ensures self.head(r).len() + 4 == self.fixed() + rec_key_spec(r).len(), self.fixed() <= 64;
    fn record_header_size(&self, key_len: usize) -> (r: usize)
        requires key_len <= 0x10_0000,
        ensures r == self.fixed() + key_len;
    fn total_size(&self, key_len: usize, value_len: usize) -> (r: usize)
        requires key_len <= 0x10_0000, value_len <= 0x1000_0000,
        ensures r == self.fixed() + key_len + value_len;
    fn serialize_record_into(&self, record: &Record, include_value: bool, data: &mut Vec<u8>)
        ensures final(data)@ == old(data)@ + self.head(record) + value_part(record, include_value);
}
"""

UNIT = dict(
    sources={"f": "src/storage/format.rs", "c": "src/constants.rs", "w": "src/storage/write_buffer.rs", "e": "src/error.rs"},
    uses=["use vstd::slice::*;"],
    prelude=["bytes.rs", "bytes_w.rs", "record_opaque.rs"],
    rules=["opq_record", "tole", "resize", "divceil", "sig_dyn_format"],
    items=[
        ("error_enum", "e"),
        ("const", "c", "FEOX_BLOCK_SIZE"),
        ("const", "c", "SECTOR_HEADER_SIZE"),
        ("const", "c", "SECTOR_MARKER"),
        ("type", "f", "FormatV1"),
        ("type", "f", "FormatV2"),
        ("raw", TRAIT),
        ("impl", "f", "FormatV1", ["record_header_size", "total_size", "serialize_record_into"], {"trait": "RecordFormat", "header": "impl RecordFormat for FormatV1 {\n    open spec fn head(&self, r: &Record) -> Seq<u8> { head_v1(r) }\n    open spec fn fixed(&self) -> nat { 22 }\n    proof fn head_len(&self, r: &Record) { lemma_head_len(r); }"}),
        ("impl", "f", "FormatV2", ["record_header_size", "total_size", "serialize_record_into"], {"trait": "RecordFormat", "header": "impl RecordFormat for FormatV2 {\n    open spec fn head(&self, r: &Record) -> Seq<u8> { head_v2(r) }\n    open spec fn fixed(&self) -> nat { 30 }\n    proof fn head_len(&self, r: &Record) { lemma_head_len(r); }"}),
        ("raw", open(__import__("os").path.join(__import__("os").path.dirname(__file__), "..", "prelude", "deferred_opaque.rs")).read()),
        ("fn", "w", "prepare_record_data"),
        ("fn", "w", "serialize_record_data"),
    ],
    contracts="contracts.vc",
    spec=["spec.rs"],
)
