// visit_blocks with the CRC-folding visitor (rule R-visitcrc): same contract as visit_blocks, which is
// verified against its body above; the visitor `|_, tail| { crc = crc32c(crc, tail); true }` has no
// precondition and never stops the walk.
impl<'a> RecoveryScanner<'a> {
    #[verifier::external_body]
    fn visit_blocks_crc(&mut self, start: u64, blocks: u64, crc: &mut u32) -> (r: Result<bool>)
        requires old(self).wf(),
        ensures
            final(self).wf() && final(self).total_sectors == old(self).total_sectors,
            (start as int + blocks as int > old(self).total_sectors as int) ==> r is Err,
    {
        unimplemented!()
    }
}

// post-scan pass over the rebuilt index (unit expired_winners verifies it): appends the extents of expired winners
impl FeoxStore {
    #[verifier::external_body]
    pub fn remove_expired_recovery_winners(&self, now: u64, format: &FormatAny, retired_extents: &mut Vec<(u64, usize)>) -> Result<()> { unimplemented!() }
}
