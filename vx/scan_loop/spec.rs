// visit_blocks with the CRC-folding visitor (rule R-visitcrc): same contract as visit_blocks, which is
// verified against its body above; the visitor `|_, tail| { crc = crc32c(crc, tail); true }` has no
// precondition and never stops the walk.
impl<'a> RecoveryScanner<'a> {
    #[verifier::external_body]
    fn visit_blocks_crc(&mut self, start: u64, blocks: u64, crc: &mut u32) -> (r: Result<bool>)
        requires old(self).wf(),
        ensures
            final(self).wf() && final(self).total_sectors == old(self).total_sectors,
            (start as int + blocks as int > old(self).total_sectors as int) ==> r is Err,
    {
        unimplemented!()
    }
}

// (the post-scan pass remove_expired_recovery_winners is a `sigshim` item of the unit: an opaque callee whose signature is read from the source; unit expired_winners verifies it)

// ---- read-only opens mask the journaled extents instead of replaying them (C15 / C04) ----
pub open spec fn sorted_by_start(j: Seq<(u64, usize)>) -> bool {
    forall|a: int, b: int| 0 <= a < b < j.len() ==> j[a].0 <= j[b].0
}
// sector s lies inside one of the journaled extents
pub open spec fn in_journal(j: Seq<(u64, usize)>, s: int) -> bool {
    exists|i: int| 0 <= i < j.len() && (#[trigger] j[i]).0 <= s < j[i].0 as int + j[i].1 as int
}
