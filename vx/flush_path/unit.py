UNIT = dict(
    sources={"p": "src/core/store/persistence.rs", "w": "src/storage/write_buffer.rs", "e": "src/error.rs"},
    uses=["use std::sync::Arc;"],
    prelude=["flush_opaque.rs", "vecqueue.rs"],
    rules=["updmisc", "flushmisc", "forvec", "eprint", "minmax"],
    forvec=["responses"],
    forbid=[r"\.\s*iter\s*\(\s*\)\s*\.\s*(map|filter|filter_map|enumerate|all|any)\s*\(", r"\.\s*collect\s*::"],
    items=[
        ("error_enum", "e"),
        ("impl", "p", "FeoxStore", ["flush_all"], {"header": "impl FeoxStore {"}),
        ("impl", "p", "FeoxStore", ["drop"], {"header": "impl FeoxStore {", "trait": "Drop"}),
        ("impl", "w", "WriteBuffer", ["force_flush"], {"header": "impl WriteBuffer {"}),
    ],
    contracts="contracts.vc",
    spec=["spec.rs"],
)
