pub open spec fn ids_ok(s: Seq<usize>, n: int) -> bool {
    forall|i: int| 0 <= i < s.len() ==> (#[trigger] s[i]) < n
}

pub open spec fn resp_ok(s: Seq<(usize, ReplyRx)>, n: int) -> bool {
    forall|i: int| 0 <= i < s.len() ==> (#[trigger] s[i]).0 < n
}
