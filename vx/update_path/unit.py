UNIT = dict(
    sources={"i": "src/core/store/internal.rs", "o": "src/core/store/operations.rs", "s": "src/core/ttl_sweep.rs", "a": "src/core/store/atomic.rs", "e": "src/error.rs"},
    uses=["use std::sync::Arc;"],
    prelude=["upd_opaque.rs", "vecqueue.rs"],
    rules=["updmisc", "forvec", "sig_upd"],
    forvec=["candidates", "retired"],
    items=[
        ("error_enum", "e"),
        ("impl", "i", "FeoxStore", ["note_expired_record?", "update_record_with_ttl", "update_record_with_ttl_bytes", "retire_expired_if_current"], {"header": "impl FeoxStore {"}),
        ("impl", "o", "FeoxStore", ["delete_with_timestamp", "insert_with_timestamp_and_ttl_internal", "insert_bytes_with_expiry"], {"header": "impl FeoxStore {"}),
        ("impl", "a", "FeoxStore", ["replace_record_if_current"], {"header": "impl FeoxStore {"}),
        ("fn", "s", "sample_and_expire_batch"),
    ],
    contracts="contracts.vc",
    spec=["spec.rs"],
)
