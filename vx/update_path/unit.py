UNIT = dict(
    sources={"i": "src/core/store/internal.rs", "e": "src/error.rs"},
    uses=["use std::sync::Arc;"],
    prelude=["upd_opaque.rs"],
    rules=["updmisc"],
    items=[
        ("error_enum", "e"),
        ("impl", "i", "FeoxStore", ["update_record_with_ttl", "update_record_with_ttl_bytes"], {"header": "impl FeoxStore {"}),
    ],
    contracts="contracts.vc",
    spec=["spec.rs"],
)
