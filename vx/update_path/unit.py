UNIT = dict(
    sources={"i": "src/core/store/internal.rs", "o": "src/core/store/operations.rs", "e": "src/error.rs"},
    uses=["use std::sync::Arc;"],
    prelude=["upd_opaque.rs"],
    rules=["updmisc", "sig_upd"],
    items=[
        ("error_enum", "e"),
        ("impl", "i", "FeoxStore", ["update_record_with_ttl", "update_record_with_ttl_bytes", "retire_expired_if_current"], {"header": "impl FeoxStore {"}),
        ("impl", "o", "FeoxStore", ["delete_with_timestamp", "insert_with_timestamp_and_ttl_internal", "insert_bytes_with_expiry"], {"header": "impl FeoxStore {"}),
    ],
    contracts="contracts.vc",
    spec=["spec.rs"],
)
