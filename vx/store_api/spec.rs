pub open spec fn key_ok(len: nat) -> bool { 1 <= len <= MAX_KEY_SIZE }
pub open spec fn new_key_ok(store: &FeoxStore, len: nat) -> bool {
    key_ok(len) && (store.memory_only || len <= MAX_RECOVERABLE_KEY_SIZE || (store.format_version == 1 && len <= MAX_RECOVERABLE_KEY_SIZE_V1))
}
pub open spec fn value_ok(len: nat) -> bool { 1 <= len <= MAX_VALUE_SIZE }
pub open spec fn resolved(key: Seq<u8>, timestamp: Option<u64>) -> (u64, bool) {
    match timestamp {
        Some(t) => if t != 0 { (t, true) } else { (clock_next_val(key, wall_now()), false) },
        None => (clock_next_val(key, wall_now()), false),
    }
}
