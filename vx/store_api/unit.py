UNIT = dict(
    sources={"o": "src/core/store/operations.rs", "t": "src/core/store/ttl.rs", "a": "src/core/store/atomic.rs", "j": "src/core/store/json_patch.rs", "e": "src/error.rs", "c": "src/constants.rs"},
    uses=["use std::sync::Arc;"],
    prelude=["api_opaque.rs"],
    rules=["updmisc", "ttlmisc", "sig_upd"],
    inline_helpers=False,
    forbid=[r"\.\s*(map|and_then|or_else|filter)\s*\("],
    items=[
        ("error_enum", "e"),
        ("impl", "o", "FeoxStore", ["insert", "insert_with_timestamp", "insert_bytes", "insert_bytes_with_timestamp", "insert_bytes_with_timestamp_and_ttl_internal",
                                    "insert_migrated_bytes", "delete", "get_size", "validate_key_value", "validate_new_key", "validate_key",
                                    "get_timestamp", "resolve_timestamp", "observe_published_timestamp"], {"header": "impl FeoxStore {"}),
        ("impl", "t", "FeoxStore", ["insert_with_ttl", "insert_with_ttl_and_timestamp", "insert_bytes_with_ttl", "insert_bytes_with_ttl_and_timestamp"], {"header": "impl FeoxStore {"}),
        ("impl", "a", "FeoxStore", ["atomic_increment", "atomic_increment_with_timestamp", "atomic_increment_with_ttl", "compare_and_swap", "compare_and_swap_with_timestamp", "compare_and_swap_with_ttl"], {"header": "impl FeoxStore {"}),
        ("impl", "j", "FeoxStore", ["json_patch"], {"header": "impl FeoxStore {"}),
    ],
    contracts="contracts.vc",
    spec=["spec.rs"],
)
