// (no extra spec)
