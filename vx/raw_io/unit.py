UNIT = dict(
    sources={"i": "src/storage/io.rs", "c": "src/constants.rs", "e": "src/error.rs"},
    uses=[],
    prelude=["rawio_opaque.rs"],
    rules=["cfgunix", "veczero", "rawio"],
    inline_helpers=False,
    auto_fns=False,
    forbid=[r"\bunsafe\b", r"\blibc\s*::", r"as_mut_ptr", r"as_ptr", r"#\s*\[\s*cfg", r"copy_from_slice", r"format!"],
    items=[
        ("error_enum", "e"),
        ("const", "c", "FEOX_BLOCK_SIZE"),
        ("const", "i", "RETIREMENT_WRITE_BLOCKS"),
        ("impl", "i", "DiskIO", ["read_sectors_sync", "write_sectors_sync", "flush", "write_retirement_extent_direct"], {"header": "impl DiskIO {"}),
    ],
    contracts="contracts.vc",
    spec=["spec.rs"],
)
