// (no extra spec)
