UNIT = dict(
    sources={"w": "src/storage/write_buffer.rs"},
    uses=["use std::sync::Arc;"],
    prelude=["shutdown_opaque.rs"],
    rules=["wbshutdown", "forvec", "sig_wbshutdown"],
    forvec=["handles"],
    inline_helpers=False,
    auto_fns=False,
    forbid=[r"\.\s*lock\s*\(", r"\.\s*join\s*\(", r"mem\s*::\s*take"],
    items=[
        ("impl", "w", "WriteBuffer", ["initiate_shutdown", "finish_shutdown"], {"header": "impl WriteBuffer {"}),
    ],
    contracts="contracts.vc",
    spec=["spec.rs"],
)
