UNIT = dict(
    sources={"i": "src/storage/io.rs", "c": "src/constants.rs", "j": "src/storage/allocation_journal.rs", "e": "src/error.rs"},
    uses=[],
    prelude=["iometa_opaque.rs"],
    rules=["journalpos"],
    inline_helpers=False,
    auto_fns=False,
    forbid=[r"\.\s*load\s*\(", r"\.\s*store\s*\("],
    items=[
        ("error_enum", "e"),
        ("const", "c", "FEOX_BLOCK_SIZE"),
        ("const", "j", "ALLOCATION_JOURNAL_SLOTS"),
        ("const", "j", "ALLOCATION_JOURNAL_START_BLOCK"),
        ("const", "j", "ALLOCATION_JOURNAL_SLOT_BLOCKS"),
        ("impl", "i", "DiskIO", ["next_journal_position", "journal_sector"], {"header": "impl DiskIO {"}),
    ],
    contracts="contracts.vc",
    spec=["spec.rs"],
)
