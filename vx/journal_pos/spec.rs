// (no extra spec)
