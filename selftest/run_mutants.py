#!/usr/bin/env python3
"""Checker health: apply each seeded mutant to a scratch copy of /repo and run the
property's check against it (VERIF_REPO). Not property evidence.
usage: run_mutants.py [id-prefix ...]
"""
import json, os, shutil, subprocess, sys, time
VERIF = os.path.dirname(os.path.dirname(os.path.abspath(__file__)))
REPO = "/repo"
muts = json.load(open(os.path.join(VERIF, "selftest", "mutants.json")))
sel = sys.argv[1:]
rows = []
for m in muts:
    if sel and not any(m["id"].startswith(s) for s in sel):
        continue
    d = os.path.join(VERIF, ".scratch", "mut-" + m["id"])
    shutil.rmtree(d, ignore_errors=True)
    os.makedirs(d)
    subprocess.run(["rsync", "-a", "--exclude", "target", "--exclude", ".git", REPO + "/", d + "/"], check=True)
    try:
        for e in m["edits"]:
            p = os.path.join(d, e["file"])
            s = open(p).read()
            if s.count(e["old"]) < 1:
                raise SystemExit("mutant %s: pattern not found in %s: %r" % (m["id"], e["file"], e["old"][:60]))
            s = s.replace(e["old"], e["new"], 1)
            open(p, "w").write(s)
        targets = [[p_] for p_ in m["properties"]]
        if os.environ.get("MUT_UNITS") and m.get("units"):
            # developer shortcut: only the units the mutant is aimed at (faster than the whole property)
            targets = [["--unit", u_] for u_ in m["units"]]
        for tgt in targets:
            prop = tgt[-1]
            t0 = time.time()
            r = subprocess.run([os.path.join(VERIF, "check")] + tgt, env=dict(os.environ, VERIF_REPO=d, VERIF_NO_EVIDENCE="1"),
                               capture_output=True, text=True)
            got = {0: "pass", 1: "violation", 2: "undecided"}.get(r.returncode, "rc%d" % r.returncode)
            ok = got == m["expect"]
            line = next((l for l in r.stdout.splitlines() if l.startswith(("VIOLATION", "UNDECIDED"))), "")
            det = next((l.strip() for l in r.stdout.splitlines() if l.startswith(("  obligation", "  failed"))), "")
            rows.append((m["id"], prop, m["expect"], got, ok))
            print("%-6s %-4s expect=%-9s got=%-9s %s  %.0fs  %s %s" % (m["id"], prop, m["expect"], got, "OK " if ok else "MISS", time.time() - t0, line[:150], det[:160]), flush=True)
    finally:
        shutil.rmtree(d, ignore_errors=True)
bad = [r for r in rows if not r[4]]
print("%d/%d as expected" % (len(rows) - len(bad), len(rows)))
sys.exit(1 if bad else 0)
