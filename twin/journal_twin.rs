#[cfg(test)]
mod verif_twin_journal {
    //! Twin of the journal unit (appended to allocation_journal.rs in a scratch copy by lib/twin.py): a bounded exhaustive
    //! comparison of the REAL encode_active / decode pair with the unit's statement "a slot is accepted iff it is a valid
    //! image; the decoded state is the faithful reading of the slot". Never used to decide the property on the unchanged
    //! tree: it attaches a failing input to a failed obligation, or decides a tree whose proof cannot be rebuilt.
    use super::*;

    fn valid(extents: &[(u64, usize)], total: u64) -> bool {
        for (i, &(s, n)) in extents.iter().enumerate() {
            if s < FEOX_DATA_START_BLOCK || n == 0 || s + n as u64 > total {
                return false;
            }
            for &(s2, n2) in &extents[..i] {
                if s < s2 + n2 as u64 && s2 < s + n as u64 {
                    return false;
                }
            }
        }
        true
    }

    #[test]
    fn twin() {
        let total: u64 = FEOX_DATA_START_BLOCK + 8;
        let mut lists: Vec<Vec<(u64, usize)>> = vec![vec![]];
        let mut atoms = Vec::new();
        for s in (FEOX_DATA_START_BLOCK - 1)..(total + 1) {
            for n in 0..4usize {
                atoms.push((s, n));
            }
        }
        for a in &atoms {
            lists.push(vec![*a]);
            for b in &atoms {
                lists.push(vec![*a, *b]);
            }
        }
        // a few three-extent lists in every order
        let base = FEOX_DATA_START_BLOCK;
        for perm in [[0, 1, 2], [0, 2, 1], [1, 0, 2], [1, 2, 0], [2, 0, 1], [2, 1, 0]] {
            let e = [(base, 1usize), (base + 2, 2), (base + 5, 1)];
            lists.push(perm.iter().map(|&i| e[i]).collect());
            let o = [(base, 2usize), (base + 1, 2), (base + 5, 1)];
            lists.push(perm.iter().map(|&i| o[i]).collect());
        }
        let mut checked = 0u64;
        for extents in &lists {
            for generation in [1u64, 7] {
                let Ok(image) = encode_active(generation, extents) else {
                    continue;
                };
                // slot 0 holds the image, slot 1 is blank
                let mut data = vec![0u8; JOURNAL_SLOT_SIZE * ALLOCATION_JOURNAL_SLOTS];
                data[..image.len()].copy_from_slice(&image);
                let got = decode(&data, total);
                checked += 1;
                let want_ok = valid(extents, total);
                match got {
                    Ok(state) => {
                        // with slot 1 blank, decode may fall back to "no journal" (an empty, older state): that is a rejection of slot 0
                        let accepted = state.generation == generation;
                        if accepted != want_ok || (accepted && state.extents != *extents) {
                            println!("TWIN-COUNTEREXAMPLE encode_active({generation}, {extents:?}) on a {total}-block device: decode gave generation {} extents {:?}; the slot is {} by the layout statement", state.generation, state.extents, if want_ok { "VALID and must be read back as written" } else { "INVALID and must be rejected" });
                            panic!("journal twin");
                        }
                    }
                    Err(_) => {
                        if want_ok {
                            println!("TWIN-COUNTEREXAMPLE encode_active({generation}, {extents:?}) on a {total}-block device: decode failed although the slot is a valid image (extents in bounds, non-empty, pairwise disjoint)");
                            panic!("journal twin");
                        }
                    }
                }
            }
        }
        println!("TWIN-NO-COUNTEREXAMPLE {checked} encode/decode round trips (0-2 extents over a 10-block window with lengths 0-3, in every order; two 3-extent sets in all 6 orders)");
    }
}
