// Replay aid for Verus obligations of the free_space unit (Verus gives no model): bounded
// exhaustive search over call sequences on a small device, real FreeSpaceManager vs the
// set-of-free-blocks statement of C06. Prints the first failing sequence. NOT a proof step.
use feoxdb::storage::free_space::FreeSpaceManager;

// Two device shapes: a small one searched densely (data blocks 16..26) and a wide one searched with a
// sparse operation alphabet (400 data blocks: percentages, ties and "more than 99% in one run" states
// only exist on devices of more than 100 blocks).
use std::sync::atomic::{AtomicU64, Ordering};
static N_BLOCKS: AtomicU64 = AtomicU64::new(26);
#[allow(non_snake_case)]
fn N() -> u64 {
    N_BLOCKS.load(Ordering::Relaxed)
}

#[derive(Clone)]
struct Model {
    free: Vec<bool>, // index = block number
}

impl Model {
    fn new() -> Self {
        let mut free = vec![false; N() as usize];
        for b in 16..N() {
            free[b as usize] = true;
        }
        Model { free }
    }
    fn runs(&self) -> Vec<(u64, u64)> {
        let mut out = Vec::new();
        let mut b = 16;
        while b < N() {
            if self.free[b as usize] {
                let s = b;
                while b < N() && self.free[b as usize] {
                    b += 1;
                }
                out.push((s, b - s));
            } else {
                b += 1;
            }
        }
        out
    }
    fn total(&self) -> u64 {
        self.free.iter().filter(|x| **x).count() as u64
    }
}

#[derive(Clone, Copy, Debug)]
enum Op {
    Alloc(u64),
    Release(u64, u64),
}

fn check(fs: &FreeSpaceManager, m: &Model) -> Result<(), String> {
    let runs = m.runs();
    if fs.get_total_free() != m.total() * 4096 {
        return Err(format!("free total {} != 4096*{}", fs.get_total_free(), m.total()));
    }
    if fs.get_free_chunks_count() != runs.len() {
        return Err(format!("run count {} != {} (true free set, adjacent runs merged)", fs.get_free_chunks_count(), runs.len()));
    }
    let largest = runs.iter().map(|r| r.1).max().unwrap_or(0) * 4096;
    if fs.get_largest_free_chunk() != largest {
        return Err(format!("largest run {} != {}", fs.get_largest_free_chunk(), largest));
    }
    Ok(())
}

fn apply(fs: &mut FreeSpaceManager, m: &mut Model, op: Op) -> Result<(), String> {
    match op {
        Op::Alloc(n) => {
            let fits = m.runs().iter().any(|r| r.1 >= n);
            match fs.allocate_sectors(n) {
                Ok(s) => {
                    if n == 0 {
                        return Err("allocation of 0 blocks succeeded".into());
                    }
                    for b in s..s + n {
                        if b < 16 || b >= N() || !m.free[b as usize] {
                            return Err(format!("allocate({n}) returned [{s},{}) which is not inside the free set (block {b})", s + n));
                        }
                    }
                    for b in s..s + n {
                        m.free[b as usize] = false;
                    }
                }
                Err(_) => {
                    if n >= 1 && fits {
                        return Err(format!("allocate({n}) failed although a free run of that length exists"));
                    }
                }
            }
        }
        Op::Release(s, c) => {
            let valid = s >= 16 && c >= 1 && s + c <= N() && (s..s + c).all(|b| !m.free[b as usize]);
            let before = (fs.get_total_free(), fs.get_free_chunks_count(), fs.get_largest_free_chunk());
            match fs.release_sectors(s, c) {
                Ok(()) => {
                    if !valid {
                        return Err(format!("release({s},{c}) was accepted although it is out of bounds, reserved or overlaps free space"));
                    }
                    for b in s..s + c {
                        m.free[b as usize] = true;
                    }
                }
                Err(_) => {
                    if valid {
                        return Err(format!("release({s},{c}) of an allocated in-bounds range was rejected"));
                    }
                    let after = (fs.get_total_free(), fs.get_free_chunks_count(), fs.get_largest_free_chunk());
                    if after != before {
                        return Err(format!("rejected release({s},{c}) changed the free pool"));
                    }
                }
            }
        }
    }
    check(fs, m)
}

fn replay(seq: &[Op]) -> Result<(), (usize, String)> {
    let mut fs = FreeSpaceManager::new();
    fs.initialize(N() * 4096).map_err(|e| (0, format!("initialize failed: {e}")))?;
    let mut m = Model::new();
    check(&fs, &m).map_err(|e| (0, e))?;
    for (i, op) in seq.iter().enumerate() {
        apply(&mut fs, &mut m, *op).map_err(|e| (i, e))?;
    }
    Ok(())
}

#[test]
fn twin_search() {
    let depth: usize = std::env::var("TWIN_DEPTH").ok().and_then(|d| d.parse().ok()).unwrap_or(4);
    // small device, dense alphabet
    N_BLOCKS.store(26, Ordering::Relaxed);
    let mut ops = Vec::new();
    for n in 0..=4u64 {
        ops.push(Op::Alloc(n));
    }
    ops.push(Op::Alloc(10));
    for s in 15..=N() {
        for c in 0..=3u64 {
            ops.push(Op::Release(s, c));
        }
    }
    search(&ops, depth);
    // wide device, sparse alphabet
    N_BLOCKS.store(416, Ordering::Relaxed);
    let mut ops = Vec::new();
    for n in [1u64, 5, 100, 399, 400] {
        ops.push(Op::Alloc(n));
    }
    for s in [16u64, 17, 21, 22, 116, 411, 415] {
        for c in [1u64, 5, 100] {
            ops.push(Op::Release(s, c));
        }
    }
    search(&ops, depth.min(4));
    println!("TWIN-NO-COUNTEREXAMPLE depth={depth} (26-block device, dense; 416-block device, sparse alphabet, depth {})", depth.min(4));
}

fn search(ops: &[Op], depth: usize) {
    // iterative deepening, sequences enumerated in lexicographic order
    for d in 1..=depth {
        let mut idx = vec![0usize; d];
        loop {
            let seq: Vec<Op> = idx.iter().map(|i| ops[*i]).collect();
            if let Err((at, why)) = replay(&seq) {
                println!("TWIN-COUNTEREXAMPLE device_blocks={} sequence={:?} fails_at_step={} reason={}", N(), &seq[..=at.min(seq.len() - 1)], at, why);
                panic!("counterexample found");
            }
            let mut k = d;
            loop {
                if k == 0 {
                    break;
                }
                k -= 1;
                idx[k] += 1;
                if idx[k] < ops.len() {
                    break;
                }
                idx[k] = 0;
                if k == 0 {
                    k = usize::MAX;
                    break;
                }
            }
            if k == usize::MAX {
                break;
            }
        }
    }
}
