#[cfg(test)]
mod verif_io_replay {
    //! Real-file replay of a Kani counterexample for the journal writers (appended to io.rs in a
    //! scratch copy by lib/io_replay.py and run under `strace -e inject=...`): the REAL function, a
    //! real file, the kernel's syscalls, one injected EIO at the position the verifier chose.
    use super::*;
    use std::sync::atomic::Ordering;

    fn env_u64(name: &str) -> u64 {
        std::env::var(name).ok().and_then(|v| v.parse().ok()).unwrap_or(0)
    }

    #[test]
    fn replay() {
        let Ok(which) = std::env::var("VERIF_RP_FN") else {
            return; // not a replay run
        };
        let path = std::env::var("VERIF_RP_FILE").expect("VERIF_RP_FILE");
        let g0 = env_u64("VERIF_RP_GEN");
        let s0 = env_u64("VERIF_RP_SLOT") as usize;
        let fail_at = env_u64("VERIF_RP_FAIL") as usize; // 0 = the write fails, 1 = the fsync fails, 2 = no fault
        let file = std::fs::OpenOptions::new().read(true).write(true).create(true).truncate(true).open(&path).unwrap();
        file.set_len(1 << 20).unwrap();
        let io = DiskIO::new(Arc::new(file), false).unwrap();
        io.journal_generation.store(g0, Ordering::Release);
        io.journal_slot.store(s0, Ordering::Release);
        // delimiters in the syscall trace
        unsafe { libc::fdatasync(-1) };
        let r = match which.as_str() {
            "write_allocation_journal" => io.write_allocation_journal(&[(16, 1)]),
            "clear_allocation_journal" => io.clear_allocation_journal(),
            other => panic!("unknown function {other}"),
        };
        unsafe { libc::fdatasync(-1) };
        let g1 = io.journal_generation.load(Ordering::Acquire);
        let s1 = io.journal_slot.load(Ordering::Acquire);
        println!("RP-OBSERVED fn={which} g0={g0} s0={s0} fail_at={fail_at} result={} g1={g1} s1={s1}", if r.is_ok() { "Ok" } else { "Err" });
        // the contract of the ordering harnesses, on what really happened
        if fail_at >= 2 {
            assert!(r.is_ok(), "no fault injected, yet the call failed");
            assert!(g1 == g0 + 1 && s1 == (s0 + 1) % 2, "Ok: generation advances by exactly one and the slot alternates");
        } else {
            assert!(r.is_err(), "an I/O call failed but the function returned Ok");
            assert!(g1 == g0 && s1 == s0, "Err leaves the in-memory journal position unchanged");
        }
    }
}
