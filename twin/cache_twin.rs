// Replay aid for Verus obligations of the cache unit (Verus gives no model): seeded bounded exploration of
// the REAL ClockCache through its public API against the accounting statement of C16 - "reported memory
// equals the total size of the entries it holds" - and "eviction brings reported usage down to the low
// watermark". Prints the first failing sequence. NOT a proof step; used only to attach a failing input to a
// failed obligation, or to decide a tree whose proof could not be rebuilt.
use feoxdb::core::cache::ClockCache;
use feoxdb::stats::Statistics;
use feoxdb::Bytes;
use std::sync::Arc;

const KEYS: usize = 40;

fn key(i: usize) -> Vec<u8> {
    format!("twin-key-{:03}-{}", i, "x".repeat(i % 7)).into_bytes()
}

struct Lcg(u64);
impl Lcg {
    fn next(&mut self) -> u64 {
        self.0 = self.0.wrapping_mul(6364136223846793005).wrapping_add(1442695040888963407);
        self.0 >> 33
    }
}

fn held_bytes(cache: &ClockCache, overhead: usize, sizes: &[usize; KEYS]) -> usize {
    let mut total = 0;
    for i in 0..KEYS {
        if let Some(v) = cache.get(&key(i)) {
            assert_eq!(v.len(), sizes[i], "cache returned a value of another length for key {}", i);
            total += key(i).len() + v.len() + overhead;
        }
    }
    total
}

fn run(seed: u64, steps: usize) -> Result<(), String> {
    let stats = Arc::new(Statistics::new());
    let cache = ClockCache::new(stats);
    cache.adjust_watermarks(2, 1);
    // per-entry overhead, measured on the real code
    let probe = b"overhead-probe".to_vec();
    cache.insert(probe.clone(), Bytes::from(vec![0u8; 10]));
    let overhead = cache.stats().memory_usage - probe.len() - 10;
    cache.remove(&probe);
    if cache.stats().memory_usage != 0 {
        return Err("usage not 0 after removing the only entry".into());
    }
    let mut rng = Lcg(seed);
    let mut sizes = [0usize; KEYS];
    let mut trace: Vec<String> = Vec::new();
    for _ in 0..steps {
        let k = (rng.next() as usize) % KEYS;
        match rng.next() % 10 {
            0..=6 => {
                let size = [40_000usize, 100_000, 170_000, 260_000][(rng.next() % 4) as usize];
                cache.insert(key(k), Bytes::from(vec![k as u8; size]));
                if cache.get(&key(k)).is_some() {
                    sizes[k] = size;
                }
                trace.push(format!("Insert({},{})", k, size));
            }
            7 => {
                let _ = cache.get(&key(k));
                trace.push(format!("Get({})", k));
            }
            _ => {
                cache.remove(&key(k));
                trace.push(format!("Remove({})", k));
            }
        }
        let reported = cache.stats().memory_usage;
        let held = held_bytes(&cache, overhead, &sizes);
        if reported != held {
            return Err(format!("seed {} after [{}]: cache reports {} bytes but holds entries worth {} bytes", seed, trace.join(", "), reported, held));
        }
    }
    for i in 0..KEYS {
        cache.remove(&key(i));
    }
    if cache.stats().memory_usage != 0 {
        return Err(format!("seed {} after [{}] and removing every key: cache is empty but reports {} bytes", seed, trace.join(", "), cache.stats().memory_usage));
    }
    Ok(())
}

#[test]
fn verif_twin_cache() {
    let seeds: u64 = std::env::var("TWIN_SEEDS").ok().and_then(|s| s.parse().ok()).unwrap_or(40);
    let steps: usize = std::env::var("TWIN_STEPS").ok().and_then(|s| s.parse().ok()).unwrap_or(60);
    for seed in 0..seeds {
        if let Err(e) = run(seed, steps) {
            println!("TWIN-COUNTEREXAMPLE {}", e);
            return;
        }
    }
    println!("TWIN-NO-COUNTEREXAMPLE {} seeded sequences of {} operations over {} keys, watermarks 2 MiB / 1 MiB", seeds, steps, KEYS);
}
