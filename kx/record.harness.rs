#[cfg(kani)]
impl Record {
    pub(crate) fn extent_state_for_harness(&self) -> u32 {
        self.extent_state.load(Ordering::Acquire)
    }
}

#[cfg(kani)]
mod verif_kani_record {
    //! U11: extent reader-pin word and the successor-durability predicate (sequential contracts).
    use super::*;
    use crate::storage::seq_token::verif_kani_seq::{pl_lock_exclusive_slow, pl_lock_shared_slow, pl_mutex_lock_slow, pl_mutex_unlock_slow, pl_unlock_exclusive_slow, pl_unlock_shared_slow};

    fn rec(ts: u64) -> Record {
        Record::new(vec![b'k'], vec![1], ts)
    }

    #[kani::proof]
    #[kani::unwind(4)]
    #[kani::stub(parking_lot::RawRwLock::lock_shared_slow, pl_lock_shared_slow)]
    #[kani::stub(parking_lot::RawRwLock::lock_exclusive_slow, pl_lock_exclusive_slow)]
    #[kani::stub(parking_lot::RawRwLock::unlock_shared_slow, pl_unlock_shared_slow)]
    #[kani::stub(parking_lot::RawRwLock::unlock_exclusive_slow, pl_unlock_exclusive_slow)]
    #[kani::stub(parking_lot::RawMutex::lock_slow, pl_mutex_lock_slow)]
    #[kani::stub(parking_lot::RawMutex::unlock_slow, pl_mutex_unlock_slow)]
    fn extent_pin_word_contract() {
        let r: &'static Record = Box::leak(Box::new(rec(1)));
        let readers: u32 = kani::any();
        let retired: bool = kani::any();
        kani::assume(readers < EXTENT_READERS - 1);
        r.extent_state.store(readers | if retired { EXTENT_RETIRED } else { 0 }, Ordering::Release);
        assert!(r.extent_has_readers() == (readers != 0));
        let g = r.acquire_extent();
        if retired {
            assert!(g.is_none(), "a retired extent can no longer be pinned");
            assert!(r.extent_state.load(Ordering::Acquire) == readers | EXTENT_RETIRED, "a refused pin changes nothing");
        } else {
            assert!(g.is_some());
            assert!(r.extent_state.load(Ordering::Acquire) == readers + 1, "pin = readers + 1");
            assert!(r.extent_has_readers());
            r.retire_extent();
            assert!(r.extent_state.load(Ordering::Acquire) == (readers + 1) | EXTENT_RETIRED, "retiring sets the bit and never clears readers");
            assert!(r.acquire_extent().is_none());
            drop(g);
            assert!(r.extent_state.load(Ordering::Acquire) == readers | EXTENT_RETIRED, "dropping the guard releases exactly one pin");
            assert!(r.extent_has_readers() == (readers != 0), "the retirer sees zero readers only when every guard is gone");
        }
        kani::cover!(retired);
        kani::cover!(!retired && readers == 0);
    }

    // an old generation's extent may be released only if some successor is durable (sector != 0)
    // or the chain ends in a deleted record (refcount == 0)
    #[kani::proof]
    #[kani::unwind(5)]
    #[kani::stub(parking_lot::RawRwLock::lock_shared_slow, pl_lock_shared_slow)]
    #[kani::stub(parking_lot::RawRwLock::lock_exclusive_slow, pl_lock_exclusive_slow)]
    #[kani::stub(parking_lot::RawRwLock::unlock_shared_slow, pl_unlock_shared_slow)]
    #[kani::stub(parking_lot::RawRwLock::unlock_exclusive_slow, pl_unlock_exclusive_slow)]
    #[kani::stub(parking_lot::RawMutex::lock_slow, pl_mutex_lock_slow)]
    #[kani::stub(parking_lot::RawMutex::unlock_slow, pl_mutex_unlock_slow)]
    fn successor_durability_chain1() {
        let old = Arc::new(rec(1));
        let s1 = Arc::new(rec(2));
        let len: u8 = kani::any();
        kani::assume(len <= 1);
        let sec1: u64 = kani::any();
        let ref1: u32 = kani::any();
        s1.sector.store(sec1, Ordering::Release);
        s1.refcount.store(ref1, Ordering::Release);
        if len >= 1 {
            old.link_successor(&s1);
        }
        let got = old.successor_is_durable_or_deleted();
        let want = match len {
            0 => true,
            _ => sec1 > 0 || ref1 == 0,
        };
        assert!(got == want, "safe to release iff no successor, or a successor on the chain is durable, or the chain ends in a deleted record");
        if got && len >= 1 {
            assert!(old.successor_safe.load(Ordering::Acquire), "a positive answer is memoised");
        }
        kani::cover!(len == 1 && got);
        kani::cover!(len == 1 && !got);
        kani::cover!(len == 0);
        std::mem::forget(old);
        std::mem::forget(s1);
    }

    // an old generation's extent may be released only if some successor is durable (sector != 0)
    // or the chain ends in a deleted record (refcount == 0)
    #[kani::proof]
    #[kani::unwind(5)]
    #[kani::stub(parking_lot::RawRwLock::lock_shared_slow, pl_lock_shared_slow)]
    #[kani::stub(parking_lot::RawRwLock::lock_exclusive_slow, pl_lock_exclusive_slow)]
    #[kani::stub(parking_lot::RawRwLock::unlock_shared_slow, pl_unlock_shared_slow)]
    #[kani::stub(parking_lot::RawRwLock::unlock_exclusive_slow, pl_unlock_exclusive_slow)]
    #[kani::stub(parking_lot::RawMutex::lock_slow, pl_mutex_lock_slow)]
    #[kani::stub(parking_lot::RawMutex::unlock_slow, pl_mutex_unlock_slow)]
    fn successor_durability_contract() {
        let old = Arc::new(rec(1));
        let s1 = Arc::new(rec(2));
        let s2 = Arc::new(rec(3));
        let len: u8 = kani::any();
        kani::assume(len <= 2);
        let sec1: u64 = kani::any();
        let sec2: u64 = kani::any();
        let ref1: u32 = kani::any();
        let ref2: u32 = kani::any();
        s1.sector.store(sec1, Ordering::Release);
        s2.sector.store(sec2, Ordering::Release);
        s1.refcount.store(ref1, Ordering::Release);
        s2.refcount.store(ref2, Ordering::Release);
        if len >= 1 {
            old.link_successor(&s1);
        }
        if len >= 2 {
            s1.link_successor(&s2);
        }
        let got = old.successor_is_durable_or_deleted();
        let want = match len {
            0 => true,
            1 => sec1 > 0 || ref1 == 0,
            _ => sec1 > 0 || sec2 > 0 || ref2 == 0,
        };
        assert!(got == want, "safe to release iff no successor, or a successor on the chain is durable, or the chain ends in a deleted record");
        if got && len >= 1 {
            assert!(old.successor_safe.load(Ordering::Acquire), "a positive answer is memoised");
        }
        kani::cover!(len == 2 && got);
        kani::cover!(len == 2 && !got);
        kani::cover!(len == 1 && !got);
        std::mem::forget(old);
        std::mem::forget(s1);
        std::mem::forget(s2);
    }

    // release-side size formula for EVERY admissible key and value length (no bytes are touched:
    // the key buffer is allocated with the symbolic length but never written)
    #[kani::proof]
    #[kani::unwind(4)]
    #[kani::stub(parking_lot::RawRwLock::lock_shared_slow, pl_lock_shared_slow)]
    #[kani::stub(parking_lot::RawRwLock::lock_exclusive_slow, pl_lock_exclusive_slow)]
    #[kani::stub(parking_lot::RawRwLock::unlock_shared_slow, pl_unlock_shared_slow)]
    #[kani::stub(parking_lot::RawRwLock::unlock_exclusive_slow, pl_unlock_exclusive_slow)]
    #[kani::stub(parking_lot::RawMutex::lock_slow, pl_mutex_lock_slow)]
    #[kani::stub(parking_lot::RawMutex::unlock_slow, pl_mutex_unlock_slow)]
    fn record_size_formula_all_lengths() {
        let k: usize = kani::any();
        let v: usize = kani::any();
        kani::assume(k >= 1 && k <= MAX_KEY_SIZE && v >= 1 && v <= MAX_VALUE_SIZE);
        let mut key: Vec<u8> = Vec::with_capacity(k);
        unsafe { key.set_len(k) };
        kani::assume(key.capacity() == k); // exact-capacity keys, as produced by to_vec()/clone() (A7)
        let mut r = Record::new(key, Vec::new(), 1);
        r.value_len = v;
        assert!(r.calculate_size() == mem::size_of::<Record>() + k + v, "accounted size = fixed overhead + key length + value length, for every admissible length");
        kani::cover!(k > 65535);
        std::mem::forget(r);
    }
}
