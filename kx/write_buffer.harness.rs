#[cfg(kani)]
mod verif_kani_wb {
    //! Write-buffer reservation kernel: the failure helpers that decide whether a reserved extent
    //! stays owned by its entry or goes back to the free pool (C09 containment, C05 single owner).
    use super::*;
    use crate::storage::io::verif_kani_io::{mk_io, stub_mark_file_indeterminate};
    use crate::storage::seq_token::verif_kani_seq::leak_on_last_drop;
    use crate::storage::seq_token::verif_kani_seq::{pl_lock_exclusive_slow, pl_lock_shared_slow, pl_mutex_lock_slow, pl_mutex_unlock_slow, pl_unlock_exclusive_slow, pl_unlock_shared_slow};

    // ghost log of FreeSpaceManager::release_sectors calls, each with a symbolic outcome
    const RCAP: usize = 4;
    static mut R_N: usize = 0;
    static mut R_SECTOR: [u64; RCAP] = [0; RCAP];
    static mut R_COUNT: [u64; RCAP] = [0; RCAP];
    static mut R_OK: [bool; RCAP] = [false; RCAP];
    static mut R_AFTER_SCRUB: [bool; RCAP] = [false; RCAP];
    static mut SCRUB_CALLS: usize = 0;
    static mut SCRUB_OK: bool = true;
    static mut SCRUB_FIRST: u64 = 0;
    static mut SCRUB_LEN: usize = 0;
    static mut CLEAR_CALLS: usize = 0;

    fn stub_release_sectors(_fs: &mut FreeSpaceManager, start: u64, count: u64) -> Result<()> {
        unsafe {
            let i = R_N;
            assert!(i < RCAP, "release log capacity");
            R_SECTOR[i] = start;
            R_COUNT[i] = count;
            let ok: bool = kani::any();
            R_OK[i] = ok;
            R_AFTER_SCRUB[i] = SCRUB_CALLS > 0;
            R_N = i + 1;
            if ok { Ok(()) } else { Err(FeoxError::InvalidArgument) }
        }
    }

    fn stub_retire_extents(_io: &DiskIO, extents: &[(u64, usize)]) -> Result<()> {
        unsafe {
            SCRUB_CALLS += 1;
            SCRUB_LEN = extents.len();
            SCRUB_FIRST = if extents.is_empty() { 0 } else { extents[0].0 };
            if SCRUB_OK { Ok(()) } else { Err(FeoxError::IndeterminateWrite(std::io::Error::from(std::io::ErrorKind::Other))) }
        }
    }

    fn stub_clear_journal(_io: &DiskIO) -> Result<()> {
        unsafe { CLEAR_CALLS += 1 };
        Ok(())
    }

    fn stub_eprint(_args: std::fmt::Arguments<'_>) {}

    // std's unstable sort, replaced by the obviously correct sort of at most two elements
    // (CBMC otherwise unrolls ipnsort/heapsort for a slice whose length it cannot bound syntactically)
    fn stub_sort2<T, F>(v: &mut [T], is_less: &mut F)
    where
        F: FnMut(&T, &T) -> bool,
    {
        assert!(v.len() <= 2, "sort stub: at most two elements");
        if v.len() == 2 && is_less(&v[1], &v[0]) {
            v.swap(0, 1);
        }
    }

    // hand-back step as one ghost event (its own contract: release_scrubbed_single / _contract)
    fn stub_release_scrubbed(_fs: &mut FreeSpaceManager, allocations: &[PreparedWrite], _stats: &Statistics) -> Result<()> {
        unsafe {
            let i = R_N;
            assert!(i < RCAP);
            R_SECTOR[i] = allocations[0].sector.unwrap_or(0);
            R_COUNT[i] = allocations.len() as u64;
            R_OK[i] = true;
            R_AFTER_SCRUB[i] = SCRUB_CALLS > 0;
            R_N = i + 1;
        }
        Ok(())
    }

    fn reset() {
        unsafe {
            R_N = 0;
            SCRUB_CALLS = 0;
            CLEAR_CALLS = 0;
        }
    }

    fn entry_with(status: u32) -> WriteEntry {
        let e = WriteEntry::new(Operation::Insert, Arc::new(Record::new(vec![b'k'], vec![1], 1)));
        e.work_status.store(status, Ordering::Release);
        e
    }

    // a prepared write whose entry reserves `sector` (when Some) with symbolic flags
    fn any_prepared(sector: Option<u64>, sectors_needed: usize) -> PreparedWrite {
        let dirty: bool = kani::any();
        let quarantined: bool = kani::any();
        let mut status = match sector { Some(s) => s as u32, None => 0 };
        if sector.is_some() {
            if dirty { status |= RESERVATION_DIRTY; }
            if quarantined { status |= RESERVATION_QUARANTINED; }
        }
        PreparedWrite { data: Vec::new(), sectors_needed, entry: entry_with(status), sector }
    }

    fn any_sector() -> Option<u64> {
        let has: bool = kani::any();
        let s: u64 = kani::any();
        kani::assume(s >= 16 && s < (1u64 << 28));
        if has { Some(s) } else { None }
    }

    fn was_released(p: &PreparedWrite) -> Option<bool> {
        // Some(ok) if a release_sectors call covered this allocation's extent
        let s = p.sector?;
        unsafe {
            let mut i = 0;
            while i < R_N {
                if R_SECTOR[i] <= s && s + p.sectors_needed as u64 <= R_SECTOR[i] + R_COUNT[i] {
                    return Some(R_OK[i]);
                }
                i += 1;
            }
        }
        None
    }

    #[kani::proof]
    fn reservation_word_contract() {
        let s: u64 = kani::any();
        kani::assume(s >= 1 && s < (1u64 << 30));
        let e = entry_with(0);
        assert!(reserved_sector(&e).is_none());
        reserve_sector(&e, s);
        assert!(reserved_sector(&e) == Some(s) && !reservation_is_dirty(&e) && !reservation_is_quarantined(&e));
        mark_reservation_dirty(&e);
        assert!(reserved_sector(&e) == Some(s) && reservation_is_dirty(&e), "flags never disturb the sector number");
        quarantine_reservation(&e);
        assert!(reserved_sector(&e) == Some(s) && reservation_is_quarantined(&e) && reservation_is_dirty(&e));
        mark_reservation_clean(&e);
        assert!(reserved_sector(&e) == Some(s) && !reservation_is_dirty(&e) && reservation_is_quarantined(&e), "clean drops only the dirty flag: the reservation is still held");
        clear_reserved_sector(&e);
        assert!(reserved_sector(&e).is_none() && !reservation_is_quarantined(&e) && !reservation_is_dirty(&e), "clear forgets sector and flags");
        std::mem::forget(e);
    }

    // After a successful scrub: a sector handed back to the free pool is no longer reserved by its
    // entry (otherwise the retry writes into free space and the next allocation overwrites it);
    // a failed hand-back keeps the reservation; quarantined reservations are never released.
    #[kani::proof]
    #[kani::unwind(4)]
    #[kani::stub(core::slice::sort::unstable::sort, stub_sort2)]
    #[kani::stub(FreeSpaceManager::release_sectors, stub_release_sectors)]
    #[kani::stub(std::io::_eprint, stub_eprint)]
    #[kani::stub(parking_lot::RawRwLock::lock_shared_slow, pl_lock_shared_slow)]
    #[kani::stub(parking_lot::RawRwLock::lock_exclusive_slow, pl_lock_exclusive_slow)]
    #[kani::stub(parking_lot::RawRwLock::unlock_shared_slow, pl_unlock_shared_slow)]
    #[kani::stub(parking_lot::RawRwLock::unlock_exclusive_slow, pl_unlock_exclusive_slow)]
    #[kani::stub(parking_lot::RawMutex::lock_slow, pl_mutex_lock_slow)]
    #[kani::stub(parking_lot::RawMutex::unlock_slow, pl_mutex_unlock_slow)]
    fn release_scrubbed_contract() {
        reset();
        let n1: usize = kani::any();
        let n2: usize = kani::any();
        kani::assume(n1 >= 1 && n1 <= 8 && n2 >= 1 && n2 <= 8);
        let a = any_prepared(any_sector(), n1);
        let b = any_prepared(any_sector(), n2);
        // distinct extents (the allocator never hands out overlapping runs)
        if let (Some(x), Some(y)) = (a.sector, b.sector) {
            kani::assume(x + n1 as u64 <= y || y + n2 as u64 <= x);
        }
        let qa = reservation_is_quarantined(&a.entry);
        let qb = reservation_is_quarantined(&b.entry);
        let sa = a.entry.work_status.load(Ordering::Acquire);
        let sb = b.entry.work_status.load(Ordering::Acquire);
        let stats = Statistics::new();
        stats.disk_usage.store(1 << 40, Ordering::Relaxed);
        let mut fs = FreeSpaceManager::new();
        let allocs = [a, b];
        let r = release_scrubbed_allocations(&mut fs, &allocs, &stats);
        let mut released_bytes: u64 = 0;
        let mut any_fail = false;
        let mut k = 0;
        while k < 2 {
            let p = &allocs[k];
            let (q, before) = if k == 0 { (qa, sa) } else { (qb, sb) };
            match was_released(p) {
                Some(true) => {
                    assert!(!q && p.sector.is_some(), "only non-quarantined reservations are handed back");
                    assert!(reserved_sector(&p.entry).is_none(), "a sector handed back to the free pool is no longer reserved by its entry");
                    assert!(!reservation_is_dirty(&p.entry));
                    released_bytes += p.sectors_needed as u64 * FEOX_BLOCK_SIZE as u64;
                }
                Some(false) => {
                    assert!(!q);
                    assert!(p.entry.work_status.load(Ordering::Acquire) == before, "a failed hand-back leaves the reservation exactly as it was");
                    any_fail = true;
                }
                None => {
                    assert!(q || p.sector.is_none(), "every non-quarantined reservation is handed back (or attempted)");
                    assert!(p.entry.work_status.load(Ordering::Acquire) == before, "quarantined / unallocated entries are untouched");
                }
            }
            k += 1;
        }
        assert!(r.is_ok() == !any_fail, "Ok iff every hand-back succeeded");
        assert!(stats.disk_usage.load(Ordering::Relaxed) == (1u64 << 40) - released_bytes, "disk usage debited by exactly the bytes handed back");
        kani::cover!(unsafe { R_N } == 1 && allocs[0].sector.is_some() && allocs[1].sector.is_some() && !qa && !qb, "adjacent extents coalesced into one release");
        kani::cover!(unsafe { R_N } == 2);
        kani::cover!(any_fail);
        std::mem::forget(allocs);
    }

    // single-allocation instance of the same contract (quick tier)
    #[kani::proof]
    #[kani::unwind(3)]
    #[kani::stub(core::slice::sort::unstable::sort, stub_sort2)]
    #[kani::stub(FreeSpaceManager::release_sectors, stub_release_sectors)]
    #[kani::stub(std::io::_eprint, stub_eprint)]
    #[kani::stub(parking_lot::RawRwLock::lock_shared_slow, pl_lock_shared_slow)]
    #[kani::stub(parking_lot::RawRwLock::lock_exclusive_slow, pl_lock_exclusive_slow)]
    #[kani::stub(parking_lot::RawRwLock::unlock_shared_slow, pl_unlock_shared_slow)]
    #[kani::stub(parking_lot::RawRwLock::unlock_exclusive_slow, pl_unlock_exclusive_slow)]
    #[kani::stub(parking_lot::RawMutex::lock_slow, pl_mutex_lock_slow)]
    #[kani::stub(parking_lot::RawMutex::unlock_slow, pl_mutex_unlock_slow)]
    fn release_scrubbed_single() {
        reset();
        let n: usize = kani::any();
        kani::assume(n >= 1 && n <= 8);
        // either an owned reservation (sector present, not quarantined, dirty or not) or a not-owned one
        let owned: bool = kani::any();
        let s: u64 = kani::any();
        kani::assume(s >= 16 && s < (1u64 << 28));
        let a = if owned {
            let dirty: bool = kani::any();
            PreparedWrite { data: Vec::new(), sectors_needed: n, entry: entry_with(s as u32 | if dirty { RESERVATION_DIRTY } else { 0 }), sector: Some(s) }
        } else {
            let none: bool = kani::any();
            if none {
                PreparedWrite { data: Vec::new(), sectors_needed: n, entry: entry_with(0), sector: None }
            } else {
                PreparedWrite { data: Vec::new(), sectors_needed: n, entry: entry_with(s as u32 | RESERVATION_QUARANTINED), sector: Some(s) }
            }
        };
        let q = reservation_is_quarantined(&a.entry);
        let before = a.entry.work_status.load(Ordering::Acquire);
        let stats = Statistics::new();
        stats.disk_usage.store(1 << 40, Ordering::Relaxed);
        let mut fs = FreeSpaceManager::new();
        let allocs = [a];
        let r = release_scrubbed_allocations(&mut fs, &allocs, &stats);
        let p = &allocs[0];
        let rel = was_released(p);
        let r_ok = r.is_ok();
        std::mem::forget(r);
        match rel {
            Some(true) => {
                assert!(!q && p.sector.is_some(), "only non-quarantined reservations are handed back");
                assert!(unsafe { R_N } == 1 && unsafe { R_SECTOR[0] } == p.sector.unwrap() && unsafe { R_COUNT[0] } == n as u64, "exactly the reserved extent");
                assert!(reserved_sector(&p.entry).is_none(), "a sector handed back to the free pool is no longer reserved by its entry");
                assert!(!reservation_is_dirty(&p.entry) && r_ok);
                assert!(stats.disk_usage.load(Ordering::Relaxed) == (1u64 << 40) - (n * FEOX_BLOCK_SIZE) as u64, "usage debited by exactly the bytes handed back");
            }
            Some(false) => {
                assert!(!q && !r_ok);
                assert!(p.entry.work_status.load(Ordering::Acquire) == before, "a failed hand-back leaves the reservation exactly as it was");
                assert!(stats.disk_usage.load(Ordering::Relaxed) == 1u64 << 40);
            }
            None => {
                assert!((q || p.sector.is_none()) && r_ok && unsafe { R_N } == 0, "quarantined / unallocated: nothing handed back");
                assert!(p.entry.work_status.load(Ordering::Acquire) == before);
            }
        }
        kani::cover!(rel == Some(true));
        kani::cover!(rel == Some(false));
        kani::cover!(rel.is_none());
        std::mem::forget(allocs);
    }

    // plain release (clean reservations only): dirty extents are never handed back unscrubbed
    #[kani::proof]
    #[kani::unwind(4)]
    #[kani::stub(FreeSpaceManager::release_sectors, stub_release_sectors)]
    #[kani::stub(parking_lot::RawRwLock::lock_shared_slow, pl_lock_shared_slow)]
    #[kani::stub(parking_lot::RawRwLock::lock_exclusive_slow, pl_lock_exclusive_slow)]
    #[kani::stub(parking_lot::RawRwLock::unlock_shared_slow, pl_unlock_shared_slow)]
    #[kani::stub(parking_lot::RawRwLock::unlock_exclusive_slow, pl_unlock_exclusive_slow)]
    #[kani::stub(parking_lot::RawMutex::lock_slow, pl_mutex_lock_slow)]
    #[kani::stub(parking_lot::RawMutex::unlock_slow, pl_mutex_unlock_slow)]
    fn release_allocations_contract() {
        reset();
        let n: usize = kani::any();
        kani::assume(n >= 1 && n <= 8);
        let a = any_prepared(any_sector(), n);
        let dirty = reservation_is_dirty(&a.entry);
        let before = a.entry.work_status.load(Ordering::Acquire);
        let stats = Statistics::new();
        stats.disk_usage.store(1 << 40, Ordering::Relaxed);
        let fs = Arc::new(RwLock::new(FreeSpaceManager::new()));
        let allocs = [a];
        let r = release_allocations(&fs, &allocs, &stats);
        let calls = unsafe { R_N };
        if allocs[0].sector.is_none() || dirty {
            assert!(calls == 0 && r.is_ok(), "an extent that may have been written (dirty) is never handed back without a scrub");
            assert!(allocs[0].entry.work_status.load(Ordering::Acquire) == before);
        } else {
            assert!(calls == 1 && unsafe { R_SECTOR[0] } == allocs[0].sector.unwrap() && unsafe { R_COUNT[0] } == n as u64);
            if unsafe { R_OK[0] } {
                assert!(r.is_ok() && reserved_sector(&allocs[0].entry).is_none(), "handed back => reservation forgotten");
                assert!(stats.disk_usage.load(Ordering::Relaxed) == (1u64 << 40) - (n * FEOX_BLOCK_SIZE) as u64);
            } else {
                assert!(r.is_err() && allocs[0].entry.work_status.load(Ordering::Acquire) == before, "failed hand-back keeps the reservation");
            }
        }
        kani::cover!(calls == 1);
        kani::cover!(dirty);
        std::mem::forget(allocs);
        std::mem::forget(fs);
    }

    // failed-write clean-up: scrub (journaled retirement) strictly before any hand-back;
    // a failed scrub hands nothing back
    #[kani::proof]
    #[kani::unwind(4)]
    #[kani::stub(release_scrubbed_allocations, stub_release_scrubbed)]
    #[kani::stub(DiskIO::retire_extents, stub_retire_extents)]
    #[kani::stub(DiskIO::clear_allocation_journal, stub_clear_journal)]
    #[kani::stub(std::io::_eprint, stub_eprint)]
    #[kani::stub(parking_lot::RawRwLock::lock_shared_slow, pl_lock_shared_slow)]
    #[kani::stub(parking_lot::RawRwLock::lock_exclusive_slow, pl_lock_exclusive_slow)]
    #[kani::stub(parking_lot::RawRwLock::unlock_shared_slow, pl_unlock_shared_slow)]
    #[kani::stub(parking_lot::RawRwLock::unlock_exclusive_slow, pl_unlock_exclusive_slow)]
    #[kani::stub(parking_lot::RawMutex::lock_slow, pl_mutex_lock_slow)]
    #[kani::stub(parking_lot::RawMutex::unlock_slow, pl_mutex_unlock_slow)]
    fn cleanup_scrubs_before_release() {
        reset();
        let scrub_ok: bool = kani::any();
        unsafe { SCRUB_OK = scrub_ok };
        let n: usize = kani::any();
        kani::assume(n >= 1 && n <= 8);
        let a = any_prepared(any_sector(), n);
        let q = reservation_is_quarantined(&a.entry);
        let before = a.entry.work_status.load(Ordering::Acquire);
        let clear_journal: bool = kani::any();
        let stats = Statistics::new();
        stats.disk_usage.store(1 << 40, Ordering::Relaxed);
        let fs = Arc::new(RwLock::new(FreeSpaceManager::new()));
        let mut io = mk_io(1, 0, false);
        let allocs = [a];
        let r = cleanup_failed_allocations(&mut io, &fs, &allocs, &stats, clear_journal);
        let scrubs = unsafe { SCRUB_CALLS };
        let releases = unsafe { R_N };
        let owned = allocs[0].sector.is_some() && !q;
        if owned {
            assert!(scrubs == 1 && unsafe { SCRUB_LEN } == 1 && unsafe { SCRUB_FIRST } == allocs[0].sector.unwrap(), "the possibly-written extent is scrubbed through the journaled retirement");
            if scrub_ok {
                assert!(releases == 1 && unsafe { R_AFTER_SCRUB[0] }, "hand-back happens only after the scrub succeeded");
            } else {
                assert!(releases == 0 && r.is_err(), "a failed scrub hands nothing back and is reported");
                assert!(allocs[0].entry.work_status.load(Ordering::Acquire) == before, "the reservation stays with its entry");
            }
        } else {
            assert!(scrubs == 0, "quarantined or unallocated: nothing is scrubbed");
            assert!(unsafe { CLEAR_CALLS } == if clear_journal { 1 } else { 0 }, "an open journal intent is still cleared");
            assert!(allocs[0].entry.work_status.load(Ordering::Acquire) == before);
        }
        kani::cover!(owned && scrub_ok);
        kani::cover!(owned && !scrub_ok);
        kani::cover!(!owned && clear_journal);
        std::mem::forget(allocs);
        std::mem::forget(fs);
        std::mem::forget(io);
    }

    #[kani::proof]
    #[kani::unwind(4)]
    fn quarantine_contract() {
        let n: usize = kani::any();
        kani::assume(n >= 1 && n <= 8);
        let a = any_prepared(any_sector(), n);
        let before = a.entry.work_status.load(Ordering::Acquire);
        let allocs = [a];
        quarantine_allocations(&allocs);
        if allocs[0].sector.is_some() {
            assert!(reservation_is_quarantined(&allocs[0].entry) && reserved_sector(&allocs[0].entry) == allocs[0].sector, "an indeterminate extent stays owned and is marked quarantined");
        } else {
            assert!(allocs[0].entry.work_status.load(Ordering::Acquire) == before);
        }
        std::mem::forget(allocs);
    }

    // ------------------------------------------------------------------ record encoder (U5)
    use crate::storage::format::{FormatV1, FormatV2};

    // Vec<u8>::resize as one memset (CBMC otherwise unrolls ~4000 single-byte pushes)
    fn stub_resize<T: Clone, A: std::alloc::Allocator>(v: &mut Vec<T, A>, new_len: usize, value: T) {
        assert!(std::mem::size_of::<T>() == 1, "resize stub: byte vectors only");
        let len = v.len();
        if new_len > len {
            let extra = new_len - len;
            v.reserve(extra);
            unsafe {
                let byte = *(&value as *const T as *const u8);
                std::ptr::write_bytes(v.as_mut_ptr().add(len) as *mut u8, byte, extra);
                v.set_len(new_len);
            }
        } else {
            v.truncate(new_len);
        }
    }

    // independent statement of the serialized extent: documented layout, zero padded
    fn expected_byte(i: usize, v2: bool, key: &[u8], value: &[u8], ts: u64, expiry: u64) -> u8 {
        let k = key.len();
        let head = 4 + 2 + k + 8 + 8 + if v2 { 8 } else { 0 };
        if i == 0 { return 0xCD; }
        if i == 1 { return 0xAB; }
        if i < 4 { return 0; } // token field, stamped later
        if i < 6 { return (k as u16).to_le_bytes()[i - 4]; }
        if i < 6 + k { return key[i - 6]; }
        if i < 14 + k { return (value.len() as u64).to_le_bytes()[i - 6 - k]; }
        if i < 22 + k { return ts.to_le_bytes()[i - 14 - k]; }
        if v2 && i < 30 + k { return expiry.to_le_bytes()[i - 22 - k]; }
        if i < head + value.len() { return value[i - head]; }
        0
    }

    fn encoder_case(v2: bool) {
        let key: [u8; 2] = kani::any();
        let value: [u8; 3] = kani::any();
        let ts: u64 = kani::any();
        let expiry: u64 = kani::any();
        let rec = Record::new(key.to_vec(), value.to_vec(), ts);
        rec.ttl_expiry.store(expiry, Ordering::Release);
        let io = Arc::new(RwLock::new(mk_io(1, 0, false)));
        let format: &dyn RecordFormat = if v2 { &FormatV2 } else { &FormatV1 };
        let data = prepare_record_data(&rec, format, &io).unwrap();
        let head = 4 + 2 + 2 + 8 + 8 + if v2 { 8 } else { 0 };
        assert!(format.record_header_size(2) == head && format.value_offset(2) == head && format.total_size(2, 3) == head + 3,
            "size formulas = bytes actually emitted");
        assert!(data.len() == FEOX_BLOCK_SIZE, "extent = total_size rounded up to whole blocks");
        let i: usize = kani::any();
        kani::assume(i < FEOX_BLOCK_SIZE);
        assert!(data[i] == expected_byte(i, v2, &key, &value, ts, if v2 { expiry } else { 0 }),
            "marker | token(0) | key_len | key | value_len | timestamp | [expiry] | value | zero padding");
        // what the decoder and the head-identity check make of it
        let parsed = format.parse_record(&data).unwrap();
        assert!(parsed.0.len() == 2 && parsed.0[0] == key[0] && parsed.0[1] == key[1] && parsed.1 == 3 && parsed.2 == ts);
        assert!(parsed.3 == if v2 { expiry } else { 0 }, "the absolute expiry survives the v2/v3 codec bit-exactly; v1 stores none");
        assert!(sector_holds_record(&data, &rec), "the reader's identity check accepts what the writer wrote");
        std::mem::forget(io);
        std::mem::forget(rec);
    }

    #[kani::proof]
    #[kani::unwind(12)]
    #[kani::stub(std::vec::Vec::resize, stub_resize)]
    #[kani::stub(parking_lot::RawRwLock::lock_shared_slow, pl_lock_shared_slow)]
    #[kani::stub(parking_lot::RawRwLock::lock_exclusive_slow, pl_lock_exclusive_slow)]
    #[kani::stub(parking_lot::RawRwLock::unlock_shared_slow, pl_unlock_shared_slow)]
    #[kani::stub(parking_lot::RawRwLock::unlock_exclusive_slow, pl_unlock_exclusive_slow)]
    #[kani::stub(parking_lot::RawMutex::lock_slow, pl_mutex_lock_slow)]
    #[kani::stub(parking_lot::RawMutex::unlock_slow, pl_mutex_unlock_slow)]
    fn record_encoder_layout_v2() {
        encoder_case(true);
    }

    #[kani::proof]
    #[kani::unwind(12)]
    #[kani::stub(std::vec::Vec::resize, stub_resize)]
    #[kani::stub(parking_lot::RawRwLock::lock_shared_slow, pl_lock_shared_slow)]
    #[kani::stub(parking_lot::RawRwLock::lock_exclusive_slow, pl_lock_exclusive_slow)]
    #[kani::stub(parking_lot::RawRwLock::unlock_shared_slow, pl_unlock_shared_slow)]
    #[kani::stub(parking_lot::RawRwLock::unlock_exclusive_slow, pl_unlock_exclusive_slow)]
    #[kani::stub(parking_lot::RawMutex::lock_slow, pl_mutex_lock_slow)]
    #[kani::stub(parking_lot::RawMutex::unlock_slow, pl_mutex_unlock_slow)]
    fn record_encoder_layout_v1() {
        encoder_case(false);
    }

    // Block rounding at the boundary: a record whose documented total size is exactly N blocks takes N
    // blocks (not N+1); one byte more takes N+1; one byte less still N. Concrete sizes, both formats.
    fn exact_fit_case(v2: bool, value_len: usize, expect_blocks: usize) {
        let rec = Record::new(vec![7u8, 9u8], vec![0u8; value_len], 5);
        let io = Arc::new(RwLock::new(mk_io(1, 0, false)));
        let format: &dyn RecordFormat = if v2 { &FormatV2 } else { &FormatV1 };
        let data = prepare_record_data(&rec, format, &io).unwrap();
        assert!(data.len() == expect_blocks * FEOX_BLOCK_SIZE, "extent = documented total size rounded up to whole blocks, never a block more");
        std::mem::forget(io);
        std::mem::forget(rec);
        std::mem::forget(data);
    }

    #[kani::proof]
    #[kani::unwind(12)]
    #[kani::stub(std::vec::Vec::resize, stub_resize)]
    #[kani::stub(parking_lot::RawRwLock::lock_shared_slow, pl_lock_shared_slow)]
    #[kani::stub(parking_lot::RawRwLock::lock_exclusive_slow, pl_lock_exclusive_slow)]
    #[kani::stub(parking_lot::RawRwLock::unlock_shared_slow, pl_unlock_shared_slow)]
    #[kani::stub(parking_lot::RawRwLock::unlock_exclusive_slow, pl_unlock_exclusive_slow)]
    #[kani::stub(parking_lot::RawMutex::lock_slow, pl_mutex_lock_slow)]
    #[kani::stub(parking_lot::RawMutex::unlock_slow, pl_mutex_unlock_slow)]
    fn record_encoder_exact_fit() {
        // v2/v3 head with a 2-byte key: 4 + 2 + 2 + 8 + 8 + 8 = 32
        exact_fit_case(true, FEOX_BLOCK_SIZE - 32, 1);
    }

    #[kani::proof]
    #[kani::unwind(12)]
    #[kani::stub(std::vec::Vec::resize, stub_resize)]
    #[kani::stub(parking_lot::RawRwLock::lock_shared_slow, pl_lock_shared_slow)]
    #[kani::stub(parking_lot::RawRwLock::lock_exclusive_slow, pl_lock_exclusive_slow)]
    #[kani::stub(parking_lot::RawRwLock::unlock_shared_slow, pl_unlock_shared_slow)]
    #[kani::stub(parking_lot::RawRwLock::unlock_exclusive_slow, pl_unlock_exclusive_slow)]
    #[kani::stub(parking_lot::RawMutex::lock_slow, pl_mutex_lock_slow)]
    #[kani::stub(parking_lot::RawMutex::unlock_slow, pl_mutex_unlock_slow)]
    fn record_encoder_one_past_fit() {
        exact_fit_case(true, FEOX_BLOCK_SIZE - 32 + 1, 2);
    }

    #[kani::proof]
    #[kani::unwind(12)]
    #[kani::stub(std::vec::Vec::resize, stub_resize)]
    #[kani::stub(parking_lot::RawRwLock::lock_shared_slow, pl_lock_shared_slow)]
    #[kani::stub(parking_lot::RawRwLock::lock_exclusive_slow, pl_lock_exclusive_slow)]
    #[kani::stub(parking_lot::RawRwLock::unlock_shared_slow, pl_unlock_shared_slow)]
    #[kani::stub(parking_lot::RawRwLock::unlock_exclusive_slow, pl_unlock_exclusive_slow)]
    #[kani::stub(parking_lot::RawMutex::lock_slow, pl_mutex_lock_slow)]
    #[kani::stub(parking_lot::RawMutex::unlock_slow, pl_mutex_unlock_slow)]
    fn record_encoder_exact_fit_v1() {
        // v1 head with a 2-byte key: 4 + 2 + 2 + 8 + 8 = 24
        exact_fit_case(false, FEOX_BLOCK_SIZE - 24, 1);
    }

    // ------------------------------------------------------------------ TTL-only rewrite (U13)
    static mut DISK_IMG: [u8; FEOX_BLOCK_SIZE] = [0; FEOX_BLOCK_SIZE];
    static mut DISK_READS: usize = 0;
    static mut DISK_READ_SECTOR: u64 = 0;
    static mut PIN_DURING_READ: u32 = 0;
    static mut SRC_REC: *const Record = std::ptr::null();

    fn stub_read_block(_io: &DiskIO, sector: u64, count: u64) -> Result<Vec<u8>> {
        unsafe {
            DISK_READS += 1;
            DISK_READ_SECTOR = sector;
            assert!(count == 1, "one-block extent");
            if !SRC_REC.is_null() {
                PIN_DURING_READ = (*SRC_REC).extent_state_for_harness();
            }
            Ok(DISK_IMG.to_vec())
        }
    }

    // A TTL-only update of a value that lives only on disk rewrites the head (new timestamp and
    // expiry) and keeps every byte from value_offset on: the value and its padding stay intact.
    #[kani::proof]
    #[kani::unwind(42)]
    #[kani::stub(std::vec::Vec::resize, stub_resize)]
    #[kani::stub(DiskIO::read_sectors_sync, stub_read_block)]
    #[kani::stub(parking_lot::RawRwLock::lock_shared_slow, pl_lock_shared_slow)]
    #[kani::stub(parking_lot::RawRwLock::lock_exclusive_slow, pl_lock_exclusive_slow)]
    #[kani::stub(parking_lot::RawRwLock::unlock_shared_slow, pl_unlock_shared_slow)]
    #[kani::stub(parking_lot::RawRwLock::unlock_exclusive_slow, pl_unlock_exclusive_slow)]
    #[kani::stub(parking_lot::RawMutex::lock_slow, pl_mutex_lock_slow)]
    #[kani::stub(parking_lot::RawMutex::unlock_slow, pl_mutex_unlock_slow)]
    fn deferred_rewrite_keeps_value() {
        let key: [u8; 2] = kani::any();
        let value: [u8; 3] = kani::any();
        let ts0: u64 = kani::any();
        let exp0: u64 = kani::any();
        let io = Arc::new(RwLock::new(mk_io(1, 0, false)));
        let format: &dyn RecordFormat = &FormatV2;
        // the predecessor as it sits on disk (written by the real encoder), then offloaded
        let pred = Arc::new(Record::new(key.to_vec(), value.to_vec(), ts0));
        pred.ttl_expiry.store(exp0, Ordering::Release);
        // its block, as the documented layout says (the encoder is checked against the same statement)
        let mut on_disk = [0u8; 40];
        let sector: u64 = kani::any();
        kani::assume(sector >= 16 && sector < (1u64 << 28));
        unsafe {
            let mut i = 0;
            while i < 40 {
                on_disk[i] = expected_byte(i, true, &key, &value, ts0, exp0);
                DISK_IMG[i] = on_disk[i];
                i += 1;
            }
            DISK_READS = 0;
            SRC_REC = Arc::as_ptr(&pred);
        }
        pred.sector.store(sector, Ordering::Release);
        pred.clear_value();
        // the TTL-only successor
        let ts1: u64 = kani::any();
        let exp1: u64 = kani::any();
        let next = Record::new_deferred_with_ttl(&pred, ts1, exp1);
        assert!(next.key == pred.key && next.value_len == pred.value_len && next.timestamp == ts1
            && next.ttl_expiry.load(Ordering::Acquire) == exp1 && next.get_value().is_none(), "deferred generation: same key and length, new version and expiry, no resident value");
        let r = prepare_deferred_record_data(&next, format, &io, FEOX_BLOCK_SIZE);
        let d = r.unwrap();
        assert!(unsafe { DISK_READS } == 1 && unsafe { DISK_READ_SECTOR } == sector, "the predecessor's extent is read once");
        assert!(unsafe { PIN_DURING_READ } & !(1u32 << 31) == 1, "the extent is pinned while it is read");
        assert!(pred.extent_state_for_harness() == 0, "and unpinned afterwards");
        assert!(d.len() == FEOX_BLOCK_SIZE);
        let i: usize = kani::any();
        kani::assume(i < 40);
        let head = 4 + 2 + 2 + 24;
        if i >= head {
            assert!(d[i] == on_disk[i], "value bytes and padding are untouched");
        } else {
            assert!(d[i] == expected_byte(i, true, &key, &value, ts1, exp1), "the head carries the new timestamp and expiry");
        }
        std::mem::forget(io);
        std::mem::forget(next);
        std::mem::forget(pred);
    }

    // ------------------------------------------------------------------ retirement protocol (process_deletions)
    static mut SUCC_OK: bool = true;
    static mut RETIRE_SEEN_STATUS: u32 = 0;

    fn stub_successor_ok(_r: &Record) -> bool {
        unsafe { SUCC_OK }
    }

    fn retirement_case(sector: u64, already_marked: bool, readers: bool, succ_ok: bool, scrub_ok: bool) {
        reset();
        unsafe {
            SUCC_OK = succ_ok;
            SCRUB_OK = scrub_ok;
        }
        let rec = Arc::new(Record::new(vec![b'k', b'2'], vec![1, 2, 3], 7));
        rec.sector.store(sector, Ordering::Release);
        let pin = if readers { rec.acquire_extent() } else { None };
        let entry = WriteEntry::new(Operation::Delete, Arc::clone(&rec));
        if already_marked {
            entry.work_status.store(DELETE_MARKER_DURABLE, Ordering::Release);
        }
        let stats = Arc::new(Statistics::new());
        stats.disk_usage.store(1 << 40, Ordering::Relaxed);
        let fs = Arc::new(RwLock::new(FreeSpaceManager::new()));
        let io = Arc::new(RwLock::new(mk_io(1, 0, false)));
        let format: &dyn RecordFormat = &FormatV2;
        let mut retries: Vec<WriteEntry> = Vec::new();
        let mut released: u64 = 0;
        let r = process_deletions(&io, &fs, &stats, format, vec![entry], &mut retries, &mut released);
        let scrubs = unsafe { SCRUB_CALLS };
        let releases = unsafe { R_N };
        let retired_bit = rec.extent_state_for_harness() & (1u32 << 31) != 0;
        assert!(releases <= 1 && scrubs <= 1, "at most one marker transaction and one hand-back per pass");
        if sector == 0 {
            assert!(scrubs == 0 && releases == 0 && retries.is_empty() && r.is_ok(), "a generation that never reached the disk owns no blocks");
        } else if !already_marked && !succ_ok {
            assert!(scrubs == 0 && releases == 0 && retries.len() == 1 && !retired_bit, "kept (and still readable) while no successor is durable");
        } else if !already_marked && readers {
            assert!(scrubs == 0 && releases == 0 && retries.len() == 1 && retired_bit, "pinned by a reader: retired for new readers, markers and hand-back wait");
        } else {
            if !already_marked {
                assert!(scrubs == 1 && unsafe { SCRUB_FIRST } == sector && unsafe { SCRUB_LEN } == 1, "markers for exactly this extent, through the journaled retirement");
            } else {
                assert!(scrubs == 0, "markers already durable: never written twice");
            }
            if !already_marked && !scrub_ok {
                assert!(r.is_err() && releases == 0 && retries.len() == 1, "failed marker write: nothing handed back, entry kept");
                assert!(retries[0].work_status.load(Ordering::Acquire) != DELETE_MARKER_DURABLE);
            } else if readers {
                assert!(releases == 0 && retries.len() == 1, "a reader still pins the extent: not handed back");
                assert!(retries[0].work_status.load(Ordering::Acquire) == DELETE_MARKER_DURABLE);
            } else {
                assert!(releases == 1 && unsafe { R_SECTOR[0] } == sector && unsafe { R_COUNT[0] } == 1, "exactly this extent (one block for a 2-byte key and 3-byte value)");
                if !already_marked {
                    assert!(unsafe { R_AFTER_SCRUB[0] }, "hand-back only after the markers are durable");
                }
                if unsafe { R_OK[0] } {
                    assert!(r.is_ok() && retries.is_empty() && released == 1, "handed back once and forgotten");
                    assert!(stats.disk_usage.load(Ordering::Relaxed) == (1u64 << 40) - FEOX_BLOCK_SIZE as u64);
                } else {
                    assert!(r.is_err() && retries.len() == 1 && released == 0, "failed hand-back: kept for retry");
                    assert!(retries[0].work_status.load(Ordering::Acquire) == DELETE_MARKER_DURABLE, "and remembered as marked, so the markers are not rewritten");
                }
            }
        }
        kani::cover!(releases == 1 && r.is_ok());
        kani::cover!(scrubs == 1 && r.is_err());
        kani::cover!(already_marked && releases == 1);
        kani::cover!(sector != 0 && !succ_ok);
        std::mem::forget(pin);
        std::mem::forget(retries);
        std::mem::forget(r);
        std::mem::forget(io);
        std::mem::forget(fs);
    }

    // (retirement_main_path) One retired generation through process_deletions: its extent goes back to the free pool at
    // most once, only after its markers are durable (journaled retirement returned Ok), never while
    // a reader pins it, and never before a successor is durable.
    #[kani::proof]
    #[kani::unwind(4)]
    #[kani::stub(core::slice::sort::unstable::sort, stub_sort2)]
    #[kani::stub(FreeSpaceManager::release_sectors, stub_release_sectors)]
    #[kani::stub(DiskIO::retire_extents, stub_retire_extents)]
    #[kani::stub(Record::successor_is_durable_or_deleted, stub_successor_ok)]
    #[kani::stub(std::sync::Arc::drop_slow, leak_on_last_drop)]
    #[kani::stub(std::io::_eprint, stub_eprint)]
    #[kani::stub(parking_lot::RawRwLock::lock_shared_slow, pl_lock_shared_slow)]
    #[kani::stub(parking_lot::RawRwLock::lock_exclusive_slow, pl_lock_exclusive_slow)]
    #[kani::stub(parking_lot::RawRwLock::unlock_shared_slow, pl_unlock_shared_slow)]
    #[kani::stub(parking_lot::RawRwLock::unlock_exclusive_slow, pl_unlock_exclusive_slow)]
    #[kani::stub(parking_lot::RawMutex::lock_slow, pl_mutex_lock_slow)]
    #[kani::stub(parking_lot::RawMutex::unlock_slow, pl_mutex_unlock_slow)]
    fn retirement_main_path() {
        let sector: u64 = kani::any();
        kani::assume(sector >= 16 && sector < (1u64 << 28));
        retirement_case(sector, false, false, true, true);
    }

    // (retirement_gates) One retired generation through process_deletions: its extent goes back to the free pool at
    // most once, only after its markers are durable (journaled retirement returned Ok), never while
    // a reader pins it, and never before a successor is durable.
    #[kani::proof]
    #[kani::unwind(4)]
    #[kani::stub(core::slice::sort::unstable::sort, stub_sort2)]
    #[kani::stub(FreeSpaceManager::release_sectors, stub_release_sectors)]
    #[kani::stub(DiskIO::retire_extents, stub_retire_extents)]
    #[kani::stub(Record::successor_is_durable_or_deleted, stub_successor_ok)]
    #[kani::stub(std::sync::Arc::drop_slow, leak_on_last_drop)]
    #[kani::stub(std::io::_eprint, stub_eprint)]
    #[kani::stub(parking_lot::RawRwLock::lock_shared_slow, pl_lock_shared_slow)]
    #[kani::stub(parking_lot::RawRwLock::lock_exclusive_slow, pl_lock_exclusive_slow)]
    #[kani::stub(parking_lot::RawRwLock::unlock_shared_slow, pl_unlock_shared_slow)]
    #[kani::stub(parking_lot::RawRwLock::unlock_exclusive_slow, pl_unlock_exclusive_slow)]
    #[kani::stub(parking_lot::RawMutex::lock_slow, pl_mutex_lock_slow)]
    #[kani::stub(parking_lot::RawMutex::unlock_slow, pl_mutex_unlock_slow)]
    fn retirement_gates() {
        let sector: u64 = kani::any();
        kani::assume(sector == 0 || (sector >= 16 && sector < (1u64 << 28)));
        let succ_ok: bool = kani::any();
        let readers: bool = kani::any();
        kani::assume(sector == 0 || !succ_ok || readers);
        retirement_case(sector, false, readers, succ_ok, true);
    }

    // (retirement_already_marked) One retired generation through process_deletions: its extent goes back to the free pool at
    // most once, only after its markers are durable (journaled retirement returned Ok), never while
    // a reader pins it, and never before a successor is durable.
    #[kani::proof]
    #[kani::unwind(4)]
    #[kani::stub(core::slice::sort::unstable::sort, stub_sort2)]
    #[kani::stub(FreeSpaceManager::release_sectors, stub_release_sectors)]
    #[kani::stub(DiskIO::retire_extents, stub_retire_extents)]
    #[kani::stub(Record::successor_is_durable_or_deleted, stub_successor_ok)]
    #[kani::stub(std::sync::Arc::drop_slow, leak_on_last_drop)]
    #[kani::stub(std::io::_eprint, stub_eprint)]
    #[kani::stub(parking_lot::RawRwLock::lock_shared_slow, pl_lock_shared_slow)]
    #[kani::stub(parking_lot::RawRwLock::lock_exclusive_slow, pl_lock_exclusive_slow)]
    #[kani::stub(parking_lot::RawRwLock::unlock_shared_slow, pl_unlock_shared_slow)]
    #[kani::stub(parking_lot::RawRwLock::unlock_exclusive_slow, pl_unlock_exclusive_slow)]
    #[kani::stub(parking_lot::RawMutex::lock_slow, pl_mutex_lock_slow)]
    #[kani::stub(parking_lot::RawMutex::unlock_slow, pl_mutex_unlock_slow)]
    fn retirement_already_marked() {
        let sector: u64 = kani::any();
        kani::assume(sector >= 16 && sector < (1u64 << 28));
        retirement_case(sector, true, kani::any(), kani::any(), true);
    }

}
