#[cfg(kani)]
mod verif_kani_ops {
    //! U13: the read choke point (private to operations.rs).
    use super::*;
    use crate::core::store::verif_kani_store::{partial_store, stub_as_nanos, stub_now, WALL};
    use crate::storage::seq_token::verif_kani_seq::{pl_lock_exclusive_slow, pl_lock_shared_slow, pl_mutex_lock_slow, pl_mutex_unlock_slow, pl_unlock_exclusive_slow, pl_unlock_shared_slow};

    // ------------------------------------------------------------------ U13 read choke point
    // cache tier: a fabricated (never dereferenced) ClockCache whose lookup is a ghost call
    static mut CACHE_CALLS: usize = 0;
    static mut CACHE_HIT: bool = false;
    static mut CACHE_REC: *const Record = std::ptr::null();
    static mut CACHE_KEY0: u8 = 0;
    static mut CACHE_KEYLEN: usize = 0;
    static CACHE_BYTES: [u8; 3] = [0xC1, 0xC2, 0xC3];

    fn stub_cache_get(_c: &crate::core::cache::ClockCache, key: &[u8], record: &Arc<Record>) -> Option<Bytes> {
        unsafe {
            CACHE_CALLS += 1;
            CACHE_REC = Arc::as_ptr(record);
            CACHE_KEYLEN = key.len();
            CACHE_KEY0 = if key.is_empty() { 0 } else { key[0] };
            if CACHE_HIT { Some(Bytes::from_static(&CACHE_BYTES)) } else { None }
        }
    }

    static mut DISK_CALLS: usize = 0;
    static mut DISK_OUTCOME: u8 = 0;
    static mut DISK_REC: *const Record = std::ptr::null();
    static DISK_BYTES: [u8; 2] = [0xD1, 0xD2];

    fn stub_load_value_from_disk(_s: &FeoxStore, record: &Arc<Record>) -> crate::error::Result<Bytes> {
        unsafe {
            DISK_CALLS += 1;
            DISK_REC = Arc::as_ptr(record);
            match DISK_OUTCOME {
                0 => Ok(Bytes::from_static(&DISK_BYTES)),
                1 => Err(FeoxError::StaleExtent),
                2 => Err(FeoxError::KeyNotFound),
                _ => Err(FeoxError::InvalidRecord),
            }
        }
    }

    #[kani::proof]
    #[kani::unwind(66)]
    #[kani::stub(std::time::SystemTime::now, stub_now)]
    #[kani::stub(std::time::Duration::as_nanos, stub_as_nanos)]
    #[kani::stub(FeoxStore::load_value_from_disk, stub_load_value_from_disk)]
    #[kani::stub(crate::core::cache::ClockCache::get_for_record, stub_cache_get)]
    #[kani::stub(parking_lot::RawRwLock::lock_shared_slow, pl_lock_shared_slow)]
    #[kani::stub(parking_lot::RawRwLock::lock_exclusive_slow, pl_lock_exclusive_slow)]
    #[kani::stub(parking_lot::RawRwLock::unlock_shared_slow, pl_unlock_shared_slow)]
    #[kani::stub(parking_lot::RawRwLock::unlock_exclusive_slow, pl_unlock_exclusive_slow)]
    #[kani::stub(parking_lot::RawMutex::lock_slow, pl_mutex_lock_slow)]
    #[kani::stub(parking_lot::RawMutex::unlock_slow, pl_mutex_unlock_slow)]
    fn resolve_record_value_contract() {
        let enable_ttl: bool = kani::any();
        let expiry: u64 = kani::any();
        let now: u64 = kani::any();
        let resident: bool = kani::any();
        let outcome: u8 = kani::any();
        kani::assume(outcome <= 3);
        let with_cache: bool = kani::any();
        let cache_hit: bool = kani::any();
        unsafe {
            WALL = now;
            DISK_CALLS = 0;
            DISK_OUTCOME = outcome;
            CACHE_CALLS = 0;
            CACHE_HIT = cache_hit;
        }
        let mut mu = partial_store(0, 0, None, enable_ttl);
        if with_cache {
            let fake: Arc<std::mem::MaybeUninit<crate::core::cache::ClockCache>> = Arc::new(std::mem::MaybeUninit::uninit());
            unsafe {
                std::ptr::addr_of_mut!((*mu.as_mut_ptr()).cache).write(Some(std::mem::transmute(fake)));
            }
        }
        let store: &FeoxStore = unsafe { &*mu.as_ptr() };
        let rec = Arc::new(Record::new(vec![b'k'], vec![0x52], 5));
        rec.ttl_expiry.store(expiry, Ordering::Release);
        if !resident {
            rec.clear_value();
        }
        let lazy0 = store.stats.ttl_expired_lazy.load(Ordering::Relaxed);
        let r = store.resolve_record_value(b"k", &rec);
        let disk_calls = unsafe { DISK_CALLS };
        let cache_calls = unsafe { CACHE_CALLS };
        let expired = enable_ttl && expiry > 0 && now > expiry;
        if expired {
            assert!(matches!(r, Err(FeoxError::KeyNotFound)), "an expired generation is hidden");
            assert!(disk_calls == 0 && cache_calls == 0, "before any tier is consulted");
            assert!(store.stats.ttl_expired_lazy.load(Ordering::Relaxed) == lazy0 + 1);
        } else if resident {
            match &r {
                Ok(Some((v, hit))) => assert!(v.len() == 1 && v[0] == 0x52 && *hit && disk_calls == 0 && cache_calls == 0, "the resident value of THIS generation wins over cache and disk"),
                _ => assert!(false, "a live, unexpired resident value is always returned"),
            }
        } else if with_cache && cache_hit {
            assert!(cache_calls == 1 && unsafe { CACHE_REC } == Arc::as_ptr(&rec) && unsafe { CACHE_KEYLEN } == 1 && unsafe { CACHE_KEY0 } == b'k',
                "the cache is asked for THIS key and THIS generation (a stale entry of another generation can never be served)");
            assert!(disk_calls == 0 && matches!(&r, Ok(Some((v, true))) if v.len() == 3 && v[0] == 0xC1), "a cache hit is returned as is, no disk read");
        } else {
            assert!(cache_calls == if with_cache { 1 } else { 0 });
            assert!(disk_calls == 1 && unsafe { DISK_REC } == Arc::as_ptr(&rec), "disk consulted once, for this generation");
            match outcome {
                0 => assert!(matches!(&r, Ok(Some((v, false))) if v.len() == 2 && v[0] == 0xD1), "disk bytes returned, not counted as a memory hit"),
                1 => assert!(matches!(r, Ok(None)), "a stale extent is a retry signal, not an error"),
                2 => assert!(matches!(r, Err(FeoxError::KeyNotFound))),
                _ => assert!(matches!(r, Err(FeoxError::InvalidRecord)), "other disk errors are passed through"),
            }
        }
        if matches!(r, Err(FeoxError::KeyNotFound)) {
            assert!(expired || (!resident && !(with_cache && cache_hit) && outcome == 2), "never hidden while unexpired or without expiry (unless the disk layer says so)");
        }
        kani::cover!(!expired && !resident && with_cache && cache_hit);
        kani::cover!(expired);
        kani::cover!(!expired && enable_ttl && expiry > 0 && now == expiry);
        kani::cover!(!expired && resident);
        kani::cover!(!expired && !resident && outcome == 1);
        std::mem::forget(rec);
    }
}
