#[cfg(kani)]
mod verif_kani_ops {
    //! U13: the read choke point (private to operations.rs).
    use super::*;
    use crate::core::store::verif_kani_store::{partial_store, stub_as_nanos, stub_now, WALL};
    use crate::storage::seq_token::verif_kani_seq::{pl_lock_exclusive_slow, pl_lock_shared_slow, pl_mutex_lock_slow, pl_mutex_unlock_slow, pl_unlock_exclusive_slow, pl_unlock_shared_slow};

    // ------------------------------------------------------------------ U13 read choke point
    static mut DISK_CALLS: usize = 0;
    static mut DISK_OUTCOME: u8 = 0;
    static mut DISK_REC: *const Record = std::ptr::null();
    static DISK_BYTES: [u8; 2] = [0xD1, 0xD2];

    fn stub_load_value_from_disk(_s: &FeoxStore, record: &Arc<Record>) -> crate::error::Result<Bytes> {
        unsafe {
            DISK_CALLS += 1;
            DISK_REC = Arc::as_ptr(record);
            match DISK_OUTCOME {
                0 => Ok(Bytes::from_static(&DISK_BYTES)),
                1 => Err(FeoxError::StaleExtent),
                2 => Err(FeoxError::KeyNotFound),
                _ => Err(FeoxError::InvalidRecord),
            }
        }
    }

    #[kani::proof]
    #[kani::unwind(66)]
    #[kani::stub(std::time::SystemTime::now, stub_now)]
    #[kani::stub(std::time::Duration::as_nanos, stub_as_nanos)]
    #[kani::stub(FeoxStore::load_value_from_disk, stub_load_value_from_disk)]
    #[kani::stub(parking_lot::RawRwLock::lock_shared_slow, pl_lock_shared_slow)]
    #[kani::stub(parking_lot::RawRwLock::lock_exclusive_slow, pl_lock_exclusive_slow)]
    #[kani::stub(parking_lot::RawRwLock::unlock_shared_slow, pl_unlock_shared_slow)]
    #[kani::stub(parking_lot::RawRwLock::unlock_exclusive_slow, pl_unlock_exclusive_slow)]
    #[kani::stub(parking_lot::RawMutex::lock_slow, pl_mutex_lock_slow)]
    #[kani::stub(parking_lot::RawMutex::unlock_slow, pl_mutex_unlock_slow)]
    fn resolve_record_value_contract() {
        let enable_ttl: bool = kani::any();
        let expiry: u64 = kani::any();
        let now: u64 = kani::any();
        let resident: bool = kani::any();
        let outcome: u8 = kani::any();
        kani::assume(outcome <= 3);
        unsafe {
            WALL = now;
            DISK_CALLS = 0;
            DISK_OUTCOME = outcome;
        }
        let mu = partial_store(0, 0, None, enable_ttl);
        let store: &FeoxStore = unsafe { &*mu.as_ptr() };
        let rec = Arc::new(Record::new(vec![b'k'], vec![0x52], 5));
        rec.ttl_expiry.store(expiry, Ordering::Release);
        if !resident {
            rec.clear_value();
        }
        let lazy0 = store.stats.ttl_expired_lazy.load(Ordering::Relaxed);
        let r = store.resolve_record_value(b"k", &rec);
        let disk_calls = unsafe { DISK_CALLS };
        let expired = enable_ttl && expiry > 0 && now > expiry;
        if expired {
            assert!(matches!(r, Err(FeoxError::KeyNotFound)), "an expired generation is hidden");
            assert!(disk_calls == 0, "before any tier is consulted");
            assert!(store.stats.ttl_expired_lazy.load(Ordering::Relaxed) == lazy0 + 1);
        } else if resident {
            match &r {
                Ok(Some((v, hit))) => assert!(v.len() == 1 && v[0] == 0x52 && *hit && disk_calls == 0, "the resident value of THIS generation, no disk read"),
                _ => assert!(false, "a live, unexpired resident value is always returned"),
            }
        } else {
            assert!(disk_calls == 1 && unsafe { DISK_REC } == Arc::as_ptr(&rec), "disk consulted once, for this generation");
            match outcome {
                0 => assert!(matches!(&r, Ok(Some((v, false))) if v.len() == 2 && v[0] == 0xD1), "disk bytes returned, not counted as a memory hit"),
                1 => assert!(matches!(r, Ok(None)), "a stale extent is a retry signal, not an error"),
                2 => assert!(matches!(r, Err(FeoxError::KeyNotFound))),
                _ => assert!(matches!(r, Err(FeoxError::InvalidRecord)), "other disk errors are passed through"),
            }
        }
        if matches!(r, Err(FeoxError::KeyNotFound)) {
            assert!(expired || (!resident && outcome == 2), "never hidden while unexpired or without expiry (unless the disk layer says so)");
        }
        kani::cover!(expired);
        kani::cover!(!expired && enable_ttl && expiry > 0 && now == expiry);
        kani::cover!(!expired && resident);
        kani::cover!(!expired && !resident && outcome == 1);
        std::mem::forget(rec);
    }
}
