#[cfg(kani)]
mod verif_kani_ttl {
    use super::*;

    #[kani::proof]
    fn ttl_expiry_saturates() {
        let ts: u64 = kani::any();
        let secs: u64 = kani::any();
        let e = ttl_expiry(ts, secs);
        if secs == 0 {
            assert!(e == 0, "no TTL = no expiry");
        } else {
            let want = (ts as u128 + secs as u128 * 1_000_000_000u128).min(u64::MAX as u128) as u64;
            assert!(e == want, "absolute expiry = timestamp + seconds*1e9, saturating (never wraps into the past)");
            assert!(e >= ts);
        }
        kani::cover!(secs != 0 && e == u64::MAX);
    }
}
