#[cfg(kani)]
mod verif_kani_allocator {
    //! AlignedBuffer (O_DIRECT write buffers): allocation, bounds of the slices handed out, and the matching free.
    //! C20: "aligned allocations freed with the matching deallocator". posix_memalign / free are CBMC's own models of the
    //! C allocator (Kani 0.68 does not substitute stubs for these two foreign functions - tried): every access through the
    //! slices and the free itself are checked by CBMC's pointer checks (in bounds of a live object, freed once, freed at
    //! offset 0). Which deallocator Drop picks is observed through a stub of the *wrong* one.
    use super::*;

    static mut OTHER_FREES: u32 = 0;

    // the Layout / munmap deallocator is the wrong one for a posix_memalign block
    fn ghost_wrong_deallocate(_ptr: NonNull<u8>, _size: usize) {
        unsafe {
            OTHER_FREES += 1;
        }
    }

    #[kani::proof]
    #[kani::stub(FeoxAllocator::deallocate, ghost_wrong_deallocate)]
    fn aligned_buffer_contract() {
        let cap: usize = kani::any();
        kani::assume(cap <= 3 * FEOX_BLOCK_SIZE);
        let before = FeoxAllocator::get_allocated();
        match AlignedBuffer::new(cap) {
            Err(_) => {
                assert!(FeoxAllocator::get_allocated() == before, "a failed allocation is not accounted");
            }
            Ok(mut b) => {
                assert!(b.capacity() >= cap && b.capacity() % FEOX_BLOCK_SIZE == 0 && b.capacity() - cap < FEOX_BLOCK_SIZE, "capacity = request rounded up to whole blocks");
                assert!(FeoxAllocator::get_allocated() == before + b.capacity(), "the recorded capacity is the size that was allocated");
                assert!(b.len() == 0 && b.is_empty());
                let n: usize = kani::any();
                kani::assume(n <= b.capacity());
                b.set_len(n);
                assert!(b.len() == n);
                kani::cover!(cap == 0);
                kani::cover!(cap % FEOX_BLOCK_SIZE != 0 && cap > FEOX_BLOCK_SIZE);
                let i: usize = kani::any();
                kani::assume(i < n);
                {
                    let s = b.as_mut_slice();
                    assert!(s.len() == n, "the mutable slice covers exactly len bytes of the allocation");
                    s[i] = 7; // CBMC checks that the write lies inside the live allocation
                }
                {
                    let r = b.as_slice();
                    assert!(r.len() == n && r[i] == 7);
                }
                kani::cover!(n == b.capacity());
                b.clear();
                assert!(b.len() == 0);
                drop(b); // CBMC checks the free: a live heap object, at offset 0, not freed before
                assert!(FeoxAllocator::get_allocated() == before, "dropping the buffer releases exactly the size that was allocated");
                unsafe {
                    assert!(OTHER_FREES == 0, "the block is freed with free() - the deallocator that matches posix_memalign - never with the Layout / munmap deallocator");
                }
            }
        }
    }

    #[kani::proof]
    #[kani::should_panic]
    fn aligned_buffer_set_len_refuses_past_capacity() {
        let cap: usize = kani::any();
        kani::assume(cap <= 2 * FEOX_BLOCK_SIZE);
        if let Ok(mut b) = AlignedBuffer::new(cap) {
            let n: usize = kani::any();
            kani::assume(n > b.capacity());
            b.set_len(n); // must panic: a length past the allocation would make as_slice read out of bounds
            std::mem::forget(b);
        } else {
            panic!("allocation failed: nothing to check on this path");
        }
    }
}
