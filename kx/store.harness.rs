#[cfg(kani)]
pub(crate) mod verif_kani_store {
    //! U8 version clock, U9 memory reservation, U13 read choke point.
    //! FeoxStore methods are called on a value in which ONLY the fields those methods read are
    //! initialised (the index containers cannot be built under CBMC); everything else is never read.
    use super::*;
    use crate::error::FeoxError;
    use crate::storage::seq_token::verif_kani_seq::{pl_lock_exclusive_slow, pl_lock_shared_slow, pl_mutex_lock_slow, pl_mutex_unlock_slow, pl_unlock_exclusive_slow, pl_unlock_shared_slow};
    use bytes::Bytes;
    use std::mem::MaybeUninit;
    use std::ptr::addr_of_mut;
    use std::time::{Duration, SystemTime, UNIX_EPOCH};

    const SHARD: usize = 7;
    pub(crate) static mut WALL: u64 = 0;

    fn stub_shard<'a>(this: &'a VersionClock, _key: &[u8]) -> &'a AtomicU64 {
        &this.shards[SHARD]
    }

    pub(crate) fn stub_shard_pub<'a>(this: &'a VersionClock, _key: &[u8]) -> &'a AtomicU64 {
        &this.shards[SHARD]
    }

    // wall clock = arbitrary u64 (A4): `now()` is the epoch and `as_nanos()` yields the symbolic instant,
    // so the u128 nanosecond arithmetic of std is not part of the proof
    pub(crate) fn stub_now() -> SystemTime {
        UNIX_EPOCH
    }

    pub(crate) fn stub_as_nanos(_d: &Duration) -> u128 {
        unsafe { WALL as u128 }
    }

    fn stub_get_timestamp_pub(_s: &FeoxStore) -> u64 {
        unsafe { WALL }
    }

    fn clock_with(last: u64) -> VersionClock {
        let c = VersionClock::new(RandomState::with_seeds(1, 2, 3, 4));
        c.shards[SHARD].store(last, Ordering::Relaxed);
        c
    }

    fn shard_val(c: &VersionClock) -> u64 {
        c.shards[SHARD].load(Ordering::Relaxed)
    }

    fn spec_next(last: u64, wall: u64) -> u64 {
        if wall > last { wall } else if last == u64::MAX { u64::MAX } else { last + 1 }
    }

    // ------------------------------------------------------------------ U8
    #[kani::proof]
    #[kani::unwind(66)]
    #[kani::stub(VersionClock::shard, stub_shard)]
    fn clock_next_contract() {
        let last: u64 = kani::any();
        let wall: u64 = kani::any();
        let c = clock_with(last);
        let r = c.next(b"k", wall);
        assert!(r == spec_next(last, wall), "next = wall if wall > last else last+1 (saturating)");
        assert!(shard_val(&c) == r, "the shard holds the issued timestamp");
        assert!(r >= wall && r >= last, "never below the wall clock nor below anything issued or observed before");
        assert!(last == u64::MAX || r > last, "strictly above the previous shard value unless the shard is exhausted");
        let other: usize = kani::any();
        kani::assume(other < VERSION_CLOCK_SHARDS && other != SHARD);
        assert!(c.shards[other].load(Ordering::Relaxed) == 0, "other shards untouched");
        kani::cover!(wall > last);
        kani::cover!(wall <= last && last < u64::MAX);
        std::mem::forget(c);
    }

    #[kani::proof]
    #[kani::unwind(66)]
    #[kani::stub(VersionClock::shard, stub_shard)]
    fn clock_observe_contract() {
        let last: u64 = kani::any();
        let t: u64 = kani::any();
        let c = clock_with(last);
        c.observe(b"k", t);
        let now = shard_val(&c);
        if t == u64::MAX {
            assert!(now == last, "the terminal timestamp is never absorbed");
        } else {
            assert!(now == if t > last { t } else { last }, "shard := max(shard, observed)");
        }
        kani::cover!(t == u64::MAX);
        kani::cover!(t != u64::MAX && t > last);
        std::mem::forget(c);
    }

    // composition: once the shard is at or above the key's timestamp (and not exhausted), the next
    // automatic timestamp exceeds it and the invariant holds again
    #[kani::proof]
    #[kani::unwind(66)]
    #[kani::stub(VersionClock::shard, stub_shard)]
    fn clock_composition_lemma() {
        let key_ts: u64 = kani::any();
        let last: u64 = kani::any();
        let wall: u64 = kani::any();
        kani::assume(last >= key_ts && last < u64::MAX);
        let c = clock_with(last);
        let r = c.next(b"k", wall);
        assert!(r > key_ts, "an automatic timestamp exceeds every timestamp the shard has absorbed");
        assert!(shard_val(&c) >= r, "invariant re-established for the new generation");
        std::mem::forget(c);
    }

    // two consecutive automatic timestamps after an absorbed explicit one, away from the terminal zone
    #[kani::proof]
    #[kani::unwind(66)]
    #[kani::stub(VersionClock::shard, stub_shard)]
    fn clock_strictly_increasing() {
        let explicit: u64 = kani::any();
        let w1: u64 = kani::any();
        let w2: u64 = kani::any();
        kani::assume(explicit < u64::MAX - 1 && w1 < u64::MAX - 1);
        let c = clock_with(0);
        c.observe(b"k", explicit);
        let a = c.next(b"k", w1);
        let b = c.next(b"k", w2);
        assert!(a > explicit && b > a, "explicit < auto < auto");
        std::mem::forget(c);
    }

    // KNOWN FINDING F-C12-1 (witness-specific): explicit timestamp u64::MAX-1 exhausts the shard
    #[kani::proof]
    #[kani::unwind(66)]
    #[kani::stub(VersionClock::shard, stub_shard)]
    fn clock_exhaustion_witness() {
        let c = clock_with(0);
        c.observe(b"k", u64::MAX - 1);
        let a = c.next(b"k", 1);
        let b = c.next(b"k", 2);
        assert!(b > a, "second automatic timestamp after an explicit u64::MAX-1 is not greater than the first");
        std::mem::forget(c);
    }

    pub(crate) fn partial_store(clock_last: u64, usage: usize, max_memory: Option<usize>, enable_ttl: bool) -> MaybeUninit<FeoxStore> {
        let mut mu = MaybeUninit::<FeoxStore>::uninit();
        let p = mu.as_mut_ptr();
        unsafe {
            addr_of_mut!((*p).version_clock).write(clock_with(clock_last));
            let stats = Statistics::new();
            stats.memory_usage.store(usage, Ordering::Relaxed);
            addr_of_mut!((*p).stats).write(Arc::new(stats));
            addr_of_mut!((*p).max_memory).write(max_memory);
            addr_of_mut!((*p).enable_ttl).write(enable_ttl);
            addr_of_mut!((*p).memory_only).write(true);
            addr_of_mut!((*p).format_version).write(3);
            addr_of_mut!((*p).cache).write(None);
            addr_of_mut!((*p).disk_io).write(None);
        }
        mu
    }

    #[kani::proof]
    #[kani::unwind(66)]
    #[kani::stub(VersionClock::shard, stub_shard)]
    #[kani::stub(FeoxStore::get_timestamp_pub, stub_get_timestamp_pub)]
    fn resolve_timestamp_contract() {
        let last: u64 = kani::any();
        let wall: u64 = kani::any();
        unsafe { WALL = wall };
        let mu = partial_store(last, 0, None, false);
        let store: &FeoxStore = unsafe { &*mu.as_ptr() };
        let ts: Option<u64> = kani::any();
        let (t, explicit) = store.resolve_timestamp(b"k", ts);
        match ts {
            Some(x) if x != 0 => {
                assert!(t == x && explicit, "an explicit timestamp is used verbatim");
                assert!(shard_val(&store.version_clock) == last, "and is NOT absorbed by the clock before the write is accepted");
            }
            _ => {
                assert!(!explicit && t == spec_next(last, wall), "automatic: issued by the clock");
                assert!(shard_val(&store.version_clock) == t);
            }
        }
        // a failed explicit write never reaches observe_published_timestamp; a successful one does
        let before = shard_val(&store.version_clock);
        let pub_ts: u64 = kani::any();
        let pub_explicit: bool = kani::any();
        store.observe_published_timestamp(b"k", pub_ts, pub_explicit);
        let after = shard_val(&store.version_clock);
        if !pub_explicit || pub_ts == u64::MAX {
            assert!(after == before, "automatic publications and the terminal timestamp leave the clock alone");
        } else {
            assert!(after == if pub_ts > before { pub_ts } else { before }, "an accepted explicit timestamp is absorbed");
        }
        kani::cover!(matches!(ts, Some(x) if x != 0));
        kani::cover!(ts.is_none());
        kani::cover!(ts == Some(0));
    }

    // ------------------------------------------------------------------ U9
    #[kani::proof]
    #[kani::unwind(66)]
    fn reserve_memory_contract() {
        let usage: usize = kani::any();
        let limit: Option<usize> = kani::any();
        let amount: usize = kani::any();
        if limit.is_none() {
            kani::assume(usage.checked_add(amount).is_some()); // fetch_add wraps silently; admitted sizes are tiny (A)
        }
        let mu = partial_store(0, usage, limit, false);
        let store: &FeoxStore = unsafe { &*mu.as_ptr() };
        let r = store.reserve_memory(amount);
        let now = store.stats.memory_usage.load(Ordering::Relaxed);
        match r {
            Ok(res) => {
                assert!(res.amount == amount);
                assert!(now as u128 == usage as u128 + amount as u128, "admission adds exactly the requested amount");
                if let Some(l) = limit {
                    assert!(amount == 0 || now <= l, "an admitted non-empty reservation never takes usage above the limit");
                }
                // rollback: dropping an uncommitted reservation restores usage
                let commit: bool = kani::any();
                if commit {
                    res.commit();
                    assert!(store.stats.memory_usage.load(Ordering::Relaxed) == now, "commit keeps the reserved bytes accounted");
                } else {
                    drop(res);
                    assert!(store.stats.memory_usage.load(Ordering::Relaxed) == usage, "dropping an uncommitted reservation gives back exactly what it took");
                }
            }
            Err(e) => {
                assert!(matches!(e, FeoxError::OutOfMemory));
                assert!(now == usage, "a refused reservation changes nothing");
                let l = limit.unwrap();
                assert!(amount != 0 && (usage as u128 + amount as u128 > l as u128), "refused only when the limit would be exceeded");
            }
        }
        kani::cover!(limit.is_some() && amount != 0 && now != usage);
        kani::cover!(limit.is_some() && now == usage && amount != 0);
        kani::cover!(limit.is_none());
    }

    #[kani::proof]
    #[kani::unwind(66)]
    fn release_memory_contract() {
        let usage: usize = kani::any();
        let amount: usize = kani::any();
        kani::assume(amount <= usage);
        let mu = partial_store(0, usage, None, false);
        let store: &FeoxStore = unsafe { &*mu.as_ptr() };
        store.release_memory(amount);
        assert!(store.stats.memory_usage.load(Ordering::Relaxed) == usage - amount, "release subtracts exactly the amount");
        let k: usize = kani::any();
        let v: usize = kani::any();
        kani::assume(k <= crate::constants::MAX_KEY_SIZE && v <= crate::constants::MAX_VALUE_SIZE);
        assert!(store.calculate_record_size(k, v) == std::mem::size_of::<Record>() + k + v, "admission-side size formula = fixed overhead + key + value");
    }

    // reserve-side and release-side size formulas agree for records built from slices
    #[kani::proof]
    #[kani::unwind(66)]
    #[kani::stub(parking_lot::RawRwLock::lock_shared_slow, pl_lock_shared_slow)]
    #[kani::stub(parking_lot::RawRwLock::lock_exclusive_slow, pl_lock_exclusive_slow)]
    #[kani::stub(parking_lot::RawRwLock::unlock_shared_slow, pl_unlock_shared_slow)]
    #[kani::stub(parking_lot::RawRwLock::unlock_exclusive_slow, pl_unlock_exclusive_slow)]
    #[kani::stub(parking_lot::RawMutex::lock_slow, pl_mutex_lock_slow)]
    #[kani::stub(parking_lot::RawMutex::unlock_slow, pl_mutex_unlock_slow)]
    fn record_size_formulas_agree() {
        let kbuf = [7u8; 4];
        let vbuf = [9u8; 4];
        let k: usize = kani::any();
        let v: usize = kani::any();
        kani::assume(k >= 1 && k <= 4 && v >= 1 && v <= 4);
        let mu = partial_store(0, 0, None, false);
        let store: &FeoxStore = unsafe { &*mu.as_ptr() };
        let rec = Record::new(kbuf[..k].to_vec(), vbuf[..v].to_vec(), 1);
        assert!(rec.calculate_size() == store.calculate_record_size(k, v), "Record::calculate_size == calculate_record_size for freshly built records");
        std::mem::forget(rec);
    }

}
