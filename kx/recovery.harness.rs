#[cfg(kani)]
mod verif_kani_recovery {
    //! Recovery-side token and marker checks (U2, U6).
    use super::*;
    use crate::storage::seq_token::verif_kani_seq::{fold_ref, ghost_chain_is, ghost_chain_result, ghost_chains, ghost_reset, stub_crc32c_impl_fnv, stub_crc32c_impl_ghost};
    use crate::storage::seq_token::record_seq_token;

    #[kani::proof]
    fn record_token_is_writer_fold() {
        let crc: u32 = kani::any();
        assert!(record_token(crc) == fold_ref(crc), "recovery folds the CRC exactly like the documented token");
        assert!(record_token(crc) != 0);
    }

    // recovery (head CRC, then tail chunks) hashes the same byte string as the writer's formula
    #[kani::proof]
    #[kani::unwind(34)]
    #[kani::stub(crate::storage::seq_token::crc32c_impl, stub_crc32c_impl_ghost)]
    fn recovery_token_matches_writer() {
        let sector: u64 = kani::any();
        let ext: [u8; 24] = kani::any();
        ghost_reset();
        // recovery: head block bytes [..8], then tails [8..16] and [16..]
        let mut crc = record_crc_head(sector, &ext[..8]);
        crc = crc32c(crc, &ext[8..16]);
        crc = crc32c(crc, &ext[16..]);
        let mut cat = [0u8; 32];
        cat[..8].copy_from_slice(&sector.to_le_bytes());
        cat[8..].copy_from_slice(&ext);
        cat[10] = 0;
        cat[11] = 0;
        assert!(ghost_chains() == 1 && ghost_chain_is(0, &cat), "recovery hashes le64(sector) ++ extent with the token field zeroed: the writer's formula (record_seq_token_spec)");
        assert!(crc == ghost_chain_result(0));
    }

    #[kani::proof]
    #[kani::unwind(27)]
    #[kani::stub(crate::storage::seq_token::crc32c_impl, stub_crc32c_impl_ghost)]
    fn complete_retirement_block_contract() {
        let b: [u8; 24] = kani::any();
        let n: usize = kani::any();
        kani::assume(n <= 24);
        let sector: u64 = kani::any();
        let remaining: u64 = kani::any();
        ghost_reset();
        let got = is_complete_retirement_block(&b[..n], sector, remaining);
        let plain = n >= 19
            && b[0] == 0 && b[1] == b'D' && b[2] == b'E' && b[3] == b'L' && b[4] == b'E' && b[5] == b'T' && b[6] == b'E' && b[7] == b'D'
            && u64::from_le_bytes([b[8], b[9], b[10], b[11], b[12], b[13], b[14], b[15]]) == remaining
            && b[18] == 1;
        if got {
            let mut cat = [0u8; 25];
            cat[..8].copy_from_slice(&sector.to_le_bytes());
            cat[8..24].copy_from_slice(&b[..16]);
            cat[24] = b[18];
            assert!(plain, "accepted only with tag, remaining count and COMPLETE state");
            assert!(ghost_chains() == 1 && ghost_chain_is(0, &cat), "token checked over le64(sector) ++ bytes 0..16 ++ state");
            assert!(u16::from_le_bytes([b[16], b[17]]) == fold_ref(ghost_chain_result(0)), "stored token must equal the recomputed one");
        } else {
            assert!(!plain || (ghost_chains() == 1 && u16::from_le_bytes([b[16], b[17]]) != fold_ref(ghost_chain_result(0))),
                "rejected only for a plain-field mismatch or a token mismatch");
        }
        kani::cover!(got);
        kani::cover!(!got && n >= 19);
        kani::cover!(n < 19);
    }

    // what the retirer writes is what recovery accepts (instance proof: FNV-1a stand-in for the CRC)
    #[kani::proof]
    #[kani::unwind(27)]
    #[kani::stub(crate::storage::seq_token::crc32c_impl, stub_crc32c_impl_fnv)]
    fn written_marker_is_accepted() {
        let sector: u64 = kani::any();
        let remaining: usize = kani::any();
        let mut m: [u8; 19] = kani::any();
        crate::storage::format::fill_retirement_marker(&mut m, sector, remaining);
        assert!(is_complete_retirement_block(&m, sector, remaining as u64));
        let other: u64 = kani::any();
        kani::assume(other != remaining as u64);
        assert!(!is_complete_retirement_block(&m, sector, other), "a marker for another remaining count is rejected");
    }

    #[kani::proof]
    fn journal_overlaps_contract() {
        let j = [(kani::any::<u64>(), kani::any::<usize>()), (kani::any::<u64>(), kani::any::<usize>())];
        let n: usize = kani::any();
        kani::assume(n <= 2);
        let idx: usize = kani::any();
        let end: u64 = kani::any();
        let got = journal_overlaps(&j[..n], idx, end);
        assert!(got == (idx < n && j[idx].0 < end));
    }
}
