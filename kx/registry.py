"""Kani harness registry (see lib/kani_route.py)."""
FILES = {
    "io.harness.rs": "src/storage/io.rs",
}
IO_STUBS = ["DiskIO::write_sectors_sync -> ghost trace", "DiskIO::flush -> ghost trace"]
UNITS = {
    "io_ordering": [
        dict(name="journal_write_ordering", file="io.harness.rs", fn="DiskIO::write_allocation_journal", covers=3, strength="complete",
             label="write_allocation_journal: Ok => exactly [write(ACTIVE image @ 1+3*slot), fsync], generation+1, slot alternates; Err => journal position unchanged; every single failing write/fsync yields Err",
             stubs=IO_STUBS + ["allocation_journal::encode_active -> tagged 4 KiB image (layout proved in the journal unit)"]),
        dict(name="journal_clear_ordering", file="io.harness.rs", fn="DiskIO::clear_allocation_journal", covers=3, strength="complete",
             label="clear_allocation_journal: Ok => exactly [write(CLEAR image), fsync], position advances only after the fsync; Err => unchanged",
             stubs=IO_STUBS + ["allocation_journal::encode_clear -> tagged image"]),
        dict(name="journal_position_contract", file="io.harness.rs", fn="DiskIO::next_journal_position", covers=2, strength="complete",
             label="next_journal_position/journal_sector: generation+1 (Err(InvalidMetadata) at u64::MAX), slot alternates, sector = 1+3*slot inside blocks 1..7, pure", stubs=[]),
        dict(name="retire_extents_ordering", file="io.harness.rs", fn="DiskIO::retire_extents", covers=4, strength="bounded(1 extent, 1 journal chunk)",
             label="retire_extents: intent -> fsync -> markers -> clear -> fsync in that order; nothing issued after a failing call; any fault => IndeterminateWrite and the handle is poisoned; empty input => no I/O",
             stubs=IO_STUBS + ["DiskIO::retire_extents_unjournaled -> one ghost MARK event", "encode_active/encode_clear -> tagged images", "coalesce_extents -> identity", "DiskIO::poison_writes -> same effect without message formatting (real one proved by poison_sets_flag)"]),
        dict(name="replay_journal_ordering", file="io.harness.rs", fn="DiskIO::replay_allocation_journal", covers=3, strength="bounded(1 extent)",
             label="replay_allocation_journal: markers, then clear, then fsync (clear last); failed markers => journal not cleared, position unchanged; empty => no I/O",
             stubs=IO_STUBS + ["DiskIO::retire_extents_unjournaled -> one ghost MARK event", "encode_clear -> tagged image", "coalesce_extents -> identity"]),
        dict(name="retire_unjournaled_covers_extent", file="io.harness.rs", fn="DiskIO::retire_extents_unjournaled", covers=4, strength="bounded(1 extent of <= 768 blocks)",
             label="retire_extents_unjournaled/write_retirement_extent_buffered: marker writes cover [s, s+n) exactly once, in order, in chunks of <= 256 blocks, then exactly one fsync; nothing after a failing call; zero-length extent rejected",
             stubs=IO_STUBS + ["format::fill_retirement_markers -> no-op (marker bytes proved in the marker unit)"]),
        dict(name="poison_sets_flag", file="io.harness.rs", fn="DiskIO::poison_writes", covers=None, strength="complete",
             label="poison_writes sets write_indeterminate and returns IndeterminateWrite; ensure_writable then fails",
             stubs=["mark_file_indeterminate -> no-op"]),
        dict(name="poisoned_refuses_raw_io", file="io.harness.rs", fn="DiskIO::write_sectors_sync", covers=None, strength="complete",
             label="poisoned handle: the real write_sectors_sync and flush return IndeterminateWrite before reaching any syscall", stubs=[]),
        dict(name="poisoned_refuses_journal", file="io.harness.rs", fn="DiskIO::write_allocation_journal", covers=None, strength="complete",
             label="poisoned handle: journal writers issue no I/O and leave the position unchanged", stubs=IO_STUBS + ["encode_active/encode_clear -> tagged images"]),
        dict(name="batch_write_sync_path", file="io.harness.rs", fn="DiskIO::batch_write_inner", covers=3, tier="thorough", strength="bounded(2 writes, non-io_uring path)",
             label="batch_write_bytes (ring == None): Ok => all writes in order then one fsync; a failed write or fsync => Err and nothing issued after it", stubs=IO_STUBS),
    ],
}
