#[cfg(kani)]
pub(crate) mod verif_kani_metadata {
    //! U3: metadata block encoding, validation, generation.
    use super::*;
    use crate::storage::seq_token::verif_kani_seq::{crc32c_spec, stub_crc32c_impl};

    pub(crate) fn any_metadata() -> Metadata {
        Metadata {
            signature: kani::any(),
            version: kani::any(),
            total_records: kani::any(),
            total_size: kani::any(),
            device_size: kani::any(),
            block_size: kani::any(),
            fragmentation: kani::any(),
            creation_time: kani::any(),
            last_update_time: kani::any(),
            reserved: kani::any(),
        }
    }

    pub(crate) fn with_generation(generation: u64) -> Metadata {
        let mut m = any_metadata();
        m.reserved[12..20].copy_from_slice(&generation.to_le_bytes());
        m
    }

    fn le32(b: &[u8], at: usize) -> u32 {
        u32::from_le_bytes([b[at], b[at + 1], b[at + 2], b[at + 3]])
    }

    fn le64(b: &[u8], at: usize) -> u64 {
        u64::from_le_bytes([b[at], b[at + 1], b[at + 2], b[at + 3], b[at + 4], b[at + 5], b[at + 6], b[at + 7]])
    }

    /// Independent statement of validity over the 136 encoded bytes (documented layout).
    fn valid_image(b: &[u8; 136]) -> bool {
        let sig_ok = b[0] == b'F' && b[1] == b'E' && b[2] == b'O' && b[3] == b'X' && b[4] == b'_' && b[5] == b'S' && b[6] == b'I' && b[7] == b'G';
        let version = le32(b, 8);
        let device = le64(b, 32);
        let has_ck = b[64] == b'F' && b[65] == b'M' && b[66] == b'3' && b[67] == b'C';
        if !sig_ok || le32(b, 40) != 4096 || version == 0 || version > 3 || device == 0 || device > (1u64 << 40) {
            return false;
        }
        if version >= 3 && !has_ck {
            return false;
        }
        if !has_ck {
            return true;
        }
        // checksum covers: sig, version, records, size, device, block size, fragmentation, two times, reserved[12..]
        let mut cat = [0u8; 116];
        cat[..8].copy_from_slice(&b[..8]);
        cat[8..12].copy_from_slice(&b[8..12]);
        cat[12..44].copy_from_slice(&b[16..48]);
        cat[44..60].copy_from_slice(&b[48..64]);
        cat[60..116].copy_from_slice(&b[76..132]);
        let ck = le32(b, 68);
        le32(b, 72) == !ck && ck == crc32c_spec(0, &cat)
    }

    #[kani::proof]
    fn metadata_encode_layout() {
        let m = any_metadata();
        let b = m.encode();
        assert!(b.len() == 136);
        assert!(b[..8] == m.signature, "signature at 0..8");
        assert!(le32(&b, 8) == m.version && le32(&b, 12) == 0, "version at 8..12, 12..16 zero");
        assert!(le64(&b, 16) == m.total_records, "total_records at 16");
        assert!(le64(&b, 24) == m.total_size, "total_size at 24");
        assert!(le64(&b, 32) == m.device_size, "device_size at 32");
        assert!(le32(&b, 40) == m.block_size, "block_size at 40");
        assert!(le32(&b, 44) == m.fragmentation, "fragmentation at 44");
        assert!(le64(&b, 48) == m.creation_time, "creation_time at 48");
        assert!(le64(&b, 56) == m.last_update_time, "last_update_time at 56");
        assert!(b[64..132] == m.reserved, "reserved at 64..132");
        assert!(le32(&b, 132) == 0, "tail zero");
        assert!(le64(&b, 76) == m.generation(), "generation at 76..84");
    }

    #[kani::proof]
    #[kani::unwind(120)]
    #[kani::stub(crate::storage::seq_token::crc32c_impl, stub_crc32c_impl)]
    fn metadata_from_bytes_contract() {
        let bytes: [u8; 160] = kani::any();
        let n: usize = kani::any();
        kani::assume(n <= 160);
        let r = Metadata::from_bytes(&bytes[..n]);
        let mut img = [0u8; 136];
        img.copy_from_slice(&bytes[..136]);
        match r {
            Some(m) => {
                assert!(n >= 136);
                assert!(valid_image(&img), "accepted images satisfy the documented validity conditions");
                assert!(m.validate());
                assert!(m.version == le32(&img, 8) && m.device_size == le64(&img, 32) && m.total_records == le64(&img, 16)
                    && m.total_size == le64(&img, 24) && m.generation() == le64(&img, 76), "fields come from the documented offsets");
            }
            None => {
                assert!(n < 136 || !valid_image(&img), "rejected only when too short or invalid");
            }
        }
        kani::cover!(r.is_some());
        kani::cover!(r.is_none() && n >= 136);
    }

    #[kani::proof]
    #[kani::unwind(120)]
    #[kani::stub(crate::storage::seq_token::crc32c_impl, stub_crc32c_impl)]
    fn metadata_roundtrip() {
        let m = any_metadata();
        let b = m.encode();
        let r = Metadata::from_bytes(&b);
        assert!(r.is_some() == m.validate(), "decode(encode(m)) succeeds iff m is valid");
        if let Some(d) = r {
            assert!(d.encode() == b, "round trip is the identity on the encoded image");
        }
        kani::cover!(r.is_some());
    }

    #[kani::proof]
    #[kani::unwind(120)]
    #[kani::stub(crate::storage::seq_token::crc32c_impl, stub_crc32c_impl)]
    fn metadata_advance_generation() {
        let mut m = any_metadata();
        let g0 = m.generation();
        let before = m;
        let r = m.advance_generation();
        match r {
            Ok(()) => {
                assert!(g0 < u64::MAX && m.generation() == g0 + 1, "generation advances by exactly one");
                assert!(m.version == before.version && m.device_size == before.device_size && m.total_records == before.total_records
                    && m.total_size == before.total_size && m.signature == before.signature, "nothing else changes");
                let b = m.encode();
                let mut img = [0u8; 136];
                img.copy_from_slice(&b);
                let fields_ok = m.signature == *FEOX_SIGNATURE && m.block_size == 4096 && m.version >= 1 && m.version <= 3
                    && m.device_size != 0 && m.device_size <= MAX_DEVICE_SIZE;
                assert!(m.validate() == fields_ok, "checksum is refreshed: validity depends on the plain fields only");
                assert!(valid_image(&img) == fields_ok);
            }
            Err(e) => {
                assert!(g0 == u64::MAX && matches!(e, FeoxError::InvalidMetadata));
                assert!(m.encode() == before.encode(), "unchanged on error");
            }
        }
        kani::cover!(r.is_ok());
        kani::cover!(r.is_err());
    }
}
