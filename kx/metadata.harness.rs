#[cfg(kani)]
pub(crate) mod verif_kani_metadata {
    //! U3: metadata block encoding, validation, generation.
    use super::*;
    use crate::storage::seq_token::verif_kani_seq::{ghost_chain_is, ghost_chain_result, ghost_chains, ghost_reset, stub_crc32c_impl_fnv, stub_crc32c_impl_ghost};

    pub(crate) fn any_metadata() -> Metadata {
        Metadata {
            signature: kani::any(),
            version: kani::any(),
            total_records: kani::any(),
            total_size: kani::any(),
            device_size: kani::any(),
            block_size: kani::any(),
            fragmentation: kani::any(),
            creation_time: kani::any(),
            last_update_time: kani::any(),
            reserved: kani::any(),
        }
    }

    pub(crate) fn with_generation(generation: u64) -> Metadata {
        let mut m = any_metadata();
        m.reserved[12..20].copy_from_slice(&generation.to_le_bytes());
        m
    }

    fn le32(b: &[u8], at: usize) -> u32 {
        u32::from_le_bytes([b[at], b[at + 1], b[at + 2], b[at + 3]])
    }

    fn le64(b: &[u8], at: usize) -> u64 {
        u64::from_le_bytes([b[at], b[at + 1], b[at + 2], b[at + 3], b[at + 4], b[at + 5], b[at + 6], b[at + 7]])
    }

    /// Independent statement of the plain-field validity conditions over the 136 encoded bytes.
    fn plain_valid(b: &[u8; 136]) -> bool {
        let sig_ok = b[0] == b'F' && b[1] == b'E' && b[2] == b'O' && b[3] == b'X' && b[4] == b'_' && b[5] == b'S' && b[6] == b'I' && b[7] == b'G';
        let version = le32(b, 8);
        let device = le64(b, 32);
        sig_ok && le32(b, 40) == 4096 && version >= 1 && version <= 3 && device != 0 && device <= (1u64 << 40)
    }

    fn has_checksum(b: &[u8; 136]) -> bool {
        b[64] == b'F' && b[65] == b'M' && b[66] == b'3' && b[67] == b'C'
    }

    /// The byte string the checksum covers: sig, version, records, size, device, block size,
    /// fragmentation, the two times, reserved[12..] (generation and the rest) - i.e. everything
    /// except the padding at 12..16, the magic/checksum/complement at 64..76 and the tail 132..136.
    fn checksum_input(b: &[u8; 136]) -> [u8; 116] {
        let mut cat = [0u8; 116];
        cat[..12].copy_from_slice(&b[..12]);
        cat[12..60].copy_from_slice(&b[16..64]);
        cat[60..116].copy_from_slice(&b[76..132]);
        cat
    }

    #[kani::proof]
    fn metadata_encode_layout() {
        let m = any_metadata();
        let b = m.encode();
        assert!(b.len() == 136);
        assert!(b[..8] == m.signature, "signature at 0..8");
        assert!(le32(&b, 8) == m.version && le32(&b, 12) == 0, "version at 8..12, 12..16 zero");
        assert!(le64(&b, 16) == m.total_records, "total_records at 16");
        assert!(le64(&b, 24) == m.total_size, "total_size at 24");
        assert!(le64(&b, 32) == m.device_size, "device_size at 32");
        assert!(le32(&b, 40) == m.block_size, "block_size at 40");
        assert!(le32(&b, 44) == m.fragmentation, "fragmentation at 44");
        assert!(le64(&b, 48) == m.creation_time, "creation_time at 48");
        assert!(le64(&b, 56) == m.last_update_time, "last_update_time at 56");
        assert!(b[64..132] == m.reserved, "reserved at 64..132");
        assert!(le32(&b, 132) == 0, "tail zero");
        assert!(le64(&b, 76) == m.generation(), "generation at 76..84");
    }

    #[kani::proof]
    #[kani::unwind(140)]
    #[kani::stub(crate::storage::seq_token::crc32c_impl, stub_crc32c_impl_ghost)]
    fn metadata_from_bytes_contract() {
        let bytes: [u8; 160] = kani::any();
        let n: usize = kani::any();
        kani::assume(n <= 160);
        ghost_reset();
        let r = Metadata::from_bytes(&bytes[..n]);
        let mut img = [0u8; 136];
        img.copy_from_slice(&bytes[..136]);
        let ck = le32(&img, 68);
        let complement_ok = le32(&img, 72) == !ck;
        match &r {
            Some(m) => {
                assert!(n >= 136 && plain_valid(&img), "accepted images satisfy the documented plain-field conditions");
                assert!(le32(&img, 8) < 3 || has_checksum(&img), "version 3 requires the checksum magic");
                if has_checksum(&img) {
                    assert!(complement_ok, "complement must be the bitwise negation of the checksum");
                    assert!(ghost_chains() == 1 && ghost_chain_is(0, &checksum_input(&img)), "checksum covers exactly the documented bytes, in order");
                    assert!(ck == ghost_chain_result(0), "stored checksum must equal the recomputed one");
                } else {
                    assert!(ghost_chains() == 0, "legacy image without magic: no checksum consulted");
                }
                assert!(m.version == le32(&img, 8) && m.device_size == le64(&img, 32) && m.total_records == le64(&img, 16)
                    && m.total_size == le64(&img, 24) && m.generation() == le64(&img, 76), "fields come from the documented offsets");
            }
            None => {
                let checksum_bad = has_checksum(&img) && (!complement_ok || (ghost_chains() == 1 && ck != ghost_chain_result(0)));
                assert!(n < 136 || !plain_valid(&img) || (le32(&img, 8) >= 3 && !has_checksum(&img)) || checksum_bad,
                    "rejected only when too short, a plain field is invalid, v3 lacks the magic, or the checksum/complement mismatch");
            }
        }
        kani::cover!(r.is_some() && has_checksum(&img));
        kani::cover!(r.is_some() && !has_checksum(&img));
        kani::cover!(r.is_none() && n >= 136 && plain_valid(&img));
    }

    // instance proof (FNV-1a stand-in for the CRC so that the same bytes hash equally twice)
    #[kani::proof]
    #[kani::unwind(140)]
    #[kani::stub(crate::storage::seq_token::crc32c_impl, stub_crc32c_impl_fnv)]
    fn metadata_roundtrip() {
        let m = any_metadata();
        let b = m.encode();
        let r = Metadata::from_bytes(&b);
        assert!(r.is_some() == m.validate(), "decode(encode(m)) succeeds iff m is valid");
        if let Some(d) = r {
            assert!(d.encode() == b, "round trip is the identity on the encoded image");
        }
        kani::cover!(r.is_some());
    }

    #[kani::proof]
    #[kani::unwind(140)]
    #[kani::stub(crate::storage::seq_token::crc32c_impl, stub_crc32c_impl_ghost)]
    fn metadata_advance_generation() {
        let mut m = any_metadata();
        let g0 = m.generation();
        let before = m;
        ghost_reset();
        let r = m.advance_generation();
        match &r {
            Ok(()) => {
                assert!(g0 < u64::MAX && m.generation() == g0 + 1, "generation advances by exactly one");
                assert!(m.version == before.version && m.device_size == before.device_size && m.total_records == before.total_records
                    && m.total_size == before.total_size && m.signature == before.signature && m.block_size == before.block_size
                    && m.fragmentation == before.fragmentation && m.creation_time == before.creation_time
                    && m.last_update_time == before.last_update_time, "no other field changes");
                let img = m.encode();
                assert!(has_checksum(&img), "checksum magic present");
                assert!(ghost_chains() == 1 && ghost_chain_is(0, &checksum_input(&img)), "checksum refreshed over the NEW state");
                assert!(le32(&img, 68) == ghost_chain_result(0) && le32(&img, 72) == !le32(&img, 68), "checksum and complement stored");
            }
            Err(e) => {
                assert!(g0 == u64::MAX && matches!(e, FeoxError::InvalidMetadata));
                assert!(m.encode() == before.encode(), "unchanged on error");
            }
        }
        kani::cover!(r.is_ok());
        kani::cover!(r.is_err());
    }
}
