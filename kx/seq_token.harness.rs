#[cfg(kani)]
pub(crate) mod verif_kani_seq {
    //! U2: CRC-32C, token fold, record/marker token formulas, header_range.
    use super::*;
    use crate::storage::format::{FormatV1, FormatV2};

    /// Independent statement of CRC-32C (Castagnoli): reflected, polynomial 0x82F63B78,
    /// init/xorout 0xFFFFFFFF, `seed` = CRC of the preceding bytes (0 for none).
    pub(crate) fn crc32c_ref(seed: u32, data: &[u8]) -> u32 {
        let mut crc = !seed;
        let mut i = 0;
        while i < data.len() {
            crc ^= data[i] as u32;
            let mut bit = 0;
            while bit < 8 {
                crc = if crc & 1 != 0 { (crc >> 1) ^ 0x82F6_3B78 } else { crc >> 1 };
                bit += 1;
            }
            i += 1;
        }
        !crc
    }

    /// CRC-32C of one contiguous byte string, for specs over long inputs: the portable
    /// implementation itself (equal to `crc32c_ref`: crc_sw_matches_reference for every one- to
    /// four-byte step, by induction on the length in the Verus unit). What stays independent
    /// in those specs is WHICH bytes are hashed, in which order.
    pub(crate) fn crc32c_spec(seed: u32, data: &[u8]) -> u32 {
        crc32c_sw(seed, data)
    }

    /// Independent statement of the 16-bit token fold: xor of the two halves, 0 replaced by 1.
    pub(crate) fn fold_ref(crc: u32) -> u16 {
        let hi = (crc >> 16) as u16;
        let lo = (crc & 0xFFFF) as u16;
        let t = hi ^ lo;
        if t == 0 { 1 } else { t }
    }

    // parking_lot slow paths reach a thread-local with a destructor, which the Kani compiler
    // cannot translate (ICE). Stubbing them with unreachable!() also PROVES they are not taken
    // in a single-threaded, uncontended harness.
    pub(crate) fn pl_lock_shared_slow(_l: &parking_lot::RawRwLock, _recursive: bool, _timeout: Option<std::time::Instant>) -> bool {
        unreachable!()
    }
    pub(crate) fn pl_lock_exclusive_slow(_l: &parking_lot::RawRwLock, _timeout: Option<std::time::Instant>) -> bool {
        unreachable!()
    }
    pub(crate) fn pl_unlock_shared_slow(_l: &parking_lot::RawRwLock) {
        unreachable!()
    }
    pub(crate) fn pl_unlock_exclusive_slow(_l: &parking_lot::RawRwLock, _force_fair: bool) {
        unreachable!()
    }
    pub(crate) fn pl_mutex_lock_slow(_l: &parking_lot::RawMutex, _timeout: Option<std::time::Instant>) -> bool {
        unreachable!()
    }
    pub(crate) fn pl_mutex_unlock_slow(_l: &parking_lot::RawMutex, _force_fair: bool) {
        unreachable!()
    }

    // Arc::drop_slow frees the payload when the last strong reference goes away; for Record that
    // means a recursive drop of the successor chain, which CBMC unrolls level by level (it does not
    // constant-propagate the reference counts). Harnesses that only care about the protocol leak
    // instead: the last reference going away frees nothing and runs no Record::drop.
    pub(crate) fn leak_on_last_drop<T: ?Sized, A: std::alloc::Allocator>(_this: &mut std::sync::Arc<T, A>) {}

    /// Stub target: force the portable implementation (hardware dispatch uses cpuid + OnceLock).
    pub(crate) fn stub_crc32c_impl() -> Crc32c {
        crc32c_sw
    }

    // ---- CRC as an uninterpreted function with a ghost log ---------------------------------
    // Every call appends its bytes to G_CAT and returns an ARBITRARY non-zero value. A harness
    // then states (a) which bytes were hashed, in which order, as one chain per checksum
    // (each call seeded with the previous result, chains start at seed 0) and (b) how the final
    // value is used. This holds for any CRC function; with the chaining law
    // crc(crc(s, a), b) == crc(s, a ++ b) (crc_sw_matches_reference, Verus induction) the chain
    // value is CRC32C(concatenation).
    pub const GCAP: usize = 192;
    pub static mut G_CAT: [u8; GCAP] = [0; GCAP];
    pub static mut G_CAT_N: usize = 0;
    pub static mut G_CALLS: usize = 0;
    pub static mut G_LAST: u32 = 0;
    pub static mut G_CHAIN_OK: bool = true;
    pub static mut G_CHAINS: usize = 0;
    pub static mut G_CHAIN_START: [usize; 4] = [0; 4];
    pub static mut G_CHAIN_RES: [u32; 4] = [0; 4];

    pub(crate) fn ghost_reset() {
        unsafe {
            G_CAT_N = 0;
            G_CALLS = 0;
            G_LAST = 0;
            G_CHAIN_OK = true;
            G_CHAINS = 0;
        }
    }

    pub(crate) fn ghost_crc(seed: u32, data: &[u8]) -> u32 {
        unsafe {
            if seed == 0 {
                assert!(G_CHAINS < 4, "ghost crc: chain capacity");
                G_CHAIN_START[G_CHAINS] = G_CAT_N;
                G_CHAINS += 1;
            } else if G_CALLS == 0 || seed != G_LAST {
                G_CHAIN_OK = false;
            }
            let mut i = 0;
            while i < data.len() {
                assert!(G_CAT_N < GCAP, "ghost crc: byte capacity");
                G_CAT[G_CAT_N] = data[i];
                G_CAT_N += 1;
                i += 1;
            }
            let r: u32 = kani::any();
            kani::assume(r != 0);
            G_LAST = r;
            G_CHAIN_RES[G_CHAINS - 1] = r;
            G_CALLS += 1;
            r
        }
    }

    pub(crate) fn stub_crc32c_impl_ghost() -> Crc32c {
        ghost_crc
    }

    /// bytes hashed by chain k are exactly `want`
    pub(crate) fn ghost_chain_is(k: usize, want: &[u8]) -> bool {
        unsafe {
            if !G_CHAIN_OK || k >= G_CHAINS {
                return false;
            }
            let start = G_CHAIN_START[k];
            let end = if k + 1 < G_CHAINS { G_CHAIN_START[k + 1] } else { G_CAT_N };
            if end - start != want.len() {
                return false;
            }
            let mut i = 0;
            while i < want.len() {
                if G_CAT[start + i] != want[i] {
                    return false;
                }
                i += 1;
            }
            true
        }
    }

    pub(crate) fn ghost_chain_result(k: usize) -> u32 {
        unsafe { G_CHAIN_RES[k] }
    }

    pub(crate) fn ghost_chains() -> usize {
        unsafe { G_CHAINS }
    }

    // A cheap deterministic stand-in (FNV-1a step) for round-trip harnesses that need the same
    // bytes to hash to the same value twice. Instance proof only; labelled as such in the registry.
    pub(crate) fn fnv_crc(seed: u32, data: &[u8]) -> u32 {
        let mut h = seed ^ 0x811C_9DC5;
        let mut i = 0;
        while i < data.len() {
            h = (h ^ data[i] as u32).wrapping_mul(0x0100_0193);
            i += 1;
        }
        h
    }

    pub(crate) fn stub_crc32c_impl_fnv() -> Crc32c {
        fnv_crc
    }

    #[kani::proof]
    #[kani::unwind(9)]
    fn crc_table_is_crc32c() {
        let i: u8 = kani::any();
        let mut crc = i as u32;
        let mut bit = 0;
        while bit < 8 {
            crc = if crc & 1 != 0 { (crc >> 1) ^ 0x82F6_3B78 } else { crc >> 1 };
            bit += 1;
        }
        assert!(CRC32C_TABLE[i as usize] == crc, "table entry = 8 reflected polynomial steps");
    }

    #[kani::proof]
    #[kani::unwind(10)]
    fn crc_sw_matches_reference() {
        let seed: u32 = kani::any();
        let d: [u8; 4] = kani::any();
        let n: usize = kani::any();
        kani::assume(n <= 4);
        assert!(crc32c_sw(seed, &d[..n]) == crc32c_ref(seed, &d[..n]), "table-driven == bitwise definition");
        // standard check value
        assert!(crc32c_sw(0, b"123456789") == 0xE306_9283);
        // chaining: the CRC of a concatenation is the CRC of the tail seeded with the CRC of the head
        let k: usize = kani::any();
        kani::assume(k <= n);
        assert!(crc32c_sw(crc32c_sw(seed, &d[..k]), &d[k..n]) == crc32c_sw(seed, &d[..n]), "chaining");
    }

    #[kani::proof]
    fn nonzero_token_spec() {
        let crc: u32 = kani::any();
        let t = nonzero_token(crc);
        assert!(t != 0, "token is never zero");
        assert!(t == fold_ref(crc), "token = xor-fold of the CRC halves, 0 -> 1");
        kani::cover!(((crc >> 16) ^ (crc & 0xFFFF)) == 0);
    }

    #[kani::proof]
    #[kani::unwind(27)]
    #[kani::stub(crc32c_impl, stub_crc32c_impl_ghost)]
    fn seq_token_spec() {
        let sector: u64 = kani::any();
        let header: [u8; 17] = kani::any();
        let mut cat = [0u8; 25];
        cat[..8].copy_from_slice(&sector.to_le_bytes());
        cat[8..].copy_from_slice(&header);
        ghost_reset();
        let t = seq_token(sector, &header);
        assert!(ghost_chains() == 1 && ghost_chain_is(0, &cat), "hashes exactly le64(sector) ++ header, as one chain");
        assert!(t == fold_ref(ghost_chain_result(0)), "token = fold of that CRC");
        assert!(t != 0);
    }

    #[kani::proof]
    #[kani::unwind(24)]
    #[kani::stub(crc32c_impl, stub_crc32c_impl_ghost)]
    fn record_seq_token_spec() {
        let sector: u64 = kani::any();
        let data: [u8; 12] = kani::any();
        let n: usize = kani::any();
        kani::assume(n <= 12);
        ghost_reset();
        let t = record_seq_token(sector, &data[..n]);
        // spec: CRC over le64(sector) ++ data with bytes 2..4 read as zero (when present)
        let mut cat = [0u8; 20];
        cat[..8].copy_from_slice(&sector.to_le_bytes());
        let mut i = 0;
        while i < n {
            cat[8 + i] = if n >= 4 && (i == 2 || i == 3) { 0 } else { data[i] };
            i += 1;
        }
        assert!(ghost_chains() == 1 && ghost_chain_is(0, &cat[..8 + n]), "hashes le64(sector) ++ extent with the token field zeroed (short inputs whole)");
        assert!(t == fold_ref(ghost_chain_result(0)) && t != 0);
        kani::cover!(n < 4);
        kani::cover!(n == 12);
    }

    fn header_range_case(format: &dyn RecordFormat, fixed: usize) {
        let data: [u8; 4200] = kani::any();
        let n: usize = kani::any();
        kani::assume(n <= 4200);
        let klen = u16::from_le_bytes([data[4], data[5]]) as usize;
        let r = header_range(format, &data[..n]);
        let hdr = 4 + 2 + klen + fixed;
        match &r {
            Some(range) => {
                assert!(n >= 6 && klen >= 1, "needs the length field and a non-empty key");
                assert!(range.start == 4 && range.end == hdr, "range = 4..record_header_size(key_len)");
                assert!(range.end <= 4096 && range.end <= n, "header fits in the head block and in the buffer");
            }
            None => {
                assert!(n < 6 || klen == 0 || hdr > 4096 || hdr > n, "None only for the documented reasons");
            }
        }
        kani::cover!(r.is_some());
        kani::cover!(r.is_none() && n >= 6 && klen != 0);
    }

    #[kani::proof]
    #[kani::stub(parking_lot::RawRwLock::lock_shared_slow, pl_lock_shared_slow)]
    #[kani::stub(parking_lot::RawRwLock::lock_exclusive_slow, pl_lock_exclusive_slow)]
    #[kani::stub(parking_lot::RawRwLock::unlock_shared_slow, pl_unlock_shared_slow)]
    #[kani::stub(parking_lot::RawRwLock::unlock_exclusive_slow, pl_unlock_exclusive_slow)]
    #[kani::stub(parking_lot::RawMutex::lock_slow, pl_mutex_lock_slow)]
    #[kani::stub(parking_lot::RawMutex::unlock_slow, pl_mutex_unlock_slow)]
    fn header_range_contract_v1() {
        header_range_case(&FormatV1, 16);
    }

    #[kani::proof]
    #[kani::stub(parking_lot::RawRwLock::lock_shared_slow, pl_lock_shared_slow)]
    #[kani::stub(parking_lot::RawRwLock::lock_exclusive_slow, pl_lock_exclusive_slow)]
    #[kani::stub(parking_lot::RawRwLock::unlock_shared_slow, pl_unlock_shared_slow)]
    #[kani::stub(parking_lot::RawRwLock::unlock_exclusive_slow, pl_unlock_exclusive_slow)]
    #[kani::stub(parking_lot::RawMutex::lock_slow, pl_mutex_lock_slow)]
    #[kani::stub(parking_lot::RawMutex::unlock_slow, pl_mutex_unlock_slow)]
    fn header_range_contract_v2() {
        header_range_case(&FormatV2, 24);
    }

    #[kani::proof]
    #[kani::unwind(42)]
    #[kani::stub(crc32c_impl, stub_crc32c_impl_ghost)]
    #[kani::stub(parking_lot::RawRwLock::lock_shared_slow, pl_lock_shared_slow)]
    #[kani::stub(parking_lot::RawRwLock::lock_exclusive_slow, pl_lock_exclusive_slow)]
    #[kani::stub(parking_lot::RawRwLock::unlock_shared_slow, pl_unlock_shared_slow)]
    #[kani::stub(parking_lot::RawRwLock::unlock_exclusive_slow, pl_unlock_exclusive_slow)]
    #[kani::stub(parking_lot::RawMutex::lock_slow, pl_mutex_lock_slow)]
    #[kani::stub(parking_lot::RawMutex::unlock_slow, pl_mutex_unlock_slow)]
    fn stamp_token_contract() {
        let sector: u64 = kani::any();
        let mut data: [u8; 32] = kani::any();
        let before = data;
        ghost_reset();
        stamp_seq_token(&mut data, sector, &FormatV2);
        let klen = u16::from_le_bytes([before[4], before[5]]) as usize;
        let stamped = klen >= 1 && 30 + klen <= 32;
        let i: usize = kani::any();
        kani::assume(i < 32 && i != 2 && i != 3);
        assert!(data[i] == before[i], "only the token field changes");
        if stamped {
            let mut cat = [0u8; 40];
            cat[..8].copy_from_slice(&sector.to_le_bytes());
            cat[8..].copy_from_slice(&before);
            cat[10] = 0;
            cat[11] = 0;
            assert!(ghost_chains() == 1 && ghost_chain_is(0, &cat), "token hashes le64(sector) ++ whole extent with the token field read as zero");
            let t = u16::from_le_bytes([data[2], data[3]]);
            assert!(t == fold_ref(ghost_chain_result(0)) && t != 0, "bytes 2..4 = le16(token); independent of the old token bytes, so stamping is idempotent");
        } else {
            assert!(data[2] == before[2] && data[3] == before[3] && ghost_chains() == 0, "no stamp without a well-formed header");
        }
        kani::cover!(stamped);
        kani::cover!(!stamped);
    }
}
