#[cfg(kani)]
mod verif_kani_format {
    //! U6: retirement marker layout; block-wise marker filling.
    use super::*;
    use crate::storage::seq_token::verif_kani_seq::{crc32c_spec, fold_ref, stub_crc32c_impl};

    fn marker_spec(sector: u64, remaining: u64, state: u8) -> [u8; 19] {
        let mut m = [0u8; 19];
        m[0] = 0;
        m[1] = b'D';
        m[2] = b'E';
        m[3] = b'L';
        m[4] = b'E';
        m[5] = b'T';
        m[6] = b'E';
        m[7] = b'D';
        m[8..16].copy_from_slice(&remaining.to_le_bytes());
        m[18] = state;
        let mut cat = [0u8; 25];
        cat[..8].copy_from_slice(&sector.to_le_bytes());
        cat[8..24].copy_from_slice(&m[..16]);
        cat[24] = state;
        let t = fold_ref(crc32c_spec(0, &cat));
        m[16..18].copy_from_slice(&t.to_le_bytes());
        m
    }

    #[kani::proof]
    #[kani::unwind(27)]
    #[kani::stub(crate::storage::seq_token::crc32c_impl, stub_crc32c_impl)]
    fn retirement_marker_layout() {
        let sector: u64 = kani::any();
        let remaining: usize = kani::any();
        let state: u8 = kani::any();
        let mut m: [u8; 19] = kani::any();
        write_retirement_marker(&mut m, sector, remaining, state);
        let want = marker_spec(sector, remaining as u64, state);
        assert!(m == want, "tag(8) | remaining le64 | token le16 | state, token = fold(CRC32C(le64(sector) ++ bytes 0..16 ++ state))");
        assert!(u16::from_le_bytes([m[16], m[17]]) != 0);
        // the public filler writes the COMPLETE state
        let mut c: [u8; 19] = kani::any();
        fill_retirement_marker(&mut c, sector, remaining);
        assert!(c == marker_spec(sector, remaining as u64, RETIREMENT_COMPLETE) && RETIREMENT_COMPLETE == 1);
    }

    // block i of the buffer gets the marker for (sector+i, remaining-i); bytes 19.. of each block untouched
    #[kani::proof]
    #[kani::unwind(27)]
    #[kani::stub(crate::storage::seq_token::crc32c_impl, stub_crc32c_impl)]
    fn fill_markers_blockwise() {
        const B: usize = FEOX_BLOCK_SIZE;
        let mut buf = vec![0x5Au8; 3 * B];
        let blocks: usize = kani::any();
        kani::assume(blocks >= 1 && blocks <= 3);
        let sector: u64 = kani::any();
        kani::assume(sector < u64::MAX - 4);
        let remaining: usize = kani::any();
        kani::assume(remaining >= blocks);
        fill_retirement_markers(&mut buf[..blocks * B], sector, remaining);
        let i: usize = kani::any();
        kani::assume(i < blocks);
        let want = marker_spec(sector + i as u64, (remaining - i) as u64, 1);
        let j: usize = kani::any();
        kani::assume(j < 19);
        assert!(buf[i * B + j] == want[j], "block i carries the marker of (sector+i, remaining-i)");
        let t: usize = kani::any();
        kani::assume(t >= 19 && t < B);
        assert!(buf[i * B + t] == 0x5A, "only the 19 marker bytes of each block are written");
        if blocks < 3 {
            assert!(buf[blocks * B] == 0x5A, "nothing beyond the given blocks");
        }
        kani::cover!(blocks == 3 && i == 2);
    }
}
