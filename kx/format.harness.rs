#[cfg(kani)]
mod verif_kani_format {
    //! U6: retirement marker layout; block-wise marker filling.
    use super::*;
    use crate::storage::seq_token::verif_kani_seq::{pl_lock_exclusive_slow, pl_lock_shared_slow, pl_mutex_lock_slow, pl_mutex_unlock_slow, pl_unlock_exclusive_slow, pl_unlock_shared_slow};
    use crate::storage::seq_token::verif_kani_seq::{fold_ref, ghost_chain_is, ghost_chain_result, ghost_chains, ghost_reset, stub_crc32c_impl_ghost};

    // marker bytes for (remaining, state) with the given token
    fn marker_with(remaining: u64, state: u8, token: u16) -> [u8; 19] {
        let mut m = [0u8; 19];
        m[0] = 0;
        m[1] = b'D';
        m[2] = b'E';
        m[3] = b'L';
        m[4] = b'E';
        m[5] = b'T';
        m[6] = b'E';
        m[7] = b'D';
        m[8..16].copy_from_slice(&remaining.to_le_bytes());
        m[16..18].copy_from_slice(&token.to_le_bytes());
        m[18] = state;
        m
    }

    // the byte string the marker token must be computed over
    fn token_input(sector: u64, remaining: u64, state: u8) -> [u8; 25] {
        let m = marker_with(remaining, state, 0);
        let mut cat = [0u8; 25];
        cat[..8].copy_from_slice(&sector.to_le_bytes());
        cat[8..24].copy_from_slice(&m[..16]);
        cat[24] = state;
        cat
    }

    #[kani::proof]
    #[kani::unwind(27)]
    #[kani::stub(crate::storage::seq_token::crc32c_impl, stub_crc32c_impl_ghost)]
    fn retirement_marker_layout() {
        let sector: u64 = kani::any();
        let remaining: usize = kani::any();
        let state: u8 = kani::any();
        let mut m: [u8; 19] = kani::any();
        ghost_reset();
        write_retirement_marker(&mut m, sector, remaining, state);
        assert!(ghost_chains() == 1 && ghost_chain_is(0, &token_input(sector, remaining as u64, state)),
            "token hashes le64(sector) ++ tag ++ le64(remaining) ++ state");
        let t = fold_ref(ghost_chain_result(0));
        assert!(m == marker_with(remaining as u64, state, t), "tag(8) | remaining le64 | token le16 | state");
        assert!(t != 0);
        // the public filler writes the COMPLETE state
        let mut c: [u8; 19] = kani::any();
        ghost_reset();
        fill_retirement_marker(&mut c, sector, remaining);
        assert!(RETIREMENT_COMPLETE == 1 && ghost_chain_is(0, &token_input(sector, remaining as u64, 1)));
        assert!(c == marker_with(remaining as u64, 1, fold_ref(ghost_chain_result(0))));
    }

    // block i of the buffer gets the marker for (sector+i, remaining-i); bytes 19.. of each block untouched
    #[kani::proof]
    #[kani::unwind(27)]
    #[kani::stub(crate::storage::seq_token::crc32c_impl, stub_crc32c_impl_ghost)]
    fn fill_markers_blockwise() {
        const B: usize = FEOX_BLOCK_SIZE;
        let mut buf = vec![0x5Au8; 3 * B];
        let blocks: usize = 2;
        let sector: u64 = kani::any();
        kani::assume(sector < u64::MAX - 4);
        let remaining: usize = kani::any();
        kani::assume(remaining >= blocks);
        ghost_reset();
        fill_retirement_markers(&mut buf[..blocks * B], sector, remaining);
        assert!(ghost_chains() == blocks, "one token per block");
        let i: usize = kani::any();
        kani::assume(i < blocks);
        assert!(ghost_chain_is(i, &token_input(sector + i as u64, (remaining - i) as u64, 1)), "block i is bound to sector+i and remaining-i");
        let want = marker_with((remaining - i) as u64, 1, fold_ref(ghost_chain_result(i)));
        let j: usize = kani::any();
        kani::assume(j < 19);
        assert!(buf[i * B + j] == want[j], "block i carries the marker of (sector+i, remaining-i)");
        let t: usize = kani::any();
        kani::assume(t >= 19 && t < B);
        assert!(buf[i * B + t] == 0x5A, "only the 19 marker bytes of each block are written");
        if blocks < 3 {
            assert!(buf[blocks * B] == 0x5A, "nothing beyond the given blocks");
        }
        kani::cover!(i == 1);
    }

    // C10: which record format a metadata version selects - v1 files keep the v1 record (no expiry field), v2 and v3 use the
    // v2 record; both accessors agree. Distinguished by behaviour (header size and value offset for every key length), all u32 versions.
    #[kani::proof]
    #[kani::stub(parking_lot::RawRwLock::lock_shared_slow, pl_lock_shared_slow)]
    #[kani::stub(parking_lot::RawRwLock::lock_exclusive_slow, pl_lock_exclusive_slow)]
    #[kani::stub(parking_lot::RawRwLock::unlock_shared_slow, pl_unlock_shared_slow)]
    #[kani::stub(parking_lot::RawRwLock::unlock_exclusive_slow, pl_unlock_exclusive_slow)]
    #[kani::stub(parking_lot::RawMutex::lock_slow, pl_mutex_lock_slow)]
    #[kani::stub(parking_lot::RawMutex::unlock_slow, pl_mutex_unlock_slow)]
    fn format_selection() {
        let version: u32 = kani::any();
        let k: usize = kani::any();
        kani::assume(k <= 0x10_0000);
        let by_ref = get_format_ref(version);
        let boxed = get_format(version);
        let v1_header = SECTOR_HEADER_SIZE + 2 + k + 8 + 8;
        let v2_header = v1_header + 8;
        assert!(by_ref.record_header_size(k) == boxed.record_header_size(k), "get_format and get_format_ref select the same format");
        assert!(by_ref.value_offset(k) == boxed.value_offset(k));
        if version == 1 {
            assert!(by_ref.record_header_size(k) == v1_header, "version 1 => v1 record: header | key_len | key | value_len | timestamp");
            assert!(by_ref.value_offset(k) == v1_header);
        } else if version == 2 || version == 3 {
            assert!(by_ref.record_header_size(k) == v2_header, "versions 2 and 3 => v2 record: ... | timestamp | expiry");
            assert!(by_ref.value_offset(k) == v2_header);
        } else {
            assert!(by_ref.record_header_size(k) == v1_header || by_ref.record_header_size(k) == v2_header);
        }
        kani::cover!(version == 1);
        kani::cover!(version == 3);
        kani::cover!(version > 3);
    }
}
