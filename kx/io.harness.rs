#[cfg(kani)]
pub(crate) mod verif_kani_io {
    //! U7 (I/O ordering, fault containment) and the DiskIO half of U3 (metadata alternation).
    //! All device syscalls are replaced by a ghost trace; one symbolic I/O call may fail.
    use super::*;
    use std::os::unix::io::FromRawFd;

    pub const CAP: usize = 16;
    pub const K_WRITE: u8 = 1;
    pub const K_FLUSH: u8 = 2;
    pub const K_MARK: u8 = 3; // retire_extents_unjournaled as one ghost event (markers + its fsync)
    pub const TAG_ACTIVE: u8 = 0xA1;
    pub const TAG_CLEAR: u8 = 0xC0;
    pub static mut T_KIND: [u8; CAP] = [0; CAP];
    pub static mut T_SECTOR: [u64; CAP] = [0; CAP];
    pub static mut T_LEN: [usize; CAP] = [0; CAP];
    pub static mut T_TAG: [u8; CAP] = [0; CAP];
    pub static mut T_N: usize = 0;
    pub static mut FAIL_AT: usize = usize::MAX;

    fn record(kind: u8, sector: u64, len: usize, tag: u8) -> bool {
        unsafe {
            let i = T_N;
            assert!(i < CAP, "ghost trace capacity");
            T_KIND[i] = kind;
            T_SECTOR[i] = sector;
            T_LEN[i] = len;
            T_TAG[i] = tag;
            T_N = i + 1;
            i != FAIL_AT
        }
    }

    fn reset(fail_at: usize) {
        unsafe {
            FAIL_AT = fail_at;
            T_N = 0;
        }
    }

    fn n() -> usize {
        unsafe { T_N }
    }

    fn kind(i: usize) -> u8 {
        unsafe { T_KIND[i] }
    }

    fn sector(i: usize) -> u64 {
        unsafe { T_SECTOR[i] }
    }

    fn len(i: usize) -> usize {
        unsafe { T_LEN[i] }
    }

    fn tag(i: usize) -> u8 {
        unsafe { T_TAG[i] }
    }

    fn io_err() -> FeoxError {
        FeoxError::IoError(io::Error::from_raw_os_error(5))
    }

    // Stubs keep the real `ensure_writable()` prefix so poisoning is exercised.
    pub fn stub_write_sectors_sync(this: &DiskIO, sector: u64, data: &[u8]) -> Result<()> {
        this.ensure_writable()?;
        let t = if data.is_empty() { 0 } else { data[0] };
        if record(K_WRITE, sector, data.len(), t) { Ok(()) } else { Err(io_err()) }
    }

    pub fn stub_flush(this: &DiskIO) -> Result<()> {
        this.ensure_writable()?;
        if record(K_FLUSH, 0, 0, 0) { Ok(()) } else { Err(io_err()) }
    }

    pub fn stub_retire_unjournaled(this: &DiskIO, extents: &[(u64, usize)]) -> Result<()> {
        this.ensure_writable()?;
        let first = if extents.is_empty() { 0 } else { extents[0].0 };
        if record(K_MARK, first, extents.len(), 0) { Ok(()) } else { Err(io_err()) }
    }

    pub fn stub_encode_active(generation: u64, extents: &[(u64, usize)]) -> Result<Vec<u8>> {
        if generation == 0 || extents.is_empty() || extents.len() > ALLOCATION_JOURNAL_MAX_ENTRIES {
            return Err(FeoxError::InvalidArgument);
        }
        let mut v = vec![0u8; FEOX_BLOCK_SIZE];
        v[0] = TAG_ACTIVE;
        Ok(v)
    }

    pub fn stub_encode_clear(generation: u64) -> Result<Vec<u8>> {
        if generation == 0 {
            return Err(FeoxError::InvalidArgument);
        }
        let mut v = vec![0u8; FEOX_BLOCK_SIZE];
        v[0] = TAG_CLEAR;
        Ok(v)
    }

    // identity "coalescing" for the ordering harnesses; the real function has its own unit
    pub fn stub_coalesce(extents: &[(u64, usize)]) -> Result<Vec<(u64, usize)>> {
        Ok(extents.to_vec())
    }

    pub fn stub_mark_file_indeterminate(_identity: FileIdentity, _file: &Arc<File>) {}

    // poison_writes minus the message formatting; the real one is proved in `poison_sets_flag`
    pub fn stub_poison_writes(this: &DiskIO, _error: FeoxError) -> FeoxError {
        this.write_indeterminate.store(true, Ordering::Release);
        FeoxError::IndeterminateWrite(io::Error::from(io::ErrorKind::Other))
    }

    // marker bytes are proved in the marker unit; here the ARGUMENTS of every call are recorded
    pub static mut FM_N: usize = 0;
    pub static mut FM_SECTOR: [u64; 4] = [0; 4];
    pub static mut FM_REMAINING: [usize; 4] = [0; 4];
    pub static mut FM_LEN: [usize; 4] = [0; 4];

    pub fn stub_fill_markers(retired: &mut [u8], sector: u64, remaining: usize) {
        unsafe {
            assert!(FM_N < 4);
            FM_SECTOR[FM_N] = sector;
            FM_REMAINING[FM_N] = remaining;
            FM_LEN[FM_N] = retired.len();
            FM_N += 1;
        }
    }

    pub fn mk_io(generation: u64, slot: usize, poisoned: bool) -> DiskIO {
        DiskIO {
            ring: None,
            next_user_data: 0,
            write_indeterminate: AtomicBool::new(poisoned),
            journal_generation: AtomicU64::new(generation),
            journal_slot: AtomicUsize::new(slot),
            file_identity: FileIdentity { device: 0, inode: 0 },
            _file: Arc::new(unsafe { File::from_raw_fd(7) }),
            fd: 7,
            _use_direct_io: false,
        }
    }

    fn any_io() -> (DiskIO, u64, usize) {
        let g0: u64 = kani::any();
        let s0: usize = kani::any();
        kani::assume(s0 < ALLOCATION_JOURNAL_SLOTS);
        (mk_io(g0, s0, false), g0, s0)
    }

    fn pos(io: &DiskIO) -> (u64, usize) {
        (io.journal_generation.load(Ordering::Acquire), io.journal_slot.load(Ordering::Acquire))
    }

    fn is_indeterminate(e: &FeoxError) -> bool {
        matches!(e, FeoxError::IndeterminateWrite(_))
    }

    // ---------------------------------------------------------------- journal writers
    #[kani::proof]
    #[kani::stub(DiskIO::write_sectors_sync, stub_write_sectors_sync)]
    #[kani::stub(DiskIO::flush, stub_flush)]
    #[kani::stub(crate::storage::allocation_journal::encode_active, stub_encode_active)]
    fn journal_write_ordering() {
        let (io, g0, s0) = any_io();
        let fail_at: usize = kani::any();
        kani::assume(fail_at <= 2);
        reset(fail_at);
        let ext = [(kani::any::<u64>(), kani::any::<usize>())];
        let r = io.write_allocation_journal(&ext);
        let (g1, s1) = pos(&io);
        match r {
            Ok(()) => {
                assert!(fail_at >= 2, "Ok implies no I/O call failed");
                assert!(n() == 2 && kind(0) == K_WRITE && kind(1) == K_FLUSH, "Ok implies exactly [write, fsync]");
                assert!(tag(0) == TAG_ACTIVE, "the ACTIVE image is what is written");
                assert!(sector(0) == 1 + 3 * (s1 as u64) && len(0) == FEOX_BLOCK_SIZE, "journal slot sector");
                assert!(g0 != u64::MAX && g1 == g0 + 1, "generation advances by exactly one");
                assert!(s1 == (s0 + 1) % 2, "slot alternates");
            }
            Err(_) => {
                assert!(g1 == g0 && s1 == s0, "Err leaves the in-memory journal position unchanged");
                assert!(n() <= 2, "no I/O after a failed call");
            }
        }
        kani::cover!(r.is_ok(), "Ok reachable");
        kani::cover!(r.is_err() && n() == 2, "fsync failure reachable");
        kani::cover!(r.is_err() && n() == 1, "write failure reachable");
        std::mem::forget(io);
    }

    #[kani::proof]
    #[kani::stub(DiskIO::write_sectors_sync, stub_write_sectors_sync)]
    #[kani::stub(DiskIO::flush, stub_flush)]
    #[kani::stub(crate::storage::allocation_journal::encode_clear, stub_encode_clear)]
    fn journal_clear_ordering() {
        let (io, g0, s0) = any_io();
        let fail_at: usize = kani::any();
        kani::assume(fail_at <= 2);
        reset(fail_at);
        let r = io.clear_allocation_journal();
        let (g1, s1) = pos(&io);
        match r {
            Ok(()) => {
                assert!(fail_at >= 2, "Ok implies no I/O call failed");
                assert!(n() == 2 && kind(0) == K_WRITE && kind(1) == K_FLUSH, "Ok implies exactly [write, fsync]");
                assert!(tag(0) == TAG_CLEAR, "the CLEAR image is what is written");
                assert!(sector(0) == 1 + 3 * (s1 as u64), "journal slot sector");
                assert!(g0 != u64::MAX && g1 == g0 + 1, "generation advances by exactly one");
                assert!(s1 == (s0 + 1) % 2, "slot alternates");
            }
            Err(_) => {
                assert!(g1 == g0 && s1 == s0, "Err leaves the in-memory journal position unchanged");
            }
        }
        kani::cover!(r.is_ok(), "Ok reachable");
        kani::cover!(r.is_err() && n() == 2, "fsync failure reachable");
        kani::cover!(r.is_err() && n() == 1, "write failure reachable");
        std::mem::forget(io);
    }

    #[kani::proof]
    fn journal_position_contract() {
        let (io, g0, s0) = any_io();
        match io.next_journal_position() {
            Ok((g, s)) => {
                assert!(g0 < u64::MAX && g == g0 + 1);
                assert!(s == 1 - s0);
                assert!(io.journal_sector(s) == 1 + 3 * s as u64);
                assert!(io.journal_sector(s) + 3 <= 7, "slot stays inside blocks 1..7");
            }
            Err(e) => {
                assert!(g0 == u64::MAX && matches!(e, FeoxError::InvalidMetadata));
            }
        }
        assert!(pos(&io) == (g0, s0), "pure");
        kani::cover!(g0 == u64::MAX);
        kani::cover!(g0 < u64::MAX);
        std::mem::forget(io);
    }

    // ---------------------------------------------------------------- retirement transaction
    // journal(intent) -> fsync -> markers(+fsync) -> clear -> fsync ; any fault poisons the handle
    #[kani::proof]
    #[kani::unwind(3)]
    #[kani::stub(DiskIO::write_sectors_sync, stub_write_sectors_sync)]
    #[kani::stub(DiskIO::flush, stub_flush)]
    #[kani::stub(DiskIO::retire_extents_unjournaled, stub_retire_unjournaled)]
    #[kani::stub(crate::storage::allocation_journal::encode_active, stub_encode_active)]
    #[kani::stub(crate::storage::allocation_journal::encode_clear, stub_encode_clear)]
    #[kani::stub(coalesce_extents, stub_coalesce)]
    #[kani::stub(DiskIO::poison_writes, stub_poison_writes)]
    fn retire_extents_ordering() {
        let (io, g0, s0) = any_io();
        kani::assume(g0 < u64::MAX - 2);
        let fail_at: usize = kani::any();
        kani::assume(fail_at <= 5);
        reset(fail_at);
        let ext = [(kani::any::<u64>(), kani::any::<usize>())];
        let empty: bool = kani::any();
        let r = if empty { io.retire_extents(&[]) } else { io.retire_extents(&ext) };
        let poisoned = io.write_indeterminate.load(Ordering::Acquire);
        if empty {
            assert!(r.is_ok() && n() == 0 && !poisoned, "nothing to retire: no I/O");
        } else {
            match &r {
                Ok(()) => {
                    assert!(fail_at >= 5, "Ok implies no I/O call failed");
                    assert!(n() == 5, "Ok implies the full transaction ran");
                    assert!(kind(0) == K_WRITE && tag(0) == TAG_ACTIVE, "1: journal intent written");
                    assert!(kind(1) == K_FLUSH, "2: intent fsynced before any marker");
                    assert!(kind(2) == K_MARK && sector(2) == ext[0].0, "3: markers for the journaled extents");
                    assert!(kind(3) == K_WRITE && tag(3) == TAG_CLEAR, "4: journal cleared only after the markers");
                    assert!(kind(4) == K_FLUSH, "5: clear fsynced");
                    assert!(!poisoned);
                    assert!(pos(&io) == (g0 + 2, s0), "two journal generations consumed");
                }
                Err(e) => {
                    assert!(fail_at < 5, "Err only when an I/O call failed");
                    assert!(n() == fail_at + 1, "no I/O is issued after the failing call");
                    assert!(is_indeterminate(e) && poisoned, "any fault poisons the handle and is reported as IndeterminateWrite");
                    if n() >= 3 {
                        assert!(kind(0) == K_WRITE && kind(1) == K_FLUSH && kind(2) == K_MARK, "markers only after a durable intent");
                    }
                }
            }
        }
        kani::cover!(!empty && r.is_ok(), "Ok reachable");
        kani::cover!(!empty && r.is_err() && n() == 1, "fault in intent write");
        kani::cover!(!empty && r.is_err() && n() == 3, "fault in markers");
        kani::cover!(!empty && r.is_err() && n() == 5, "fault in clear fsync");
        std::mem::forget(io);
    }

    // replay on open: markers (idempotent) first, clear last
    #[kani::proof]
    #[kani::stub(DiskIO::write_sectors_sync, stub_write_sectors_sync)]
    #[kani::stub(DiskIO::flush, stub_flush)]
    #[kani::stub(DiskIO::retire_extents_unjournaled, stub_retire_unjournaled)]
    #[kani::stub(crate::storage::allocation_journal::encode_clear, stub_encode_clear)]
    #[kani::stub(coalesce_extents, stub_coalesce)]
    fn replay_journal_ordering() {
        let (io, g0, s0) = any_io();
        let fail_at: usize = kani::any();
        kani::assume(fail_at <= 3);
        reset(fail_at);
        let ext = [(kani::any::<u64>(), kani::any::<usize>())];
        let empty: bool = kani::any();
        let r = if empty { io.replay_allocation_journal(&[]) } else { io.replay_allocation_journal(&ext) };
        if empty {
            assert!(r.is_ok() && n() == 0, "empty journal: no I/O");
        } else {
            match &r {
                Ok(()) => {
                    assert!(fail_at >= 3);
                    assert!(n() == 3 && kind(0) == K_MARK && kind(1) == K_WRITE && tag(1) == TAG_CLEAR && kind(2) == K_FLUSH,
                        "replay = markers, then clear, then fsync; the clear is last");
                    assert!(g0 != u64::MAX && pos(&io) == (g0 + 1, 1 - s0));
                }
                Err(_) => {
                    assert!(pos(&io) == (g0, s0), "a failed replay leaves the journal position (and the durable ACTIVE image) alone");
                    if fail_at == 0 {
                        assert!(n() == 1, "journal is not cleared when the markers failed");
                    }
                }
            }
        }
        kani::cover!(!empty && r.is_ok());
        kani::cover!(!empty && r.is_err() && n() == 1);
        kani::cover!(!empty && r.is_err() && n() == 3);
        std::mem::forget(io);
    }

    // marker writer: covers [s, s+n) exactly once, in order, then exactly one fsync
    #[kani::proof]
    #[kani::unwind(5)]
    #[kani::stub(DiskIO::write_sectors_sync, stub_write_sectors_sync)]
    #[kani::stub(DiskIO::flush, stub_flush)]
    #[kani::stub(crate::storage::format::fill_retirement_markers, stub_fill_markers)]
    fn retire_unjournaled_covers_extent() {
        let (io, _, _) = any_io();
        let fail_at: usize = kani::any();
        kani::assume(fail_at <= 4);
        reset(fail_at);
        unsafe { FM_N = 0 };
        let s: u64 = kani::any();
        let cnt: usize = kani::any();
        kani::assume(s >= 16 && s < (1u64 << 28));
        kani::assume(cnt <= 3 * RETIREMENT_WRITE_BLOCKS);
        let r = io.retire_extents_unjournaled(&[(s, cnt)]);
        match &r {
            Ok(()) => {
                assert!(cnt >= 1);
                let writes = n() - 1;
                assert!(kind(writes) == K_FLUSH, "one fsync, after the last marker write");
                let mut next = s;
                let mut i = 0;
                while i < writes {
                    assert!(kind(i) == K_WRITE && sector(i) == next, "consecutive, in order, no gap, no overlap");
                    assert!(len(i) % FEOX_BLOCK_SIZE == 0 && len(i) > 0 && len(i) <= RETIREMENT_WRITE_BLOCKS * FEOX_BLOCK_SIZE);
                    // the markers of this chunk were filled for (its first sector, blocks still to go) over exactly the chunk
                    assert!(unsafe { FM_SECTOR[i] } == next && unsafe { FM_LEN[i] } == len(i), "markers are bound to the chunk's own sectors");
                    assert!(unsafe { FM_REMAINING[i] } as u64 == s + cnt as u64 - next, "remaining count = blocks from this chunk to the end of the extent");
                    next += (len(i) / FEOX_BLOCK_SIZE) as u64;
                    i += 1;
                }
                assert!(next == s + cnt as u64, "exactly the extent is covered");
                assert!(unsafe { FM_N } == writes, "one marker fill per chunk write");
            }
            Err(_) => {
                assert!(cnt == 0 || fail_at < n(), "Err only for an empty extent or a failed I/O call");
                if cnt != 0 {
                    assert!(n() == fail_at + 1, "nothing after the failing call (no fsync 'success' after a failed write)");
                }
            }
        }
        kani::cover!(r.is_ok() && n() == 4, "three chunks + fsync");
        kani::cover!(r.is_ok() && n() == 2, "one chunk + fsync");
        kani::cover!(r.is_err() && cnt == 0);
        kani::cover!(r.is_err() && cnt != 0);
        std::mem::forget(io);
    }

    // ---------------------------------------------------------------- poisoning
    #[kani::proof]
    #[kani::stub(mark_file_indeterminate, stub_mark_file_indeterminate)]
    fn poison_sets_flag() {
        let (io, _, _) = any_io();
        let e = io.poison_writes(FeoxError::InvalidArgument);
        assert!(is_indeterminate(&e));
        assert!(io.write_indeterminate.load(Ordering::Acquire));
        assert!(io.ensure_writable().is_err());
        std::mem::forget(io);
    }

    // once poisoned, the REAL write/flush entry points refuse before any syscall
    // (a reachable libc::pwrite/fsync would be an unsupported foreign call and fail the proof)
    #[kani::proof]
    fn poisoned_refuses_raw_io() {
        let io = mk_io(kani::any(), 0, true);
        let data = [0u8; 8];
        let r1 = io.write_sectors_sync(kani::any(), &data);
        assert!(matches!(r1, Err(FeoxError::IndeterminateWrite(_))));
        let r2 = io.flush();
        assert!(matches!(r2, Err(FeoxError::IndeterminateWrite(_))));
        std::mem::forget(io);
    }

    #[kani::proof]
    #[kani::stub(DiskIO::write_sectors_sync, stub_write_sectors_sync)]
    #[kani::stub(DiskIO::flush, stub_flush)]
    #[kani::stub(crate::storage::allocation_journal::encode_active, stub_encode_active)]
    #[kani::stub(crate::storage::allocation_journal::encode_clear, stub_encode_clear)]
    fn poisoned_refuses_journal() {
        let io = mk_io(kani::any(), kani::any::<bool>() as usize, true);
        reset(usize::MAX);
        let before = pos(&io);
        let ext = [(kani::any::<u64>(), kani::any::<usize>())];
        let r1 = io.write_allocation_journal(&ext);
        let r2 = io.clear_allocation_journal();
        assert!(r1.is_err() && r2.is_err());
        assert!(n() == 0, "a poisoned handle issues no I/O");
        assert!(pos(&io) == before);
        std::mem::forget(io);
    }

    // ---------------------------------------------------------------- synchronous batch path
    #[kani::proof]
    #[kani::unwind(4)]
    #[kani::solver(kissat)]
    #[kani::stub(DiskIO::write_sectors_sync, stub_write_sectors_sync)]
    #[kani::stub(DiskIO::flush, stub_flush)]
    fn batch_write_sync_path() {
        let (mut io, _, _) = any_io();
        let fail_at: usize = kani::any();
        kani::assume(fail_at <= 3);
        reset(fail_at);
        let a: u64 = kani::any();
        let b: u64 = kani::any();
        static W1: [u8; 4] = [1, 0, 0, 0];
        static W2: [u8; 4] = [2, 0, 0, 0];
        let writes = [(a, Bytes::from_static(&W1)), (b, Bytes::from_static(&W2))];
        let r = io.batch_write_bytes(&writes);
        std::mem::forget(writes);
        match &r {
            Ok(()) => {
                assert!(fail_at >= 3);
                assert!(n() == 3 && kind(0) == K_WRITE && kind(1) == K_WRITE && kind(2) == K_FLUSH, "all writes in order, then one fsync");
                assert!(sector(0) == a && tag(0) == 1 && sector(1) == b && tag(1) == 2);
            }
            Err(_) => {
                assert!(fail_at < 3 && n() == fail_at + 1, "a failed write or fsync is reported; nothing is issued after it");
            }
        }
        kani::cover!(r.is_ok());
        kani::cover!(r.is_err() && n() == 3);
        kani::cover!(r.is_err() && n() == 1);
        std::mem::forget(io);
    }

    // ---------------------------------------------------------------- metadata I/O (U3)
    use crate::storage::metadata::verif_kani_metadata::{any_metadata, with_generation};
    use crate::storage::seq_token::verif_kani_seq::stub_crc32c_impl_ghost;

    pub static mut READ_BUF_TAGS: [u8; 4] = [0; 4]; // [primary valid, backup valid, ..]
    pub static mut READ_GEN: [u64; 2] = [0; 2];

    // read stub: 8 blocks, block 0 and block 7 start with a tag byte (0x10 primary, 0x17 backup)
    pub fn stub_read_sectors_sync(_this: &DiskIO, sector: u64, count: u64) -> Result<Vec<u8>> {
        assert!(sector == 0 && count == 8, "read_metadata reads blocks 0..=7 in one call");
        let mut v = vec![0u8; 8 * FEOX_BLOCK_SIZE];
        v[0] = 0x10;
        v[7 * FEOX_BLOCK_SIZE] = 0x17;
        Ok(v)
    }

    // decode stub: validity and generation of each copy are symbolic (set by the harness)
    pub fn stub_from_bytes(bytes: &[u8]) -> Option<Metadata> {
        let which = if bytes[0] == 0x10 { 0 } else { 1 };
        unsafe {
            if READ_BUF_TAGS[which] == 1 { Some(with_generation(READ_GEN[which])) } else { None }
        }
    }

    #[kani::proof]
    #[kani::stub(DiskIO::read_sectors_sync, stub_read_sectors_sync)]
    #[kani::stub(crate::storage::metadata::Metadata::from_bytes, stub_from_bytes)]
    fn read_metadata_selection() {
        let (io, _, _) = any_io();
        let pv: bool = kani::any();
        let bv: bool = kani::any();
        let pg: u64 = kani::any();
        let bg: u64 = kani::any();
        unsafe {
            READ_BUF_TAGS[0] = pv as u8;
            READ_BUF_TAGS[1] = bv as u8;
            READ_GEN = [pg, bg];
        }
        let r = io.read_metadata().unwrap();
        assert!(r.len() == FEOX_BLOCK_SIZE);
        let chose_backup = r[0] == 0x17;
        assert!(chose_backup || r[0] == 0x10);
        let want_backup = (pv && bv && bg > pg) || (!pv && bv);
        assert!(chose_backup == want_backup, "newest valid copy wins; primary on ties; the only valid copy otherwise; primary when none is valid");
        kani::cover!(chose_backup);
        kani::cover!(!chose_backup && pv && bv);
        std::mem::forget(io);
    }

    #[kani::proof]
    #[kani::unwind(140)]
    #[kani::stub(DiskIO::write_sectors_sync, stub_write_sectors_sync)]
    #[kani::stub(DiskIO::flush, stub_flush)]
    #[kani::stub(crate::storage::seq_token::crc32c_impl, stub_crc32c_impl_ghost)]
    fn write_store_metadata_ordering() {
        let (io, _, _) = any_io();
        let fail_at: usize = kani::any();
        kani::assume(fail_at <= 2);
        reset(fail_at);
        let mut m = any_metadata();
        let before = m.encode();
        let g0 = m.generation();
        let r = io.write_store_metadata(&mut m);
        match &r {
            Ok(()) => {
                assert!(fail_at >= 2);
                assert!(g0 < u64::MAX && m.generation() == g0 + 1, "the caller's copy advances by one generation");
                assert!(n() == 2 && kind(0) == K_WRITE && kind(1) == K_FLUSH && len(0) == FEOX_BLOCK_SIZE, "exactly [write one block, fsync]");
                let want = if (g0 + 1) % 2 == 0 { 0 } else { 7 };
                assert!(sector(0) == want, "even new generation -> primary block 0, odd -> backup block 7 (never the copy holding the last durable generation)");
                assert!(tag(0) == m.signature[0], "the block starts with the encoded image");
            }
            Err(_) => {
                assert!(m.encode() == before, "on any failure the caller's metadata is unchanged");
                assert!(n() <= 2);
            }
        }
        kani::cover!(r.is_ok() && sector(0) == 0);
        kani::cover!(r.is_ok() && sector(0) == 7);
        kani::cover!(r.is_err() && n() == 2);
        kani::cover!(r.is_err() && n() == 0);
        std::mem::forget(io);
    }

    #[kani::proof]
    fn metadata_block_contract() {
        let src: [u8; 136] = kani::any();
        let b = metadata_block(&src).unwrap();
        assert!(b.len() == FEOX_BLOCK_SIZE);
        let i: usize = kani::any();
        kani::assume(i < FEOX_BLOCK_SIZE);
        assert!(b[i] == if i < 136 { src[i] } else { 0 }, "image at offset 0, zero padded to one block");
        let big = vec![0u8; FEOX_BLOCK_SIZE + 1];
        assert!(metadata_block(&big).is_err());
    }

    // ---------------------------------------------------------------- coalesce_extents (real), 2 extents
    fn stub_sort2<T, F>(v: &mut [T], is_less: &mut F)
    where
        F: FnMut(&T, &T) -> bool,
    {
        assert!(v.len() <= 2, "sort stub: at most two elements");
        if v.len() == 2 && is_less(&v[1], &v[0]) {
            v.swap(0, 1);
        }
    }

    #[kani::proof]
    #[kani::unwind(4)]
    #[kani::stub(core::slice::sort::unstable::sort, stub_sort2)]
    fn coalesce_extents_contract() {
        let a = (kani::any::<u64>(), kani::any::<usize>());
        let b = (kani::any::<u64>(), kani::any::<usize>());
        let n: usize = 2;
        let input = [a, b];
        kani::assume(a.1 < (1usize << 32) && b.1 < (1usize << 32));
        let r = coalesce_extents(&input[..n]);
        // independent statement for up to two extents (lengths as the callers produce them: < 2^32)
        let bad = |e: (u64, usize)| e.1 == 0 || e.0.checked_add(e.1 as u64).is_none();
        match &r {
            Ok(out) => {
                if n == 0 {
                    assert!(out.is_empty());
                } else if n == 1 {
                    assert!(!bad(a) && out.len() == 1 && out[0] == a);
                } else {
                    assert!(!bad(a) && !bad(b));
                    let (lo, hi) = if a.0 <= b.0 { (a, b) } else { (b, a) };
                    let lo_end = lo.0 + lo.1 as u64;
                    assert!(lo_end <= hi.0, "overlapping extents are rejected, never merged");
                    if lo_end == hi.0 {
                        assert!(out.len() == 1 && out[0].0 == lo.0 && out[0].1 == lo.1 + hi.1, "exactly adjacent runs are merged; the union of blocks is preserved");
                    } else {
                        assert!(out.len() == 2 && out[0] == lo && out[1] == hi, "otherwise sorted by start, unchanged");
                    }
                }
            }
            Err(_) => {
                let overlap = n == 2 && !bad(a) && !bad(b) && {
                    let (lo, hi) = if a.0 <= b.0 { (a, b) } else { (b, a) };
                    lo.0 + lo.1 as u64 > hi.0
                };
                assert!((n >= 1 && bad(a)) || (n == 2 && bad(b)) || overlap, "Err only for an empty/overflowing extent or an overlap");
            }
        }
        kani::cover!(r.is_ok() && n == 2 && r.as_ref().unwrap().len() == 1, "merge");
        kani::cover!(r.is_ok() && n == 2 && r.as_ref().unwrap().len() == 2, "kept apart");
        kani::cover!(r.is_err() && n == 2, "rejected");
        std::mem::forget(r);
    }
}
