#!/bin/bash
# usage: confirm_seed.sh <worktree> <demo cargo args...>
# Confirms: (1) existing suite passes with the change, (2) demo fails with it, (3) demo passes without it.
wt=$1; shift
cd "$wt" || exit 2
export CARGO_NET_OFFLINE=true
echo "== patch applies to the worktree state:"; git diff --stat -- src | tail -3
echo "== (1) existing suite WITH the change (demo excluded)"
cargo test --workspace --no-fail-fast --offline --lib --bins --test feox_migrate_cli 2>&1 | grep -E "^test result|FAILED|failed" | head -10
echo "== (2) demo WITH the change"
cargo test --offline "$@" 2>&1 | grep -E "^test result|^test .*FAILED|panicked" | head -10
git stash push -q -- src
echo "== (3) demo WITHOUT the change"
cargo test --offline "$@" 2>&1 | grep -E "^test result|^test .*FAILED|panicked" | head -10
git stash pop -q
echo "== restored:"; git diff --stat -- src | tail -1
