#!/bin/bash
# usage: confirm_seed.sh <worktree> <demo-name-substring> <demo cargo args...>
# Confirms: (1) existing suite passes with the change (demo tests excluded), (2) demo fails with it, (3) demo passes without it.
wt=$1; demo=$2; shift; shift
cd "$wt" || exit 2
export CARGO_NET_OFFLINE=true
bugfiles=$(grep '^+++ b/' patch.diff | sed 's#^+++ b/##')
echo "== bug files: $bugfiles"
echo "== (1) existing suite WITH the change (failures other than the demo's are listed)"
cargo test --workspace --no-fail-fast --offline --lib --bins --test feox_migrate_cli -- --test-threads=6 2>&1 | grep -E "^test result|^test .*FAILED" | grep -v "$demo" | head -10
echo "== (2) demo WITH the change"
cargo test --offline "$@" 2>&1 | grep -E "^test result|^test .*FAILED" | head -10
git apply -R patch.diff
echo "== (3) demo WITHOUT the change"
cargo test --offline "$@" 2>&1 | grep -E "^test result|^test .*FAILED" | head -10
git apply patch.diff
echo "== restored:"; git diff --stat -- $bugfiles | tail -1
