#!/usr/bin/env python3
"""Developer aid (not evidence): for every mutant WITHOUT a `units` field, run the Verus units whose sources contain the
edited file and report whether any of them flags it. usage: mut_regress.py [id ...]"""
import glob, importlib.util, json, os, shutil, subprocess, sys
VERIF = os.path.dirname(os.path.dirname(os.path.abspath(__file__)))
muts = json.load(open(os.path.join(VERIF, "selftest", "mutants.json")))
units = {}
for up in glob.glob(os.path.join(VERIF, "vx", "*", "unit.py")):
    spec = importlib.util.spec_from_file_location("u", up)
    mod = importlib.util.module_from_spec(spec)
    spec.loader.exec_module(mod)
    units[os.path.basename(os.path.dirname(up))] = set(mod.UNIT["sources"].values())
sel = sys.argv[1:]
bad = 0
for m in muts:
    if m.get("units") or (sel and m["id"] not in sel):
        continue
    files = {e["file"] for e in m["edits"]}
    us = sorted(u for u, srcs in units.items() if files & srcs)
    if not us:
        print("%-6s no Verus unit covers %s (Kani-only mutant)" % (m["id"], sorted(files)), flush=True)
        continue
    d = os.path.join(VERIF, ".scratch", "mr-" + m["id"])
    shutil.rmtree(d, ignore_errors=True)
    os.makedirs(d)
    subprocess.run(["rsync", "-a", "--exclude", "target", "--exclude", ".git", "/repo/", d + "/"], check=True)
    try:
        for e in m["edits"]:
            p = os.path.join(d, e["file"])
            s = open(p).read()
            assert e["old"] in s, (m["id"], e["old"][:50])
            open(p, "w").write(s.replace(e["old"], e["new"], 1))
        res = {}
        for u in us:
            r = subprocess.run([os.path.join(VERIF, "check"), "--unit", "verus:" + u], env=dict(os.environ, VERIF_REPO=d, VERIF_NO_EVIDENCE="1"), capture_output=True, text=True)
            res[u] = {0: "pass", 1: "violation", 2: "undecided"}.get(r.returncode, "rc%d" % r.returncode)
        got = "violation" if "violation" in res.values() else ("undecided" if "undecided" in res.values() else "pass")
        ok = (got == m["expect"]) or (m["expect"] == "violation" and got == "undecided" and False)
        if not ok:
            bad += 1
        print("%-6s expect=%-9s got=%-9s %s %s" % (m["id"], m["expect"], got, "OK  " if ok else "DIFF", res), flush=True)
    finally:
        shutil.rmtree(d, ignore_errors=True)
print("differences:", bad)
