#!/bin/bash
# usage: run_seed.sh <seed id> <property>...   apply the seeded patch to /repo, run the checks, undo.
id=$1; shift
git -C /repo apply /verif/seeded/$id/patch.diff || { echo "patch does not apply"; exit 2; }
for p in "$@"; do
  VERIF_NO_EVIDENCE=1 /verif/check $p 2>&1 | grep -E "^(VIOLATION|UNDECIDED|KNOWN|C[0-9]+:|  obligation)" | cut -c1-400
  echo "rc($p)=${PIPESTATUS[0]}"
done
git -C /repo checkout -- .
git -C /repo status --short | head -3
