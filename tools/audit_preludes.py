#!/usr/bin/env python3
"""Lint for the trusted preludes (developer aid): an `uninterp spec fn f(&self)` on a struct WITHOUT an opaque (external_body)
field is a function of the struct's few concrete values; `&mut self` shims whose `ensures` change f (a ghost log, a position)
are then contradictory after a few calls and make every proof behind them vacuous. Found the hard way in unit io_meta
(DiskIO { _use_direct_io: bool } with log()); mutants that should have failed passed. Exit 1 if a suspicious struct is found."""
import glob, os, re, sys
VERIF = os.path.dirname(os.path.dirname(os.path.abspath(__file__)))
bad = 0
for p in sorted(glob.glob(os.path.join(VERIF, "vx", "prelude", "*.rs"))):
    s = open(p).read()
    ext = set(re.findall(r"#\[verifier::external_body\]\s*(?:#\[[^\]]*\]\s*)*pub struct (\w+)", s))
    for m in re.finditer(r"(?<!\]\n)pub struct (\w+)\s*(?:<[^>]*>)?\s*\{([^}]*)\}", s):
        name, body = m.groups()
        if name in ext:
            continue
        im = re.search(r"impl(?:<[^>]*>)?\s+%s\b[^{]*\{" % name, s)
        if not im:
            continue
        end = s.find("\n}\n", im.end())
        blk = s[im.end():end]
        specs = re.findall(r"uninterp spec fn (\w+)\(&self", blk)
        mutators = [f for f in re.findall(r"pub fn (\w+)\(&mut self[^{]*?ensures([^{]*)\{", blk, re.S) if any(("final(self).%s()" % sp) in f[1] for sp in specs)]
        field_types = [f_.split(":", 1)[1].strip() for f_ in body.split(",") if ":" in f_]
        opaque_field = any(any(t.strip().startswith(e) or ("<" + e) in t for e in ext) or "Ghost<" in t for t in field_types)
        if specs and mutators and not opaque_field:
            print("SUSPICIOUS %s: struct %s has no opaque field but %s change(s) %s" % (os.path.basename(p), name, [f[0] for f in mutators], specs))
            bad += 1
print("audited; suspicious structs:", bad)
sys.exit(1 if bad else 0)
