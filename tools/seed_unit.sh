#!/bin/bash
# usage: seed_unit.sh <patch.diff> <route:unit|Cxx>...   developer shortcut: apply a patch to a scratch copy of /repo
# and run single units (or whole properties) against it. Not evidence.
patch=$1; shift
d=/verif/.scratch/seed-$$
mkdir -p $d && rsync -a --exclude target --exclude .git /repo/ $d/ || exit 2
(cd $d && patch -p1 -s < "$patch") || { echo "patch does not apply"; rm -rf $d; exit 2; }
for t in "$@"; do
  if [[ $t == *:* ]]; then
    VERIF_REPO=$d VERIF_NO_EVIDENCE=1 /verif/check --unit $t 2>&1 | grep -vE "^  discharged" | cut -c1-300
  else
    VERIF_REPO=$d VERIF_NO_EVIDENCE=1 /verif/check $t 2>&1 | grep -E "^(VIOLATION|UNDECIDED|KNOWN|C[0-9]+:|  obligation)" | cut -c1-400
  fi
  echo "rc($t)=${PIPESTATUS[0]}"
done
rm -rf $d
