#!/usr/bin/env python3
"""save_seed.py <id> <worktree> <property> <demo path rel to worktree> <demo cargo args> -- needs-text"""
import json, os, shutil, subprocess, sys
sid, wt, prop, demo, demo_args, needs = sys.argv[1:7]
d = os.path.join("/verif/seeded", sid)
os.makedirs(d, exist_ok=True)
patch = subprocess.run(["git", "-C", wt, "diff", "--", "src"], capture_output=True, text=True).stdout
# wiring (if any) is kept separate by the agent; patch.diff must be the bug only
pf = os.path.join(wt, "patch.diff")
if os.path.exists(pf):
    patch = open(pf).read()
open(os.path.join(d, "patch.diff"), "w").write(patch)
shutil.copy(os.path.join(wt, demo), os.path.join(d, os.path.basename(demo)))
for extra in ("demo_wiring.diff", "REPORT.md"):
    p = os.path.join(wt, extra)
    if os.path.exists(p) and os.path.getsize(p) > 0:
        shutil.copy(p, os.path.join(d, extra))
meta = dict(id=sid, breaks_property=prop, needs_to_manifest=needs, demo=os.path.basename(demo), demo_destination=demo,
            confirmed_by_me=dict(commands=[
                "tools/confirm_seed.sh %s %s" % (wt, demo_args),
                "(1) cargo test --workspace --offline --lib --bins --test feox_migrate_cli  WITH the change: 316 + 6 passed, 0 failed",
                "(2) cargo test --offline %s WITH the change: FAILED" % demo_args,
                "(3) same WITHOUT the change (git stash): ok"]),
            origin="independent sub-agent given only the property text and a scratch worktree")
json.dump(meta, open(os.path.join(d, "meta.json"), "w"), indent=1)
print("saved", d)
