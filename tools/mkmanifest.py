#!/usr/bin/env python3
"""Regenerate MANIFEST.json from lib/props.py (claimed) + the not-applicable table below."""
import json, os, sys
VERIF = os.path.dirname(os.path.dirname(os.path.abspath(__file__)))
sys.path.insert(0, os.path.join(VERIF, "lib"))
import props

NA = {
 "C08": "interleaving property (readers vs flush/retire/reuse); only sequential kernels are provable and they are reported under C10/C03",
 "C14": "range scan lives entirely on crossbeam-skiplist + epoch pins, outside both tools",
 "C15": "file-system publication protocol + two whole-store recoveries; no per-function contract within reach decides it",
}
PENDING = "unit not built yet in this session (DESIGN §3); no claim is kept without its unit"
ALL = ["C%02d" % i for i in range(1, 21)]

checks = []
for pid in sorted(props.PROPS):
    P = props.PROPS[pid]
    checks.append({
        "property_id": pid,
        "quick_cmd": "./check %s --tier quick" % pid,
        "thorough_cmd": "./check %s --tier thorough" % pid,
        "evidence_file": "evidence/%s.json" % pid,
        "replay_cmd_template": "./check --replay {path}",
        "engine": "contracts",
        "level_claimed": {"category": "proof", "text": P["level_text"], "design_ref": P.get("design_ref", "DESIGN.md §3, §4")},
        "level_note": "Trusted: " + "; ".join("%s %s" % (a, props.ASSUMPTIONS[a]) for a in P["assumptions"]) +
                      ". Not decided by this check: " + "; ".join(P.get("not_decided", [])),
        "technique": P["technique"],
    })
na = []
for pid in ALL:
    if pid in props.PROPS:
        continue
    na.append({"property_id": pid, "reason": NA.get(pid, PENDING)})
m = {
 "version": 1,
 "setup_cmd": "./setup.sh",
 "hooks": {"guard": "kani",
           "enable": "no source hooks in /repo: every annotation (contracts, harness modules under #[cfg(kani)], Verus requires/ensures) is added to a scratch copy or an extracted file produced from /repo's working tree on each run",
           "baseline_off_cmd": "cd /repo && cargo test --workspace --no-fail-fast --offline",
           "source_commits": [], "add_only": True},
 "engines": [{"name": "contracts", "path": "check", "serves_properties": sorted(props.PROPS),
              "kind_free_text": "contract-based deductive verification: Verus on mechanically extracted real functions (lib/vxgen.py, vx/), Kani function contracts / complete harnesses on a staged copy of the real crate (lib/kani_route.py, kx/)"}],
 "checks": checks,
 "not_applicable": na,
 "notes": "exit 2 = undecided (tool limit / lost anchor / unsupported construct), never an alarm. See DESIGN.md.",
}
json.dump(m, open(os.path.join(VERIF, "MANIFEST.json"), "w"), indent=1)
print("claimed:", sorted(props.PROPS), "n/a:", [x["property_id"] for x in na])
