#!/bin/bash
# developer aid: re-verify every generated Verus unit under a few solver seeds (proof stability; not evidence)
cd /verif/build || exit 2
for f in $(ls *.rs | grep -v _vacuity); do
  for s in ${@:-1 2 3}; do
    r=$(verus $f --smt-option smt.random_seed=$s --num-threads 8 2>&1 | grep -E "verification results" | tail -1)
    echo "$f seed=$s $r"
  done
done
