#!/bin/sh
# Run once after a fresh restore (offline). Warms Verus and pre-builds the Kani dependency cache.
set -e
cd "$(dirname "$0")"
export CARGO_NET_OFFLINE=true
mkdir -p build evidence replays .cache
verus --version >/dev/null 2>&1 || { echo "verus not on PATH"; exit 1; }
[ -x tools/warm.sh ] && tools/warm.sh || true
exit 0
