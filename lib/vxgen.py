"""Verus route: mechanical extraction of real functions from /repo into one
self-contained file per unit, with a fixed rewrite table and injected contracts.

A unit is described by /verif/vx/<unit>/unit.py defining UNIT (dict):
  sources : {alias: path relative to repo}
  items   : list of item descriptors, emitted in order:
              ("const", alias, NAME)
              ("type",  alias, NAME, {opts})      opts: drop_attrs (default True)
              ("fn",    alias, NAME)
              ("impl",  alias, TYPE, [fn names], {opts})   opts: trait=..., header=...
              ("raw",   text)                      our own text (shims, Clone impls)
  rules   : list of rule names from lib/vxrules.py applied to every copied fn
  contracts : file name of the contract file (format below)
  spec    : list of files appended verbatim (ours)
  prelude : list of prelude shim files from /verif/vx/prelude/

Contract file format (line oriented):
  @fn [Type::]name
  @ret NAME               name the return value:  -> T   becomes  -> (NAME: T)
  @requires / @ensures    clauses; a clause starts on a line indented by exactly
                          4 spaces, continuation lines are indented deeper.
                          A line `    //= label` names the next clause.
  @loop K                 text inserted before the body of the K-th loop (1-based)
  @proof before|after ANCHOR   block inserted before/after the line(s) holding the
                          literal ANCHOR (whitespace-insensitive, must match once)
  @proof before-each|after-each ANCHOR   the same at EVERY occurrence (at least one): "each
                          statement of this shape owes this justification"
  @proof before-any|after-any ANCHOR     the same, zero occurrences allowed (ghost bookkeeping of
                          a statement whose absence must show up in a later obligation)
  @sig OLD => NEW         literal replacement inside the signature (e.g. `mut self`)
  @ghost                   the lines that follow (ghost `let` declarations) go at the start of the body
  @ledger TOKEN :: REGEX => PROOF   ghost bookkeeping of a call shape: before EVERY statement matching
                          REGEX (a regular expression over the extracted text; `$1`.. are its groups)
                          `proof { PROOF }` is inserted. Zero matches are allowed, but every occurrence
                          of TOKEN in the body must lie inside a match - a call of that kind the pattern
                          does not recognise makes the unit undecided instead of silently uncounted.
  @ledger-after ...       the same, inserted after the statement
  @closure |PARAMS| => |TYPED PARAMS| -> (NAME: T)
                          the closure header |PARAMS| (must occur once in the body, after the
                          rewrite rules) gets parameter types / a named result, and the lines
                          that follow (requires / ensures clauses) are inserted before its body
"""
import hashlib
import importlib.util
import json
import os
import re

from rsparse import Source, ParseError, find_loops, mask, line_of, match_close, split_top_level

VERIF = os.path.dirname(os.path.dirname(os.path.abspath(__file__)))


_RUST_WORDS = {"if", "while", "for", "match", "return", "loop", "fn", "let", "Some", "None", "Ok", "Err", "assert", "proof", "forall", "exists", "drop", "matches"}


def _split_params(ptxt):
    """Split a parameter list at top-level commas; `<..>` of generic types nests (in a parameter list `<` is never
    a comparison), `->` is not a closing bracket."""
    m_ = mask(ptxt)
    parts, d, last = [], 0, 0
    for i, ch in enumerate(m_):
        if ch in "([{<":
            d += 1
        elif ch in ")]}" or (ch == ">" and (i == 0 or m_[i - 1] != "-")):
            d -= 1
        elif ch == "," and d == 0:
            parts.append(ptxt[last:i])
            last = i + 1
    parts.append(ptxt[last:])
    return parts


class Undecided(Exception):
    """Extraction could not be completed (lost anchor, unsupported construct)."""


# --------------------------------------------------------------------------
# contract file
# --------------------------------------------------------------------------
class FnContract:
    def __init__(self, key):
        self.key = key
        self.ret = None
        self.requires = []   # list of (label, text)
        self.ensures = []
        self.loops = {}      # k -> text
        self.optional_loops = set()
        self.proofs = []     # (where, anchor, text)
        self.sigsubs = []    # (old, new)
        self.closures = []   # (old header, new header, clauses text)
        self.ghost = []      # text at body start
        self.ledgers = []    # (token, regex, proof text, after?)
        self.scope_ends = [] # (regex of a guard binding, proof text placed where the binding's block ends)
        self.decreases = None
        self.attrs = []


def parse_contracts(path):
    out = {}
    cur = None
    section = None
    buf = []
    arg = None

    def flush():
        nonlocal buf, section, arg
        if cur is None or section is None:
            buf = []
            return
        text = "\n".join(buf).rstrip()
        if section in ("requires", "ensures"):
            clauses = []
            label = None
            curc = None
            for ln in buf:
                if not ln.strip():
                    continue
                m = re.match(r"^    //=\s*(.*)$", ln)
                if m:
                    if curc is not None:
                        clauses.append(curc)
                        curc = None
                    label = m.group(1).strip()
                    continue
                if re.match(r"^    \S", ln):
                    if curc is not None:
                        clauses.append(curc)
                    curc = [label, ln]
                    label = None
                else:
                    if curc is None:
                        raise ValueError("%s: continuation without clause: %r" % (path, ln))
                    curc[1] += "\n" + ln
            if curc is not None:
                clauses.append(curc)
            getattr(cur, section).extend((l, t) for l, t in clauses)
        elif section == "loop":
            cur.loops[int(arg)] = text
        elif section == "proof":
            where, anchor = arg
            cur.proofs.append((where, anchor, text))
        elif section == "closure":
            cur.closures.append((arg[0], arg[1], text))
        elif section == "ghost":
            cur.ghost.append(text)
        buf = []

    for raw in open(path):
        ln = raw.rstrip("\n")
        if ln.startswith("#") and section not in ("proof", "loop", "requires", "ensures", "closure", "ghost"):
            continue
        if ln.startswith("@"):
            flush()
            section = None
            parts = ln.split(None, 1)
            tag = parts[0][1:]
            rest = parts[1].strip() if len(parts) > 1 else ""
            if tag == "fn":
                cur = FnContract(rest)
                if rest in out:
                    raise ValueError("duplicate @fn %s" % rest)
                out[rest] = cur
            elif tag == "ret":
                cur.ret = rest
            elif tag in ("requires", "ensures"):
                section = tag
            elif tag in ("loop", "loop?"):
                # `@loop? k`: the spec applies if the function still has a k-th loop (a refactoring may have removed a
                # trailing bookkeeping loop); `@loop k` demands it
                section = "loop"
                arg = rest
                if tag == "loop?":
                    cur.optional_loops.add(int(rest))
            elif tag == "proof":
                if rest.strip() in ("end", "close"):
                    rest = rest.strip() + " <end-of-body>"
                where, anchor = rest.split(None, 1)
                assert where in ("before", "after", "end", "close", "before-each", "after-each", "before-any", "after-any", "afterblock-any", "afterblock-each"), where
                section = "proof"
                arg = (where, anchor.strip())
            elif tag == "sig":
                old, new = rest.split("=>")
                cur.sigsubs.append((old.strip(), new.strip()))
            elif tag == "ghost":
                section = "ghost"
            elif tag in ("ledger", "ledger-after"):
                token, rest2 = rest.split("::", 1)
                rx, proof = rest2.split("=>", 1)
                cur.ledgers.append((token.strip(), rx.strip(), proof.strip(), tag == "ledger-after"))
            elif tag == "scope-end":
                rx, proof = rest.split("=>", 1)
                cur.scope_ends.append((rx.strip(), proof.strip()))
            elif tag == "closure":
                old, new = rest.split("=>", 1)
                section = "closure"
                arg = (old.strip(), new.strip())
            elif tag == "decreases":
                cur.decreases = rest
            elif tag == "attr":
                cur.attrs.append(rest)
            elif tag == "end":
                pass
            else:
                raise ValueError("%s: unknown tag %s" % (path, tag))
        else:
            buf.append(ln)
    flush()
    return out


# --------------------------------------------------------------------------
# generation
# --------------------------------------------------------------------------
def _norm_ws(s):
    return re.sub(r"\s+", "", s)


def _find_anchor(text, anchor):
    """Locate literal anchor in text ignoring whitespace. Returns (start,end) or None."""
    idx = [i for i, ch in enumerate(text) if not ch.isspace()]
    norm = "".join(text[i] for i in idx)
    a = _norm_ws(anchor)
    pos = norm.find(a)
    if pos < 0:
        return None
    if norm.find(a, pos + 1) >= 0:
        raise Undecided("anchor ambiguous: %r" % anchor)
    return idx[pos], idx[pos + len(a) - 1] + 1


def _find_all_anchors(text, anchor):
    """Every (non-overlapping) occurrence of the literal anchor, ignoring whitespace."""
    idx = [i for i, ch in enumerate(text) if not ch.isspace()]
    norm = "".join(text[i] for i in idx)
    a = _norm_ws(anchor)
    out = []
    pos = norm.find(a)
    while pos >= 0:
        out.append((idx[pos], idx[pos + len(a) - 1] + 1))
        pos = norm.find(a, pos + len(a))
    return out


def _line_spans(text):
    out = []
    p = 0
    for ln in text.split("\n"):
        out.append((p, p + len(ln), ln))
        p += len(ln) + 1
    return out


def _fuzzy_anchor(text, anchor, taken):
    """Best unique line-level match for a (single-line) anchor whose exact text was edited."""
    import difflib
    a = _norm_ws(anchor)
    cands = []
    for (s, e, ln) in _line_spans(text):
        n = _norm_ws(ln)
        if not n or n in taken or n.startswith("//"):
            continue
        # compare against the prefix of the line of the anchor's length (anchors may be line prefixes)
        r = max(difflib.SequenceMatcher(None, a, n).ratio(),
                difflib.SequenceMatcher(None, a, n[:len(a)]).ratio() if len(n) > len(a) else 0)
        cands.append((r, s, e))
    cands.sort(reverse=True)
    if not cands or cands[0][0] < 0.72:
        return None
    if len(cands) > 1 and cands[0][0] - cands[1][0] < 0.06:
        return None
    return cands[0][1], cands[0][2]


class Gen:
    def __init__(self, unit_name, repo, outdir):
        self.unit_name = unit_name
        self.repo = repo
        self.outdir = outdir
        udir = os.path.join(VERIF, "vx", unit_name)
        spec = importlib.util.spec_from_file_location("unit_" + unit_name, os.path.join(udir, "unit.py"))
        mod = importlib.util.module_from_spec(spec)
        spec.loader.exec_module(mod)
        self.unit = mod.UNIT
        self.udir = udir
        self.sources = {}
        self.lines = []           # generated lines
        self.linemap = []         # per generated line: origin dict or None
        self.fidelity = []        # rule applications
        self.functions = []       # functions under contract (key, file, line)
        self.clauses = []         # obligations: dict(id, fn, kind, label, first_line, last_line)
        self.dropped = []
        self.sha = {}
        self.assumption_scan = []

    def src(self, alias):
        if alias not in self.sources:
            rel = self.unit["sources"][alias]
            p = os.path.join(self.repo, rel)
            try:
                text = open(p).read()
            except OSError as e:
                raise Undecided("cannot read %s: %s" % (p, e))
            self.sources[alias] = Source(rel, text)
            self.sha[rel] = hashlib.sha256(text.encode()).hexdigest()
        return self.sources[alias]

    # -- emit helpers -------------------------------------------------------
    def emit(self, text, origin=None):
        for k, ln in enumerate(text.split("\n")):
            self.lines.append(ln)
            o = None
            if origin is not None:
                o = dict(origin)
                if "line" in o and o.get("track", True):
                    o["line"] = o["line"] + k
            self.linemap.append(o)

    def cur_line(self):
        return len(self.lines) + 1

    # -- items --------------------------------------------------------------
    def emit_const(self, alias, name):
        s = self.src(alias)
        try:
            it = s.find_const(name)
        except ParseError as e:
            raise Undecided(str(e))
        text = s.text[it["start"]:it["end"]]
        text = self.apply_rules(text, ["vis", "lifetime_const"], s.path, it["line"], name)
        self.emit(text, dict(file=s.path, line=it["line"], item=name))

    def emit_type(self, alias, name, opts):
        s = self.src(alias)
        try:
            it = s.find_type(name)
        except ParseError as e:
            raise Undecided(str(e))
        text = s.text[it["start"]:it["end"]]
        text = self.apply_rules(text, ["vis"], s.path, it["line"], name)
        if it["attrs"]:
            self.dropped.append(dict(file=s.path, item=name, dropped="attributes " + " ".join(it["attrs"])))
        for a in opts.get("attrs", []):
            self.emit(a)
        self.emit(text, dict(file=s.path, line=it["line"], item=name))

    def emit_fn(self, alias, name, container=None, trait=None, indent="", rules=None):
        s = self.src(alias)
        try:
            f = s.find_fn(name, container, trait)
        except ParseError as e:
            raise Undecided(str(e))
        key = (container + "::" if container else "") + name
        sig = s.text[f["start"]:f["body_open"]]
        body = s.text[f["body_open"]:f["end"]]
        sig_line = f["line"]
        body_line = line_of(s.text, f["body_open"])
        if f["attrs"]:
            self.dropped.append(dict(file=s.path, item=key, dropped="attributes " + " ".join(f["attrs"])))
        rl = (rules if rules is not None else self.unit.get("rules", []))
        # closure lifting (rule R-lift): a closure handed to an index method becomes a method of its own -
        # captured variables become parameters, the body is carried over verbatim (`return` / `?` inside the
        # closure leave the closure, i.e. the lifted method), the call site names the lifted method
        lifted = []
        for lf in self.unit.get("lifts", {}).get(key, []):
            mb = mask(body)
            hits = list(re.finditer(lf["call"], mb))
            if len(hits) != 1:
                raise Undecided("%s: call to lift not found (or not unique): %s" % (key, lf["call"]))
            op = hits[0].end() - 1
            cl = match_close(mb, op)
            at, am = body[op + 1:cl], mb[op + 1:cl]
            d_, ci = 0, -1
            for i_, ch_ in enumerate(am):
                if ch_ in "([{":
                    d_ += 1
                elif ch_ in ")]}":
                    d_ -= 1
                elif ch_ == "|" and d_ == 0:
                    ci = i_
                    break
            from vxrules import _closure_parts
            parts = _closure_parts(at[ci:]) if ci >= 0 else None
            args = [at[:ci].rstrip().rstrip(",")]
            if not parts or not parts[1].lstrip().startswith("{"):
                raise Undecided("%s: the last argument of the lifted call is not a block closure" % key)
            pat = [x.strip() for x in parts[0].split(",")]
            if pat != lf["params"]:
                raise Undecided("%s: lifted closure takes |%s|, the unit expects |%s|" % (key, parts[0], ", ".join(lf["params"])))
            cb_off = op + 1 + body[op + 1:cl].index(parts[1])
            cbody_ = parts[1]
            for nm_ in lf.get("deref", []):
                # a variable the closure captured by mutable reference is a `&mut` parameter of the lifted method
                cbody_ = re.sub(r"(?<![\w*])(?<!\w\.)%s\b" % re.escape(nm_), "(*%s)" % nm_, cbody_)
            lifted.append((lf, cbody_, line_of(s.text, f["body_open"] + cb_off)))
            self.fidelity.append(dict(rule="R-lift", file=s.path, line=body_line + body.count("\n", 0, hits[0].start()), item=key,
                                      before=re.sub(r"\s+", " ", body[hits[0].start():op + 1 + len(args[0]) + 1]) + " |%s| { ... })" % parts[0],
                                      after=lf["replace"] + "  +  " + lf["sig"],
                                      trusted="closure conversion: the closure body becomes the body of a method whose parameters are the closure's parameters and its captured variables; the index method is an opaque shim that may run it"))
            body = body[:hits[0].start()] + lf["replace"] + body[cl + 1:]
        body = self._inline_helpers(key, body, container, s.path, body_line, sig)
        self._emit_fn_text(key, sig, body, sig_line, body_line, s.path, indent, rl)
        for lf, cbody, cline in lifted:
            lkey = (container + "::" if container else "") + lf["name"]
            cbody = self._inline_helpers(lkey, cbody, container, s.path, cline, lf["sig"])
            self._emit_fn_text(lkey, indent + lf["sig"] + "\n" + indent, cbody, cline, cline, s.path, indent, rl)

    def emit_sigshim(self, alias, container, name, opts):
        s = self.src(alias)
        try:
            f = s.find_fn(name, container, None)
        except ParseError as e:
            raise Undecided(str(e))
        sig = s.text[f["start"]:f["body_open"]].rstrip()
        sig = self.apply_rules(sig, ["vis"] + list(opts.get("rules", [])), s.path, f["line"], name)
        ind = "    " if container else ""
        if container:
            self.emit(opts.get("header") or ("impl %s {" % container))
        self.emit(ind + "#[verifier::external_body]")
        self.emit(ind + sig.strip() + " { unimplemented!() }", dict(file=s.path, line=f["line"], item=name, kind="sig"))
        if container:
            self.emit("}")
        self.fidelity.append(dict(rule="sigshim", file=s.path, line=f["line"], item=(container + "::" if container else "") + name,
                                  before="(body not part of this unit)", after=re.sub(r"\s+", " ", sig.strip()),
                                  trusted="the callee (verified in its own unit); only its current signature is taken from the source"))

    def _known_methods(self):
        if getattr(self, "_known", None) is None:
            names = set()
            for p in self.unit.get("prelude", []):
                names.update(re.findall(r"\bfn\s+(\w+)", open(os.path.join(VERIF, "vx", "prelude", p)).read()))
            for sp in self.unit.get("spec", []):
                names.update(re.findall(r"\bfn\s+(\w+)", open(os.path.join(self.udir, sp)).read()))
            for it in self.unit["items"]:
                if it[0] == "raw":
                    names.update(re.findall(r"\bfn\s+(\w+)", it[1]))
            for it in self.unit["items"]:
                if it[0] == "fn":
                    names.add(it[2])
                elif it[0] == "sigshim":
                    names.add(it[3])
                elif it[0] == "impl":
                    names.update(n_.rstrip("?") for n_ in it[3] if n_.rstrip("?") not in getattr(self, "gone", set()))
            for lfs in self.unit.get("lifts", {}).values():
                names.update(lf["name"] for lf in lfs)
            names.update(getattr(self, "auto_pulled", []))
            self._known = names
        return self._known

    def _inline_helpers(self, key, body, container, path, body_line, caller_sig=""):
        """Rule R-inline: a call `self.h(args)` / `Self::h(args)` to a method the unit does not know (an edit
        extracted a helper) is replaced by the helper's body when that body is ONE expression and the
        arguments are plain places (identifiers, field paths, & of those): beta-reduction, nothing trusted.
        Anything else is left alone (the unit then fails to compile = undecided, as before)."""
        if not self.unit.get("inline_helpers", True):
            return body
        known = self._known_methods()
        containers = [container] if container else []
        containers += [it[2] for it in self.unit["items"] if it[0] == "impl" and it[2] not in containers]
        containers += [c_ for c_ in self.unit.get("inline_containers", []) if c_ not in containers]
        for _ in range(6):
            mb = mask(body)
            hit = None
            for mm in re.finditer(r"(?<![\w.:!\]])(\w+\s*\[\s*\w+\s*\]\s*\.|\w+\s*\.|Self\s*::|)\s*\b(\w+)\s*\(", mb):
                name = mm.group(2)
                if name in known or (mm.group(1) == "" and (name in _RUST_WORDS or name[0].isupper())):
                    continue
                found = None
                for alias in list(self.unit["sources"]):
                    for cont in (containers if mm.group(1) else [None]):
                        try:
                            src = self.src(alias)
                            found = (src, src.find_fn(name, cont))
                            break
                        except (ParseError, Undecided):
                            continue
                    if found:
                        break
                if not found:
                    continue
                src, f = found
                hsig = src.text[f["start"]:f["body_open"]]
                hbody = src.text[f["body_open"] + 1:f["end"] - 1].strip()
                hm = mask(hbody)
                if re.search(r"\bloop\b|\bwhile\b|\bfor\b|\bunsafe\b", hm):
                    continue
                qmode = None
                if re.search(r"\breturn\b", hm):
                    # a helper with early `return`s can be beta-reduced only where the call IS the caller's tail expression
                    # (returning from the helper = returning that value from the caller) and both return the crate's Result
                    op_ = mm.end() - 1
                    cl_ = match_close(mb, op_)
                    after_ = mb[cl_ + 1:].strip()
                    before_ = mb[:mm.start()].rstrip()
                    res_h = re.search(r"->\s*Result\s*<", mask(hsig)) is not None
                    res_c = re.search(r"->\s*(\(\s*\w+\s*:\s*)?Result\s*<", mask(caller_sig)) is not None
                    if not (res_h and res_c and after_ in ("", "}") and (before_ == "" or before_[-1] in ";}{")):
                        continue
                    qmode = "tail"
                elif "?" in hm:
                    # a helper that propagates errors with `?` can still be beta-reduced where its result is itself
                    # propagated: `h(..)?` (the block's `?` leaves the caller exactly as the call's `?` would) or
                    # `return h(..);` - provided helper and caller both return the crate's Result
                    op_ = mm.end() - 1
                    cl_ = match_close(mb, op_)
                    after_ = mb[cl_ + 1:].lstrip()
                    before_ = mb[:mm.start()].rstrip()
                    res_h = re.search(r"->\s*Result\s*<", mask(hsig)) is not None
                    res_c = re.search(r"->\s*(\(\s*\w+\s*:\s*)?Result\s*<", mask(caller_sig)) is not None
                    if not (res_h and res_c):
                        continue
                    if after_.startswith("?"):
                        qmode = "try"
                    elif before_.endswith("return") and after_.startswith(";"):
                        qmode = "return"
                    else:
                        continue
                is_block = bool(re.search(r";|\blet\b", hm))
                pm = re.search(r"\bfn\s+%s\s*(<[^>]*>)?\s*\(" % re.escape(name), mask(hsig))
                if not pm:
                    continue
                pc = match_close(mask(hsig), pm.end() - 1)
                ptxt = hsig[pm.end():pc]
                params = [x.strip() for x in _split_params(ptxt) if x.strip()]
                is_method = bool(params) and re.fullmatch(r"&?\s*(mut\s+)?self", params[0]) is not None
                recv = mm.group(1).rstrip(". \t\n")
                if mm.group(1) == "":
                    if is_method:
                        continue
                elif is_method == mm.group(1).startswith("Self"):
                    continue
                pnames = []
                ok = True
                for prm in params[1 if is_method else 0:]:
                    q = re.match(r"(?:mut\s+)?(\w+)\s*:", prm)
                    if not q:
                        ok = False
                        break
                    pnames.append(q.group(1))
                op = mm.end() - 1
                cl = match_close(mb, op)
                atxt = body[op + 1:cl]
                args = [x.strip() for x in split_top_level(mask(atxt), atxt, ",") if x.strip()]
                if not ok or len(args) != len(pnames) or not all(re.fullmatch(r"&?\s*(mut\s+)?\*?[\w.]+(\(\))?(\s+as\s+\w+)?", a_) for a_ in args):
                    continue
                if is_block:
                    # a block body is inlined as a block expression; its own `let` names must not capture a name used in an argument
                    lets = set(re.findall(r"\blet\s+(?:mut\s+)?(\w+)", hm))
                    if any(re.search(r"\b%s\b" % re.escape(l_), a_) for l_ in lets for a_ in args):
                        continue
                new = hbody
                if is_method and recv != "self":
                    new = re.sub(r"(?<![\w.])self\b", recv, new)
                for pn, a_ in zip(pnames, args):
                    new = re.sub(r"(?<![\w.])%s\b" % re.escape(pn), a_ if re.fullmatch(r"\w+", a_) else "(" + a_ + ")", new)
                end_ = cl + 1
                if qmode == "tail":
                    is_block = True
                if qmode == "try":
                    # `h(..)?`: the helper's final `Ok(e)` becomes `e`; the `?` of the call is consumed
                    tm = re.search(r"(^|[;}])\s*Ok\s*\(", mask(new))
                    tails = [t_ for t_ in re.finditer(r"(?:^|[;}])\s*(Ok\s*\()", mask(new))]
                    if not tails:
                        continue
                    t_ = tails[-1]
                    o_ = t_.end(1) - 1
                    c_ = match_close(mask(new), o_)
                    if mask(new)[c_ + 1:].strip() != "":
                        continue
                    inner_ = new[o_ + 1:c_].strip() or "()"
                    new = new[:t_.start(1)] + inner_
                    end_ = cl + 1 + (len(mb[cl + 1:]) - len(mb[cl + 1:].lstrip())) + 1
                    is_block = True
                hit = (mm.start(), end_, ("({ " + new + " })") if is_block else ("(" + new + ")"), name, src.path)
                break
            if not hit:
                return body
            a, b, new, name, hpath = hit
            self.fidelity.append(dict(rule="R-inline", file=path, line=body_line + body.count("\n", 0, a), item=key,
                                      before=re.sub(r"\s+", " ", body[a:b]), after=re.sub(r"\s+", " ", new),
                                      trusted="nothing (beta-reduction of the loop-free, return-free helper %s from %s, which the unit does not list; a helper using `?` is reduced only where its own result is propagated by `?` or `return`; a helper with early returns only where the call is the caller's tail expression)" % (name, hpath)))
            body = body[:a] + new + body[b:]
        return body

    def _emit_fn_text(self, key, sig, body, sig_line, body_line, path, indent, rl):
        class _S:
            pass
        s = _S()
        s.path = path
        ctr = self.contracts.get(key)
        self.used_contracts.add(key)
        sig = self.apply_rules(sig, ["vis"] + [r for r in rl if r.startswith("sig_")], s.path, sig_line, key)
        body = self.apply_rules(body, [r for r in rl if not r.startswith("sig_")], s.path, body_line, key)
        if ctr:
            # a parameter an edit stopped using gets a leading underscore (`_format`): the contract still names it `format`.
            # The underscore only silences a warning, so the parameter is given its contract name back.
            ctext = "\n".join([t_ for _, t_ in ctr.requires] + [t_ for _, t_ in ctr.ensures])
            for pm_ in list(re.finditer(r"(?<![\w])_([a-z]\w*)\s*:", mask(sig))):
                nm_ = pm_.group(1)
                if re.search(r"\b%s\b" % re.escape(nm_), ctext) and not re.search(r"\b_%s\b" % re.escape(nm_), ctext) \
                        and not re.search(r"(?<![\w.])%s\b" % re.escape(nm_), mask(body)) and not re.search(r"(?<![\w])%s\s*:" % re.escape(nm_), mask(sig)):
                    sig = re.sub(r"(?<![\w])_%s\b" % re.escape(nm_), nm_, sig)
                    body = re.sub(r"(?<![\w.])_%s\b" % re.escape(nm_), nm_, body)
                    self.fidelity.append(dict(rule="R-underscore", file=s.path, line=sig_line, item=key, before="_" + nm_, after=nm_,
                                              trusted="nothing (a leading underscore on a parameter name only silences the unused-variable warning)"))
        # constructs the rewrite table must have consumed: if one survives (the statement was edited out of
        # the rule's shape) the unit is undecided - Verus would otherwise report obligations of code it
        # only half understands
        mb = mask(body)
        for pat in self.unit.get("forbid", []):
            mm = re.search(pat, mb)
            if mm:
                raise Undecided("%s: construct outside the rewrite table after extraction: %r" % (key, body[mm.start():mm.end() + 40].split("\n")[0]))
        # contract injection
        fn_first = self.cur_line()
        if ctr:
            for old, new in ctr.sigsubs:
                if old not in sig:
                    raise Undecided("%s: signature text %r not found" % (key, old))
                sig = sig.replace(old, new, 1)
                self.fidelity.append(dict(rule="sig-subst", file=s.path, line=sig_line, fn=key, before=old, after=new))
            if ctr.ret:
                # the function's own return arrow: the last `->` outside any delimiter
                sm = mask(sig)
                d = 0
                pos = -1
                for i_, ch_ in enumerate(sm):
                    if ch_ in "([{":
                        d += 1
                    elif ch_ in ")]}":
                        d -= 1
                    elif d == 0 and sm.startswith("->", i_):
                        pos = i_
                if pos < 0:
                    raise Undecided("%s: no return type to name" % key)
                rty = sig[pos + 2:].strip()
                sig = sig[:pos] + "-> (%s: %s)" % (ctr.ret, rty) + "\n"
                self.fidelity.append(dict(rule="R-ret", file=s.path, line=sig_line, fn=key,
                                          before="-> " + rty, after="-> (%s: %s)" % (ctr.ret, rty)))
            for a in ctr.attrs:
                self.emit(indent + a)
        self.emit(sig.rstrip(), dict(file=s.path, line=sig_line, item=key, kind="sig"))
        if ctr:
            for section in ("requires", "ensures"):
                cl = getattr(ctr, section)
                if not cl:
                    continue
                self.emit(indent + "    " + section)
                for k, (label, text) in enumerate(cl, 1):
                    first = self.cur_line()
                    t = text.rstrip()
                    if not t.endswith(","):
                        t += ","
                    self.emit(t, dict(contract=key, kind=section, k=k, label=label, track=False))
                    cid = "%s/%s/%s#%d" % (self.unit_name, key, section, k)
                    if section == "ensures":
                        self.clauses.append(dict(id=cid, fn=key, kind="post", label=label,
                                                 first=first, last=self.cur_line() - 1, text=text.strip()))
                    else:
                        self.requires_lines.append(dict(fn=key, first=first, last=self.cur_line() - 1, k=k))
            if ctr.decreases:
                self.emit(indent + "    decreases " + ctr.decreases + ",")
            # loops
            if ctr.loops:
                bm = mask(body)
                loops = find_loops(bm)
                ins = []
                for k, text in ctr.loops.items():
                    if k > len(loops):
                        if k in ctr.optional_loops:
                            continue
                        raise Undecided("%s: loop %d not found (function has %d loops)" % (key, k, len(loops)))
                    ins.append((loops[k - 1][1], k, text))
                for pos, k, text in sorted(ins, reverse=True):
                    body = body[:pos] + "\n/*@LOOP %d*/\n" % k + text + "\n/*@ENDLOOP*/\n" + body[pos:]
            # every use of a ledger's token must be of a shape one of the token's patterns recognises
            # (several ledgers may share a token, each with its own shape; before/after pairs share one pattern)
            body0_ = body
            cover_ = {}
            for token, rx, proof, after in ctr.ledgers:
                cover_.setdefault(token, set()).add(rx)
            for token, rxs in cover_.items():
                spans_ = set()
                for rx in rxs:
                    for h in re.finditer(rx, body0_):
                        spans_.add((h.start(), h.end()))
                covered = sum(body0_[a_:b_].count(token) for a_, b_ in spans_)
                if body0_.count(token) != covered:
                    raise Undecided("%s: a use of `%s` is not of the shape the ledger pattern recognises" % (key, token))
            for token, rx, proof, after in ctr.ledgers:
                hits = list(re.finditer(rx, body))
                for h in reversed(hits):
                    ptxt = proof
                    for gi in range(1, (h.lastindex or 0) + 1):
                        ptxt = ptxt.replace("$%d" % gi, h.group(gi))
                    # inline, right at the statement: a statement nested in a one-line block keeps its guard
                    pos = h.end() if after else h.start()
                    body = body[:pos] + " proof { " + ptxt + " } " + body[pos:]
                self.fidelity.append(dict(rule="ledger", file=s.path, line=body_line, fn=key, before=rx, after="%d statement(s) of this shape carry: %s" % (len(hits), proof),
                                          trusted="nothing (ghost bookkeeping)"))
            # @scope-end REGEX => PROOF: where the block that contains a statement matching REGEX (a guard bound with `let`) ends -
            # i.e. where Rust drops the guard - `proof { PROOF }` is inserted. Only statement blocks are handled (the block's
            # last token must be `;` or `}`); a guard living to the end of the function needs no reset.
            for rx, ptxt in ctr.scope_ends:
                for h in reversed(list(re.finditer(rx, body))):
                    mb_ = mask(body)
                    d_, i_ = 0, h.start() - 1
                    while i_ >= 0:
                        if mb_[i_] in ")]}":
                            d_ += 1
                        elif mb_[i_] in "([{":
                            if d_ == 0:
                                break
                            d_ -= 1
                        i_ -= 1
                    if i_ <= 0 or mb_[i_] != "{" or i_ == mb_.index("{"):
                        continue        # function scope: nothing follows the drop
                    cl_ = match_close(mb_, i_)
                    tail_ = mb_[i_ + 1:cl_].rstrip()
                    if not tail_ or tail_[-1] not in ";}":
                        raise Undecided("%s: the block holding `%s` ends in an expression; cannot place its scope-end bookkeeping" % (key, h.group(0)[:40]))
                    body = body[:cl_] + " proof { " + ptxt + " } " + body[cl_:]
                self.fidelity.append(dict(rule="scope-end", file=s.path, line=body_line, fn=key, before=rx, after="at the end of the enclosing block: " + ptxt,
                                          trusted="nothing (ghost bookkeeping; Rust drops a guard at the end of the block that binds it)"))
            for gtext in ctr.ghost:
                ob = body.index("{")
                body = body[:ob + 1] + "\n/*@PROOF*/\n" + gtext + "\n/*@ENDPROOF*/\n" + body[ob + 1:]
            for old, newhdr, text in ctr.closures:
                sp = _find_anchor(body, old)
                if sp is None:
                    raise Undecided("%s: closure header not found (or not unique): %r" % (key, old))
                body = body[:sp[0]] + newhdr + "\n/*@PROOF*/\n" + text + "\n/*@ENDPROOF*/\n" + body[sp[1]:]
                self.fidelity.append(dict(rule="closure-contract", file=s.path, line=body_line, fn=key, before=old, after=newhdr,
                                          trusted="nothing (types as in the callee's signature; the clauses are proof obligations at the call and assumptions in the closure body)"))
            body = self._insert_proofs(key, ctr, body, s.path, body_line)
        # emit body line by line with origin tracking
        self._emit_body(body, s.path, body_line, key)
        self.functions.append(dict(fn=key, file=s.path, line=sig_line, first=fn_first, last=self.cur_line() - 1,
                                   contracted=bool(ctr and (ctr.requires or ctr.ensures or ctr.proofs or ctr.ledgers or ctr.loops or ctr.scope_ends)),
                                   contract_kinds=([k_ for k_ in ("requires", "ensures", "loops", "proofs", "ledgers") if ctr and getattr(ctr, k_)])))

    def _insert_proofs(self, key, ctr, body, path, body_line):
        """Resolve every @proof anchor: exact text, else unique fuzzy line match (the anchored
        line was edited), else the neighbouring statements recorded in anchors.lock.json on the
        pinned tree (the anchored line was deleted). Relocations are reported in the fidelity log."""
        lock = self.anchor_lock.get(key, {})
        exact_norm = set()
        spans = {}
        for where, anchor, text in ctr.proofs:
            if where in ("end", "close", "before-each", "after-each", "before-any", "after-any", "afterblock-any", "afterblock-each"):
                continue
            sp = _find_anchor(body, anchor)
            spans[anchor] = sp
            if sp:
                ls = body.rfind("\n", 0, sp[0]) + 1
                le = body.find("\n", sp[1])
                exact_norm.add(_norm_ws(body[ls:le if le >= 0 else len(body)]))
        ins = []
        newlock = {}
        for where, anchor, text in ctr.proofs:
            if where == "close":
                # right before the closing brace of the body (bodies without a tail expression)
                ins.append((body.rstrip().rfind("}"), "\n" + text))
                continue
            if where in ("before-each", "after-each", "before-any", "after-any", "afterblock-any", "afterblock-each"):
                hits = _find_all_anchors(body, anchor)
                if not hits and where.endswith("-each"):
                    raise Undecided("%s: anchor not found: %r" % (key, anchor))
                for a, b in hits:
                    if where.startswith("afterblock"):
                        # after the whole block statement the anchor opens (`if .. {` ... `}`): the anchor must end in `{`
                        mb = mask(body)
                        ob = mb.rfind("{", a, b + 1)
                        if ob < 0:
                            raise Undecided("%s: block anchor does not open a block: %r" % (key, anchor))
                        cb = match_close(mb, ob)
                        p = body.find("\n", cb)
                        p = len(body) if p < 0 else p + 1
                        # an `else` continuing the statement: not a plain block statement
                        if re.match(r"\s*else\b", body[cb + 1:]):
                            raise Undecided("%s: block anchor is followed by `else`: %r" % (key, anchor))
                        ins.append((p, text))
                        continue
                    if where.startswith("before"):
                        p = body.rfind("\n", 0, a) + 1
                        p = p or 1
                    else:
                        p = body.find("\n", b)
                        p = len(body) if p < 0 else p + 1
                    ins.append((p, text))
                continue
            if where == "end":
                # before the last non-empty line of the body (the tail expression)
                close = body.rstrip().rfind("}")
                lines = _line_spans(body[:close])
                last = [x for x in lines if x[2].strip()][-1]
                ins.append((last[0], text))
                continue
            sp = spans[anchor]
            how = "exact"
            if sp is None:
                sp = _fuzzy_anchor(body, anchor, exact_norm)
                how = "fuzzy"
            if sp is None and anchor in lock:
                nb = lock[anchor]
                for side, ntext in (("prev", nb.get("prev")), ("next", nb.get("next"))):
                    if not ntext:
                        continue
                    hits = [x for x in _line_spans(body) if _norm_ws(x[2]) == ntext]
                    if len(hits) != 1:
                        continue
                    for (ls, le, ln) in hits:
                        if True:
                            # position relative to the neighbour
                            if where == "after":
                                pos = le + 1 if side == "prev" else ls
                            else:
                                pos = le + 1 if side == "prev" else ls
                            ins.append((min(pos, len(body)), text))
                            how = "neighbour-" + side
                            sp = (ls, le)
                            break
                    if how.startswith("neighbour"):
                        break
                if not how.startswith("neighbour"):
                    sp = None
            if sp is None:
                raise Undecided("%s: anchor not found: %r" % (key, anchor))
            if how != "exact":
                self.fidelity.append(dict(rule="anchor-relocated(%s)" % how, file=path, line=body_line, item=key,
                                          before=anchor, after=body[sp[0]:sp[1]].strip()[:160], trusted="nothing (proof hint placement only)"))
            if not how.startswith("neighbour"):
                a, b = sp
                if where == "before":
                    p = body.rfind("\n", 0, a) + 1
                    if p == 0:
                        p = 1  # anchor on the line of the body's opening brace: insert right after it
                else:
                    p = body.find("\n", b)
                    p = len(body) if p < 0 else p + 1
                ins.append((p, text))
                # record neighbours (normalized previous / next non-empty code lines)
                if how == "exact":
                    lines = _line_spans(body)
                    k = next(i for i, (ls, le, ln) in enumerate(lines) if ls <= a <= le)
                    k2 = next(i for i, (ls, le, ln) in enumerate(lines) if ls <= max(b - 1, a) <= le)
                    prev = next((_norm_ws(lines[i][2]) for i in range(k - 1, -1, -1)
                                 if _norm_ws(lines[i][2]) and not lines[i][2].strip().startswith("//")), None)
                    nxt = next((_norm_ws(lines[i][2]) for i in range(k2 + 1, len(lines))
                                if _norm_ws(lines[i][2]) and not lines[i][2].strip().startswith("//")), None)
                    newlock[anchor] = dict(prev=prev, next=nxt)
        self.new_anchor_lock[key] = newlock
        for p, text in sorted(ins, key=lambda t: t[0], reverse=True):
            body = body[:p] + "/*@PROOF*/\n" + text + "\n/*@ENDPROOF*/\n" + body[p:]
        return body

    def _emit_body(self, body, path, body_line, key):
        src_line = body_line
        mode = None
        loopk = None
        for ln in body.split("\n"):
            st = ln.strip()
            m = re.match(r"/\*@LOOP (\d+)\*/", st)
            if m:
                mode = "loop"
                loopk = int(m.group(1))
                self._loop_first = self.cur_line()
                continue
            if st == "/*@ENDLOOP*/":
                self.clauses.append(dict(id="%s/%s/loop#%d" % (self.unit_name, key, loopk), fn=key, kind="invariant",
                                         label=None, first=self._loop_first, last=self.cur_line() - 1, text="loop %d invariant" % loopk))
                mode = None
                continue
            if st == "/*@PROOF*/":
                mode = "proof"
                continue
            if st == "/*@ENDPROOF*/":
                mode = None
                continue
            if mode:
                self.emit(ln, dict(contract=key, kind=mode, track=False))
            else:
                self.emit(ln, dict(file=path, line=src_line, item=key, kind="body", track=False))
                src_line += 1
        # note: src_line tracking is approximate when rules change the line count

    def apply_rules(self, text, rules, path, line, item):
        import vxrules
        vxrules._VEC_RECEIVERS.clear()
        vxrules._VEC_RECEIVERS.update(self.unit.get('vec_receivers', []))
        vxrules._COPY_VEC_CLONES.clear()
        vxrules._COPY_VEC_CLONES.update(self.unit.get('copy_vec_clones', []))
        vxrules._FORVEC.clear()
        vxrules._FORVEC.update(self.unit.get('forvec', []))
        for r in rules:
            fn = getattr(vxrules, "rule_" + r)
            text, apps = fn(text)
            for a in apps:
                a.update(file=path, line=line + a.pop("rel_line", 0), item=item)
                self.fidelity.append(a)
        return text

    # -- driver ---------------------------------------------------------------
    def generate(self):
        u = self.unit
        self.contracts = {}
        cfiles = u.get("contracts") or []
        for cf in ([cfiles] if isinstance(cfiles, str) else cfiles):
            for k, v in parse_contracts(os.path.join(self.udir, cf)).items():
                if k in self.contracts:
                    raise ValueError("duplicate contract for %s" % k)
                self.contracts[k] = v
        self.used_contracts = set()
        self.requires_lines = []
        lp = os.path.join(self.udir, 'anchors.lock.json')
        self.anchor_lock = json.load(open(lp)) if os.path.exists(lp) else {}
        self.new_anchor_lock = {}
        self.emit("// GENERATED by /verif/lib/vxgen.py from /repo's working tree - do not edit")
        self.emit("#![allow(unused_imports, unused_variables, dead_code, unused_mut, unused_parens, unused_braces)]")
        self.emit("use vstd::prelude::*;")
        for ln in u.get("uses", []):
            self.emit(ln)
        self.emit("verus! {")
        self.emit("global layout usize is size == 8;")
        for p in u.get("prelude", []):
            self.emit("// ---- prelude: %s" % p)
            self.emit(open(os.path.join(VERIF, "vx", "prelude", p)).read())
        for it in u["items"]:
            kind = it[0]
            if kind == "const":
                self.emit_const(it[1], it[2])
            elif kind == "type":
                self.emit_type(it[1], it[2], it[3] if len(it) > 3 else {})
            elif kind == "fn":
                self.emit_fn(it[1], it[2], rules=(it[3].get("rules") if len(it) > 3 else None))
            elif kind == "impl":
                opts = it[4] if len(it) > 4 else {}
                hdr = opts.get("header") or ("impl %s {" % it[2] if not opts.get("trait") else "impl %s for %s {" % (opts["trait"], it[2]))
                self.emit(hdr)
                fnlist = list(it[3])
                if "*" in fnlist:
                    # whole impl block: every fn found in it on THIS run (a method added by an edit is extracted too - without a
                    # contract of its own, but the preconditions of whatever it calls are still owed)
                    found = self.src(it[1]).impl_fn_names(it[2], opts.get("trait"))
                    fnlist = [x for x in fnlist if x != "*"] + [x for x in found if x not in fnlist]
                    self.fidelity.append(dict(rule="whole-impl", file=self.src(it[1]).path, line=0, item=it[2], before="impl %s { * }" % it[2],
                                              after="functions extracted on this run: " + ", ".join(fnlist), trusted="nothing"))
                for fnname in fnlist:
                    if fnname.endswith("?"):
                        # optional member: a small helper that an edit may rename or dissolve. If it is gone, its contract goes
                        # with it (recorded in the fidelity log) and whatever replaced it is inlined / pulled in where it is called
                        fnname = fnname[:-1]
                        try:
                            self.src(it[1]).find_fn(fnname, it[2], opts.get("trait"))
                        except (ParseError, Undecided):
                            key_ = it[2] + "::" + fnname
                            if key_ in self.contracts:
                                self.used_contracts.add(key_)
                            self.fidelity.append(dict(rule="optional-fn", file=self.src(it[1]).path, line=0, item=key_, before="(listed as optional)",
                                                      after="not present in the source any more: its contract is not checked", trusted="nothing"))
                            self._known = None
                            self.gone = getattr(self, "gone", set()) | {fnname}
                            continue
                    self.emit_fn(it[1], fnname, container=it[2], trait=opts.get("trait"), indent="    ",
                                 rules=opts.get("rules"))
                self.emit("}")
            elif kind == "sigshim":
                # ("sigshim", alias, container|None, name, {"rules": [...], "header": ...}): an opaque shim whose SIGNATURE is taken
                # from the real source on every run (so an edit that changes the parameter list is followed instead of
                # breaking the unit); no body, no contract
                self.emit_sigshim(it[1], it[2], it[3], it[4] if len(it) > 4 else {})
            elif kind == "raw":
                self.emit(it[1])
            elif kind == "error_enum":
                self.emit_error_enum(it[1])
            else:
                raise ValueError(kind)
        missing = set(self.contracts) - self.used_contracts
        if missing:
            raise Undecided("contracts for functions that were not extracted: %s" % sorted(missing))
        self._auto_fns()
        self._auto_consts()
        for sp in u.get("spec", []):
            self.emit("// ---- spec: %s" % sp)
            first = self.cur_line()
            text = open(os.path.join(self.udir, sp)).read()
            self.emit(text, dict(spec=sp, line=1))
        self.emit("} // verus!")
        self.emit("fn main() {}")
        os.makedirs(self.outdir, exist_ok=True)
        out = os.path.join(self.outdir, self.unit_name + ".rs")
        with open(out, "w") as f:
            f.write("\n".join(self.lines) + "\n")
        # lemmas in spec files are obligations too
        self._scan_lemmas()
        self._scan_assumptions()
        meta = dict(unit=self.unit_name, file=out, functions=self.functions, clauses=self.clauses,
                    fidelity=self.fidelity, dropped=self.dropped, sha256=self.sha,
                    assumptions=self.assumption_scan, requires_lines=self.requires_lines, auto_pulled=getattr(self, "auto_pulled", []))
        with open(os.path.join(self.outdir, self.unit_name + ".fidelity.json"), "w") as f:
            json.dump(meta, f, indent=1)
        self.meta = meta
        return out

    def _auto_fns(self):
        """Helpers the extracted code calls but the unit neither lists nor shims (an edit extracted a helper that
        the inliner cannot beta-reduce: it has `return`, `?` or a loop): pulled in verbatim from the unit's sources,
        WITHOUT a contract. Verus then checks them for safety and checks their callers against an empty contract;
        a proof failure in a function that calls such a helper is reported as undecided, never as a violation
        (lib/verus_route.py), while failures elsewhere - e.g. a postcondition of a function the helper's logic was
        moved OUT of - are decided as usual."""
        self.auto_pulled = []
        if not self.unit.get("auto_fns", True):
            return
        impls = [(it[1], it[2], (it[4] if len(it) > 4 else {})) for it in self.unit["items"] if it[0] == "impl"]
        fn_aliases = [it[1] for it in self.unit["items"] if it[0] in ("fn", "impl")]
        for _ in range(4):
            known = self._known_methods() | set(self.auto_pulled)
            text = "\n".join(ln for ln, o in zip(self.lines, self.linemap) if o and o.get("file"))
            mk = mask(text)
            cands = []
            for mm in re.finditer(r"(?<![\w.:!])(self\s*\.\s*|Self\s*::\s*|)(\w+)\s*\(", mk):
                name = mm.group(2)
                if name in known or name in _RUST_WORDS or name[0].isupper() or (name, bool(mm.group(1))) in cands:
                    continue
                cands.append((name, bool(mm.group(1))))
            added = False
            for name, is_method in cands:
                if is_method:
                    for alias, cont, opts in impls:
                        try:
                            self.src(alias).find_fn(name, cont, opts.get("trait"))
                        except (ParseError, Undecided):
                            continue
                        hdr = opts.get("header") or ("impl %s {" % cont)
                        self.emit(hdr)
                        self.emit_fn(alias, name, container=cont, trait=opts.get("trait"), indent="    ", rules=opts.get("rules"))
                        self.emit("}")
                        self.auto_pulled.append(name)
                        self._known = None
                        self.fidelity.append(dict(rule="auto-fn", file=self.src(alias).path, line=0, item=cont + "::" + name, before="(not listed in the unit)",
                                                  after="method pulled in verbatim WITHOUT a contract because the extracted code calls it", trusted="nothing (callers' failures become undecided)"))
                        added = True
                        break
                else:
                    for alias in dict.fromkeys(fn_aliases):
                        try:
                            self.src(alias).find_fn(name, None, None)
                        except (ParseError, Undecided):
                            continue
                        self.emit_fn(alias, name)
                        self.auto_pulled.append(name)
                        self._known = None
                        self.fidelity.append(dict(rule="auto-fn", file=self.src(alias).path, line=0, item=name, before="(not listed in the unit)",
                                                  after="function pulled in verbatim WITHOUT a contract because the extracted code calls it", trusted="nothing (callers' failures become undecided)"))
                        added = True
                        break
            if not added:
                return

    def _auto_consts(self):
        """Constants the extracted code names but the unit does not list (an edit started using
        one): pulled in from the unit's sources or src/constants.rs, transitively. A constant is
        its value - nothing is trusted - so this only turns a would-be compile error into a check."""
        spec_text = ""
        for sp in self.unit.get("spec", []):
            spec_text += open(os.path.join(self.udir, sp)).read()
        if "c_auto" not in self.unit["sources"]:
            self.unit["sources"]["c_auto"] = "src/constants.rs"
        for _ in range(8):
            text = "\n".join(self.lines)
            mk = mask(text)
            defined = set(re.findall(r"\bconst\s+([A-Z][A-Z0-9_]*)\b", mk + "\n" + mask(spec_text)))
            used = set()
            for ln, o in zip(mk.split("\n"), self.linemap):
                if o and o.get("file"):
                    used.update(re.findall(r"(?<![\w:])([A-Z][A-Z0-9_]{1,})\b(?!\s*::|\s*\()", ln))
            todo = sorted(used - defined)
            added = False
            for name in todo:
                for alias in list(self.unit["sources"]):
                    try:
                        s = self.src(alias)
                        s.find_const(name)
                    except (ParseError, Undecided):
                        continue
                    self.emit_const(alias, name)
                    self.fidelity.append(dict(rule="auto-const", file=s.path, line=0, item=name, before="(not listed in the unit)",
                                              after="const %s pulled in because the extracted code names it" % name, trusted="nothing"))
                    added = True
                    break
            if not added:
                return

    def emit_error_enum(self, alias):
        s = self.src(alias)
        try:
            it = s.find_type("FeoxError")
        except ParseError as e:
            raise Undecided(str(e))
        text = s.text[it["start"]:it["end"]]
        m = mask(text)
        # strip #[error(...)] attributes (possibly multi-line) and #[from]
        out = []
        i = 0
        while i < len(text):
            if m.startswith("#[", i):
                j = i + 1
                from rsparse import match_close
                j = match_close(m, j)
                i = j + 1
                continue
            out.append(text[i])
            i += 1
        t = "".join(out)
        t = re.sub(r"\bio::Error\b", "IoErrorOpaque", t)
        t = re.sub(r"\n\s*\n", "\n", t)
        t = re.sub(r"^pub enum", "pub enum", t)
        self.emit("#[verifier::external_body]\npub struct IoErrorOpaque { _p: () }")
        self.emit(t, dict(file=s.path, line=it["line"], item="FeoxError"))
        self.emit("pub type Result<T> = std::result::Result<T, FeoxError>;")
        self.dropped.append(dict(file=s.path, item="FeoxError", dropped="thiserror derive + #[error]/#[from] attributes; io::Error payload made opaque"))

    def _scan_lemmas(self):
        txt = "\n".join(self.lines)
        mk = mask(txt)
        for m in re.finditer(r"\bproof\s+fn\s+(\w+)", mk):
            ln = line_of(txt, m.start())
            o = self.linemap[ln - 1]
            # find end of fn
            i = m.end()
            d = 0
            while i < len(mk):
                if mk[i] in "([":
                    d += 1
                elif mk[i] in ")]":
                    d -= 1
                elif mk[i] == "{" and d == 0:
                    break
                i += 1
            from rsparse import match_close
            j = match_close(mk, i)
            self.clauses.append(dict(id="%s/lemma/%s" % (self.unit_name, m.group(1)), fn=m.group(1), kind="lemma",
                                     label=None, first=ln, last=line_of(txt, j), text="proof fn " + m.group(1)))

    def _scan_assumptions(self):
        pats = [r"\bassume\s*\(", r"\badmit\s*\(", r"external_body", r"assume_specification", r"\bexternal\b", r"exec_allows_no_decreases_clause",
                r"\buninterp\b"]
        txt = "\n".join(self.lines)
        mk = mask(txt)
        for k, ln in enumerate(mk.split("\n"), 1):
            for p in pats:
                if re.search(p, ln):
                    # name the item on the following fn/struct line
                    ctx = ""
                    for look in self.lines[k - 1:k + 4]:
                        mm = re.search(r"\b(fn|struct)\s+(\w+)", look)
                        if mm:
                            ctx = mm.group(2)
                            break
                    self.assumption_scan.append(dict(kind=re.sub(r"\\b|\\s\*\\\(", "", p), line=k, item=ctx))
                    break


import threading
_GEN_LOCK = threading.Lock()


def generate(unit_name, repo, outdir):
    # rule state (vec receivers) is module-global: extraction runs one unit at a time
    with _GEN_LOCK:
        g = Gen(unit_name, repo, outdir)
        g.generate()
    return g
