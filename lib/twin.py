"""Replay aid for Verus obligations: Verus gives no model, so for units that have a twin
(twin/<unit>_twin.rs, a bounded exhaustive comparison of the REAL code with the unit's
set-level statement) a failing obligation triggers the twin search on a scratch copy of the
tree under test. A counterexample found this way is executed against the real code by
construction. It is never used to decide a property."""
import os
import re
import shutil
import subprocess

VERIF = os.path.dirname(os.path.dirname(os.path.abspath(__file__)))
TWINS = {"free_space": ("free_space_twin.rs", "verif_twin_free_space", {"TWIN_DEPTH": "5"}),
         "cache": ("cache_twin.rs", "verif_twin_cache", {"TWIN_SEEDS": "40", "TWIN_STEPS": "60"}),
         # appended to a source file of the scratch copy (private functions in scope): (file, module test filter, env, target source)
         "journal": ("journal_twin.rs", "verif_twin_journal", {}, "src/storage/allocation_journal.rs")}


def run(unit, repo, timeout=600):
    if unit not in TWINS:
        return None
    src, test, env = TWINS[unit][:3]
    append_to = TWINS[unit][3] if len(TWINS[unit]) > 3 else None
    d = os.path.join(VERIF, ".scratch", "twin-" + unit)
    shutil.rmtree(d, ignore_errors=True)
    os.makedirs(d)
    try:
        dst = os.path.join(d, "repo")
        subprocess.run(["rsync", "-a", "--exclude", "target", "--exclude", ".git", repo.rstrip("/") + "/", dst + "/"], check=True)
        if append_to:
            with open(os.path.join(dst, append_to), "a") as f:
                f.write("\n" + open(os.path.join(VERIF, "twin", src)).read())
            cmd = ["cargo", "test", "--offline", "--lib", test, "--", "--nocapture"]
        else:
            os.makedirs(os.path.join(dst, "tests"), exist_ok=True)
            shutil.copy(os.path.join(VERIF, "twin", src), os.path.join(dst, "tests", test + ".rs"))
            cmd = ["cargo", "test", "--offline", "--release", "--test", test, "--", "--nocapture"]
        e = dict(os.environ, CARGO_NET_OFFLINE="true", CARGO_TARGET_DIR=os.path.join(VERIF, ".cache", "twin-target"), **env)
        try:
            p = subprocess.run(cmd, cwd=dst, env=e, capture_output=True, text=True, timeout=timeout)
        except subprocess.TimeoutExpired:
            return dict(found=False, note="twin search timed out")
        out = p.stdout + p.stderr
        m = re.search(r"^TWIN-COUNTEREXAMPLE (.*)$", out, re.M)
        if m:
            place = ("cat /verif/twin/%s >> %s" % (src, append_to)) if append_to else ("cp /verif/twin/%s tests/%s.rs" % (src, test))
            return dict(found=True, counterexample=m.group(1), cmd="cd <copy of /repo> && %s && %s %s" % (place, " ".join("%s=%s" % kv for kv in env.items()), " ".join(cmd)))
        m = re.search(r"^TWIN-NO-COUNTEREXAMPLE (.*)$", out, re.M)
        if m:
            return dict(found=False, note="twin search found no failing call sequence (%s)" % m.group(1))
        return dict(found=False, note="twin did not run: " + out[-300:])
    finally:
        shutil.rmtree(d, ignore_errors=True)
