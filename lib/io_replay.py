"""Real-code replay of Kani counterexamples for the journal-writer harnesses: the real function
on a real file under `strace -e inject=` (one EIO at the position the verifier chose)."""
import json
import os
import re
import shutil
import subprocess

VERIF = os.path.dirname(os.path.dirname(os.path.abspath(__file__)))
SUPPORTED = {"journal_write_ordering": "write_allocation_journal", "journal_clear_ordering": "clear_allocation_journal"}


def parse_playback_values(test_text):
    """concrete byte vectors of the generated playback test, in kani::any() order -> little-endian ints"""
    vals = []
    for m in re.finditer(r"vec!\[([0-9,\s]*)\]", test_text):
        bs = [int(x) for x in m.group(1).replace("\n", " ").split(",") if x.strip()]
        if bs:
            vals.append(int.from_bytes(bytes(bs), "little"))
    return vals


def run(harness, playback_text, repo, timeout=900):
    if harness not in SUPPORTED or not playback_text:
        return None
    vals = parse_playback_values(playback_text)
    if len(vals) < 3:
        return dict(replayed=False, note="could not read the counterexample values")
    g0, s0, fail_at = vals[0], vals[1] % 2, vals[2]
    d = os.path.join(VERIF, ".scratch", "io-replay")
    shutil.rmtree(d, ignore_errors=True)
    os.makedirs(d)
    try:
        dst = os.path.join(d, "repo")
        subprocess.run(["rsync", "-a", "--exclude", "target", "--exclude", ".git", repo.rstrip("/") + "/", dst + "/"], check=True)
        with open(os.path.join(dst, "src", "storage", "io.rs"), "a") as f:
            f.write("\n" + open(os.path.join(VERIF, "twin", "io_replay.rs")).read())
        env = dict(os.environ, CARGO_NET_OFFLINE="true", CARGO_TARGET_DIR=os.path.join(VERIF, ".cache", "replay-target"))
        p = subprocess.run(["cargo", "test", "--offline", "--lib", "--no-run", "--message-format=json"], cwd=dst, env=env,
                           capture_output=True, text=True, timeout=timeout)
        exe = None
        for ln in p.stdout.splitlines():
            try:
                j = json.loads(ln)
            except Exception:
                continue
            if j.get("reason") == "compiler-artifact" and j.get("executable") and j.get("target", {}).get("name") == "feoxdb" and j.get("profile", {}).get("test"):
                exe = j["executable"]
        if not exe:
            return dict(replayed=False, note="replay build failed: " + p.stderr[-300:])
        trace = os.path.join(d, "strace.txt")
        inject = []
        if fail_at == 0:
            inject = ["-e", "inject=pwrite64:error=EIO:when=1"]
        elif fail_at == 1:
            inject = ["-e", "inject=fsync:error=EIO:when=1"]
        renv = dict(env, VERIF_RP_FN=SUPPORTED[harness], VERIF_RP_FILE=os.path.join(d, "device.bin"), VERIF_RP_GEN=str(g0 if g0 < 2**64 - 1 else 2**64 - 2),
                    VERIF_RP_SLOT=str(s0), VERIF_RP_FAIL=str(min(fail_at, 2)))
        cmd = ["strace", "-f", "-o", trace, "-e", "trace=pwrite64,fsync,fdatasync"] + inject + \
              [exe, "--exact", "storage::io::verif_io_replay::replay", "--nocapture", "--test-threads=1"]
        r = subprocess.run(cmd, cwd=dst, env=renv, capture_output=True, text=True, timeout=300)
        out = r.stdout + r.stderr
        obs = re.search(r"RP-OBSERVED ([^\n]*)", out)
        # syscalls between the two fdatasync(-1) delimiters
        calls = []
        inside = False
        for ln in open(trace, errors="replace"):
            if "fdatasync(-1" in ln:
                inside = not inside
                continue
            if inside and ("pwrite64(" in ln or "fsync(" in ln):
                calls.append(re.sub(r"^\d+\s+", "", ln.strip())[:160])
        failed = "test result: FAILED" in out or "panicked at" in out
        why = re.search(r"panicked at [^\n]*\n([^\n]*)", out)
        return dict(replayed=True, reproduced=failed,
                    inputs=dict(function=SUPPORTED[harness], generation=g0, slot=s0, failing_io_call={0: "the pwrite", 1: "the fsync"}.get(fail_at, "none")),
                    observed=obs.group(1) if obs else None, syscalls=calls[:8],
                    violated=(why.group(1).strip() if (failed and why) else None),
                    cmd="strace -f -e trace=pwrite64,fsync,fdatasync %s <lib test binary of a copy of /repo + twin/io_replay.rs> --exact storage::io::verif_io_replay::replay" % " ".join(inject))
    finally:
        shutil.rmtree(d, ignore_errors=True)
