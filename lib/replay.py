"""./check --replay <file>: re-execute what a replay file recorded against the current /repo."""
import json
import os
import subprocess
import sys

VERIF = os.path.dirname(os.path.dirname(os.path.abspath(__file__)))
REPO = os.environ.get("VERIF_REPO", "/repo")


def main(path):
    rep = json.load(open(path))
    print("replay of %s: obligation %s (%s route)" % (rep.get("property"), rep.get("obligation"), rep.get("route")))
    print("recorded detail:", (rep.get("detail") or "")[:400])
    if rep.get("counterexample"):
        print("recorded counterexample:\n" + str(rep["counterexample"])[:1500])
    unit = rep.get("unit")
    if rep.get("route") == "verus":
        import twin
        t = twin.run(unit, REPO)
        if t is None:
            print("no executable replay for this obligation: the verifier's output is in the file (no-failing-input-found)")
            return 0
        if t.get("found"):
            print("REPRODUCED on the current tree: " + t["counterexample"])
            return 1
        print("not reproduced on the current tree: " + str(t.get("note")))
        return 0
    if rep.get("route") == "kani":
        import kani_route
        h = rep.get("obligation", "").split("/")[-1]
        os.environ["VERIF_ONLY_HARNESS"] = h
        r = kani_route.run_units([unit], REPO, "thorough", 0, "replay")[unit]
        for o in r.obligations:
            print("  %s %s %s" % (o["status"], o["id"], o.get("detail", "")[:300]))
        return 1 if r.status == "failed" else (0 if r.status == "ok" else 2)
    return 0
