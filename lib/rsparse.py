"""Small brace/string/comment-aware scanner for Rust source text.

Only what the extractor needs: mask comments and literals, find items by name,
split a function into signature / body, find loops, match delimiters.
Everything works on byte offsets of the *original* text so that copied text is
verbatim.
"""
import re


class ParseError(Exception):
    pass


def mask(src: str) -> str:
    """Return a string of the same length where comments, string literals and
    char literals are replaced by spaces (newlines kept)."""
    out = list(src)
    i, n = 0, len(src)

    def blank(a, b):
        for k in range(a, b):
            if out[k] != "\n":
                out[k] = " "

    while i < n:
        c = src[i]
        if c == "/" and i + 1 < n and src[i + 1] == "/":
            j = src.find("\n", i)
            j = n if j < 0 else j
            blank(i, j)
            i = j
        elif c == "/" and i + 1 < n and src[i + 1] == "*":
            depth, j = 1, i + 2
            while j < n and depth:
                if src.startswith("/*", j):
                    depth += 1
                    j += 2
                elif src.startswith("*/", j):
                    depth -= 1
                    j += 2
                else:
                    j += 1
            blank(i, j)
            i = j
        elif c == '"' or (c == "b" and i + 1 < n and src[i + 1] == '"' and not (i and (src[i - 1].isalnum() or src[i - 1] == "_"))):
            s = i
            j = i + (2 if c == "b" else 1)
            while j < n and src[j] != '"':
                j += 2 if src[j] == "\\" else 1
            j += 1
            blank(s, j)
            i = j
        elif c == "r" and re.match(r'r#*"', src[i:i + 8]) and not (i and (src[i - 1].isalnum() or src[i - 1] == "_")):
            m = re.match(r'r(#*)"', src[i:])
            close = '"' + m.group(1)
            j = src.find(close, i + len(m.group(0)))
            j = n if j < 0 else j + len(close)
            blank(i, j)
            i = j
        elif c == "'":
            # char literal or lifetime
            m = re.match(r"'(\\.[^']*|[^'\\])'", src[i:i + 12])
            if m:
                blank(i, i + m.end())
                i += m.end()
            else:
                i += 1
        else:
            i += 1
    return "".join(out)


OPEN = {"(": ")", "[": "]", "{": "}"}
CLOSE = {v: k for k, v in OPEN.items()}


def match_close(masked: str, i: int) -> int:
    """masked[i] is an opening delimiter; return index of its closing one."""
    o = masked[i]
    c = OPEN[o]
    depth = 0
    for j in range(i, len(masked)):
        ch = masked[j]
        if ch == o:
            depth += 1
        elif ch == c:
            depth -= 1
            if depth == 0:
                return j
    raise ParseError("unbalanced %r at %d" % (o, i))


def line_of(src: str, off: int) -> int:
    return src.count("\n", 0, off) + 1


def line_start(src: str, off: int) -> int:
    return src.rfind("\n", 0, off) + 1


class Source:
    def __init__(self, path, text):
        self.path = path
        self.text = text
        self.masked = mask(text)

    # ---- containers -------------------------------------------------------
    def impl_body(self, type_name, trait=None):
        """(open_brace, close_brace) of `impl [Trait for] Type {`"""
        if trait:
            pat = r"\bimpl(?:\s*<[^>{]*>)?\s+%s\s+for\s+%s\b[^{;]*\{" % (re.escape(trait), re.escape(type_name))
        else:
            pat = r"\bimpl(?:\s*<[^>{]*>)?\s+%s\b(?!\s+for\b)[^{;]*\{" % re.escape(type_name)
        ms = list(re.finditer(pat, self.masked))
        if not ms:
            raise ParseError("impl %s%s not found in %s" % ((trait + " for ") if trait else "", type_name, self.path))
        out = []
        for m in ms:
            ob = m.end() - 1
            out.append((ob, match_close(self.masked, ob)))
        return out

    def _depth0(self, lo, hi, pos):
        """is pos at brace depth 0 relative to region (lo,hi)?"""
        d = 0
        for k in range(lo, pos):
            ch = self.masked[k]
            if ch == "{":
                d += 1
            elif ch == "}":
                d -= 1
        return d == 0

    # ---- items ------------------------------------------------------------
    def find_fn(self, name, container=None, trait=None):
        """Return dict with spans of fn `name` (top-level, or inside impl `container`)."""
        regions = [(-1, len(self.text))]
        if container:
            regions = self.impl_body(container, trait)
        for lo, hi in regions:
            for m in re.finditer(r"\bfn\s+%s\b" % re.escape(name), self.masked[lo + 1:hi]):
                kw = lo + 1 + m.start()
                if not self._depth0(lo + 1, hi, kw):
                    continue
                return self._fn_at(kw, name)
        raise ParseError("fn %s%s not found in %s" % ((container + "::") if container else "", name, self.path))

    def impl_fn_names(self, container, trait=None):
        """names of the fns defined directly in impl `container` (all its inherent impl blocks, or its impl of `trait`), in order;
        fns under #[cfg(test)] are skipped"""
        out = []
        for lo, hi in self.impl_body(container, trait):
            for m in re.finditer(r"\bfn\s+(\w+)\b", self.masked[lo + 1:hi]):
                kw = lo + 1 + m.start()
                if not self._depth0(lo + 1, hi, kw):
                    continue
                # attributes right above the fn
                ls = line_start(self.text, kw)
                above = self.text[max(lo, ls - 200):ls]
                if re.search(r"#\[cfg\(test\)\]\s*$", above):
                    continue
                if m.group(1) not in out:
                    out.append(m.group(1))
        return out

    def _fn_at(self, kw, name):
        masked = self.masked
        # start of item: walk back over qualifiers on the same line
        ls = line_start(self.text, kw)
        start = ls + (len(masked[ls:kw]) - len(masked[ls:kw].lstrip()))
        # body open brace: first '{' at paren/bracket depth 0 after kw
        i = kw
        d = 0
        body_open = None
        while i < len(masked):
            ch = masked[i]
            if ch in "([":
                d += 1
            elif ch in ")]":
                d -= 1
            elif ch == "{" and d == 0:
                body_open = i
                break
            elif ch == ";" and d == 0:
                raise ParseError("fn %s has no body" % name)
            i += 1
        if body_open is None:
            raise ParseError("fn %s: body not found" % name)
        body_close = match_close(masked, body_open)
        # attributes immediately above
        attrs = []
        p = ls
        while True:
            q = self.text.rfind("\n", 0, p - 1) + 1 if p > 0 else 0
            prev = self.text[q:p].strip()
            if p > 0 and (prev.startswith("#[") or prev.startswith("///")):
                if prev.startswith("#["):
                    attrs.insert(0, prev)
                p = q
            else:
                break
        return dict(name=name, start=start, sig_start=start, kw=kw, body_open=body_open,
                    body_close=body_close, end=body_close + 1, attrs=attrs,
                    line=line_of(self.text, start))

    def find_const(self, name):
        m = re.search(r"^[ \t]*(?:pub(?:\([a-z]+\))?\s+)?(?:const|static)\s+%s\s*:" % re.escape(name), self.masked, re.M)
        if not m:
            raise ParseError("const %s not found in %s" % (name, self.path))
        start = m.start() + (len(m.group(0)) - len(m.group(0).lstrip()))
        i = m.end()
        d = 0
        while i < len(self.masked):
            ch = self.masked[i]
            if ch in "([{":
                d += 1
            elif ch in ")]}":
                d -= 1
            elif ch == ";" and d == 0:
                return dict(name=name, start=start, end=i + 1, line=line_of(self.text, start))
            i += 1
        raise ParseError("const %s unterminated" % name)

    def find_type(self, name):
        m = re.search(r"^[ \t]*(?:pub(?:\([a-z]+\))?\s+)?(struct|enum)\s+%s\b" % re.escape(name), self.masked, re.M)
        if not m:
            raise ParseError("type %s not found in %s" % (name, self.path))
        start = m.start() + (len(m.group(0)) - len(m.group(0).lstrip()))
        i = m.end()
        while self.masked[i] not in "{;(":
            i += 1
        if self.masked[i] == ";":
            end = i + 1
        elif self.masked[i] == "(":
            j = match_close(self.masked, i)
            end = self.masked.index(";", j) + 1
        else:
            end = match_close(self.masked, i) + 1
        # derives above
        attrs = []
        p = line_start(self.text, start)
        while p > 0:
            q = self.text.rfind("\n", 0, p - 1) + 1
            prev = self.text[q:p].strip()
            if prev.startswith("#[") or prev.startswith("///"):
                if prev.startswith("#["):
                    attrs.insert(0, prev)
                p = q
            else:
                break
        return dict(name=name, start=start, end=end, attrs=attrs, line=line_of(self.text, start))


def find_loops(body_masked: str):
    """Offsets (relative to body_masked) of loop keywords `for`/`while`/`loop`
    in textual order, with the offset of each loop's body '{'."""
    out = []
    for m in re.finditer(r"\b(for|while|loop)\b", body_masked):
        kw = m.start()
        # skip `for` in `impl X for Y` / HRTB - not expected inside bodies
        i = m.end()
        d = 0
        while i < len(body_masked):
            ch = body_masked[i]
            if ch in "([":
                d += 1
            elif ch in ")]":
                d -= 1
            elif ch == "{" and d == 0:
                break
            i += 1
        else:
            continue
        out.append((kw, i))
    return out


def split_top_level(s_masked: str, s: str, sep: str):
    """Split s at top-level occurrences of sep (outside any delimiters)."""
    parts, d, last, i = [], 0, 0, 0
    while i < len(s):
        ch = s_masked[i]
        if ch in "([{":
            d += 1
        elif ch in ")]}":
            d -= 1
        elif d == 0 and s_masked.startswith(sep, i):
            parts.append(s[last:i])
            i += len(sep)
            last = i
            continue
        i += 1
    parts.append(s[last:])
    return parts
