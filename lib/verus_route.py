"""Run one Verus unit: extract -> verus -> map diagnostics to obligations."""
import json
import os
import re
import subprocess
import time

import vxgen
from rsparse import mask, split_top_level

VERIF = os.path.dirname(os.path.dirname(os.path.abspath(__file__)))
BUILD = os.environ.get("VERIF_BUILD") or os.path.join(VERIF, "build")

SEMANTIC = [
    "postcondition not satisfied", "precondition not satisfied", "assertion failed",
    "possible arithmetic underflow/overflow", "invariant not satisfied", "possible division by zero",
    "decreases not satisfied", "could not prove termination", "index out of bounds",
    "possible bit shift underflow/overflow", "unreachable", "recommendation not met",
    "loop invariant", "failed this", "may be out of range", "precondition not met", "requires not satisfied",
]
RESOURCE = ["Resource limit", "rlimit", "timed out", "timeout"]


class UnitResult:
    def __init__(self, unit):
        self.unit = unit
        self.status = "ok"          # ok | failed | undecided
        self.reason = ""
        self.obligations = []       # dict(id, kind, fn, label, status, detail)
        self.failed = []            # subset
        self.functions = []
        self.fidelity = []
        self.dropped = []
        self.assumptions = []
        self.sha256 = {}
        self.smt_ms = 0
        self.wall_s = 0.0
        self.verified_count = 0
        self.raw = ""
        self.vacuity = {}
        self.cmd = ""
        self.file = ""


def _run_verus(path, rlimit=None, seed=None, extra=None, timeout=900):
    cmd = ["verus", path, "--output-json", "--time", "--error-format=json", "--triggers-mode", "silent",
           "--multiple-errors", "5", "--num-threads", str(min(8, os.cpu_count() or 4))]
    if rlimit:
        cmd += ["--rlimit", str(rlimit)]
    if seed is not None:
        cmd += ["--smt-option", "smt.random_seed=%d" % seed]
    if extra:
        cmd += extra
    t0 = time.time()
    try:
        p = subprocess.run(cmd, capture_output=True, text=True, timeout=timeout, cwd=os.path.dirname(path))
    except subprocess.TimeoutExpired:
        return cmd, None, [], "timeout", time.time() - t0
    out = None
    try:
        out = json.loads(p.stdout)
    except Exception:
        # json may be preceded by noise
        i = p.stdout.find("{")
        try:
            out = json.loads(p.stdout[i:]) if i >= 0 else None
        except Exception:
            out = None
    diags = []
    for ln in p.stderr.splitlines():
        ln = ln.strip()
        if ln.startswith("{"):
            try:
                diags.append(json.loads(ln))
            except Exception:
                pass
    return cmd, out, diags, p.stderr, time.time() - t0


def _classify(diags):
    """Split diagnostics into semantic verification failures, resource problems and other errors."""
    sem, res, other = [], [], []
    for d in diags:
        if d.get("level") != "error":
            continue
        msg = d.get("message", "")
        if msg.startswith("aborting due to"):
            continue
        if any(k in msg for k in RESOURCE):
            res.append(d)
        elif any(k in msg for k in SEMANTIC):
            sem.append(d)
        else:
            other.append(d)
    return sem, res, other


def _enclosing(meta_functions, lemmas, line):
    for f in meta_functions:
        if f["first"] <= line <= f["last"]:
            return ("fn", f["fn"])
    for c in lemmas:
        if c["first"] <= line <= c["last"]:
            return ("lemma", c["fn"])
    return (None, None)


_AUDIT = None


def _prelude_audit():
    """tools/audit_preludes.py once per process: a trusted prelude whose shims contradict each other would make proofs vacuous"""
    global _AUDIT
    if _AUDIT is None:
        p = subprocess.run([os.path.join(VERIF, "tools", "audit_preludes.py")], capture_output=True, text=True)
        _AUDIT = (p.returncode == 0, (p.stdout or "").strip().split("\n")[0][:300])
    return _AUDIT


def run_unit(unit, repo, tier="quick", seed=0, do_vacuity=True):
    r = UnitResult(unit)
    t0 = time.time()
    ok_, msg_ = _prelude_audit()
    if not ok_:
        r.status = "undecided"
        r.reason = "prelude audit: %s" % msg_
        r.wall_s = time.time() - t0
        return r
    try:
        g = vxgen.generate(unit, repo, BUILD)
    except vxgen.Undecided as e:
        r.status = "undecided"
        r.reason = "extraction: %s" % e
        r.wall_s = time.time() - t0
        return r
    meta = g.meta
    r.file = meta["file"]
    r.functions = meta["functions"]
    r.fidelity = meta["fidelity"]
    r.dropped = meta["dropped"]
    r.assumptions = meta["assumptions"]
    r.sha256 = meta["sha256"]
    clauses = meta["clauses"]
    lemmas = [c for c in clauses if c["kind"] == "lemma"]
    # obligations: every clause + one safety obligation per extracted function
    obl = {}
    for c in clauses:
        obl[c["id"]] = dict(id=c["id"], kind=c["kind"], fn=c["fn"], label=c.get("label"), status="discharged", detail="", text=c.get("text", "")[:300])
    for f in meta["functions"]:
        oid = "%s/%s/safety" % (unit, f["fn"])
        obl[oid] = dict(id=oid, kind="safety", fn=f["fn"], label="no overflow / out-of-bounds / failed callee precondition / failed assertion in the body",
                        status="discharged", detail="", text="")

    rlimit = None if tier == "quick" else 40
    cmd, out, diags, stderr, wall = _run_verus(meta["file"], rlimit=rlimit)
    r.cmd = " ".join(cmd)
    r.raw = stderr if isinstance(stderr, str) else ""
    if out is None:
        r.status = "undecided"
        r.reason = "verus produced no result (%s)" % (stderr if stderr == "timeout" else "crash or compile error")
        r.obligations = list(obl.values())
        r.wall_s = time.time() - t0
        return r
    sem, res, other = _classify(diags)
    vr = out.get("verification-results", {})
    if other or vr.get("encountered-vir-error") or ("verified" not in vr):
        r.status = "undecided"
        msgs = [d.get("message", "") for d in other][:3]
        r.reason = "extracted text no longer accepted by Verus (not a proof failure): %s" % "; ".join(msgs)
        r.obligations = list(obl.values())
        r.wall_s = time.time() - t0
        return r

    def breakdown(o):
        fb = {}
        try:
            for m in o["times-ms"]["smt"]["smt-run-module-times"]:
                for f in m.get("function-breakdown", []):
                    fb[f["function"]] = f
        except Exception:
            pass
        return fb

    fb = breakdown(out)
    try:
        r.smt_ms = out["times-ms"]["smt"]["smt-run"]
    except Exception:
        pass
    r.verified_count = vr.get("verified", 0)

    if sem or res:
        # stability re-run: larger rlimit, different seed
        cmd2, out2, diags2, stderr2, _ = _run_verus(meta["file"], rlimit=(rlimit or 10) * 4, seed=seed + 7)
        if out2 is not None:
            sem2, res2, other2 = _classify(diags2)
            if not sem2 and not res2 and not other2:
                # flipped: unstable proof, not a violation
                r.status = "undecided"
                r.reason = "proof unstable: fails at default rlimit/seed, passes at 4x rlimit and another seed"
                r.obligations = list(obl.values())
                r.wall_s = time.time() - t0
                return r
            if sem2:
                sem, res, diags, r.raw = sem2, res2, diags2, stderr2 if isinstance(stderr2, str) else r.raw
            elif res2:
                sem, res = [], res2
    if res and not sem:
        r.status = "undecided"
        r.reason = "solver resource limit exceeded: %s" % "; ".join(d.get("message", "")[:100] for d in res[:2])
        r.obligations = list(obl.values())
        r.wall_s = time.time() - t0
        return r

    # functions that call a helper pulled in without a contract (vxgen auto-fn), and those helpers themselves:
    # a proof failure there may only mean "the helper has no contract" - undecided, never a violation
    tainted = set()
    auto = meta.get("auto_pulled") or []
    if auto:
        gl_ = g.lines
        for f in meta["functions"]:
            short = f["fn"].split("::")[-1]
            body_ = "\n".join(gl_[f["first"] - 1:f["last"]])
            if short in auto or any(re.search(r"\b%s\s*\(" % re.escape(a_), body_.split("{", 1)[-1]) for a_ in auto if a_ != short):
                tainted.add(f["fn"])
    for d in sem:
        msg = d.get("message", "")
        spans = d.get("spans", [])
        prim = [s for s in spans if s.get("is_primary")]
        oid = None
        # a failed postcondition / invariant clause of ours
        for s in prim + spans:
            ln = s.get("line_start", 0)
            for c in clauses:
                if c["kind"] in ("post", "invariant") and c["first"] <= ln <= c["last"]:
                    oid = c["id"]
                    break
            if oid:
                break
        if not oid:
            ln = prim[0]["line_start"] if prim else (spans[0]["line_start"] if spans else 0)
            kind, name = _enclosing(meta["functions"], lemmas, ln)
            if kind is None:
                # e.g. a trait-level contract (declared once, outside any extracted fn): use the
                # function named by a secondary span ("at the end of the function body")
                for s_ in spans:
                    kind, name = _enclosing(meta["functions"], lemmas, s_.get("line_start", 0))
                    if kind:
                        break
            if kind == "fn":
                oid = "%s/%s/safety" % (unit, name)
            elif kind == "lemma":
                oid = "%s/lemma/%s" % (unit, name)
            else:
                oid = None
        if oid is None or oid not in obl:
            # failure we cannot attribute (e.g. inside the prelude): undecided rather than alarm
            r.status = "undecided"
            r.reason = "verification failure outside any obligation: %s" % msg
            continue
        o = obl[oid]
        if o["fn"] in tainted:
            r.status = "undecided"
            r.reason = "proof failure in %s, which calls (or is) a helper pulled in without a contract: %s" % (o["fn"], ", ".join(auto))
            continue
        o["status"] = "failed"
        where = ""
        if prim:
            gl = prim[0]["line_start"]
            org = g.linemap[gl - 1] if 0 < gl <= len(g.linemap) else None
            if org and org.get("file"):
                where = " at %s:%s" % (org["file"], org.get("line"))
            where += " [generated line %d]" % gl
        o["detail"] = (o["detail"] + " | " if o["detail"] else "") + msg + where
        o.setdefault("rendered", []).append(d.get("rendered", "")[:2000])
    r.obligations = list(obl.values())
    r.failed = [o for o in r.obligations if o["status"] == "failed"]
    if r.failed and r.status != "undecided":
        r.status = "failed"
    elif r.failed:
        r.status = "failed"
    # cross-check: every extracted function and lemma must have been verified by the solver
    if r.status == "ok":
        seen = set(fb)
        for f in meta["functions"]:
            nm = f["fn"].replace("::", "::")
            hit = [k for k in seen if k.endswith("::" + f["fn"].split("::")[-1])]
            if not hit:
                # functions without any obligation do not show up in the breakdown; not an error
                continue
            if not all(fb[k].get("success", True) for k in hit):
                r.status = "undecided"
                r.reason = "verus reported function %s unsuccessful without a diagnostic" % f["fn"]
    # thorough tier: the proof must also go through with two other solver seeds (stability)
    if tier == "thorough" and r.status == "ok":
        r.seeds_checked = [seed]
        for extra_seed in (seed + 11, seed + 23):
            c3, o3, d3, e3, _ = _run_verus(meta["file"], rlimit=rlimit, seed=extra_seed)
            s3, r3, x3 = _classify(d3) if o3 is not None else ([], [], [1])
            if o3 is None or s3 or r3 or x3:
                r.status = "undecided"
                r.reason = "proof unstable under solver seed %d" % extra_seed
                break
            r.seeds_checked.append(extra_seed)
    if do_vacuity and r.status == "ok":
        r.vacuity = run_vacuity(g, meta)
        if not r.vacuity.get("error") and not r.vacuity.get("vacuous"):
            ef = run_ensures_false(g, meta)
            r.vacuity["ensures_false_checked"] = ef.get("checked", 0)
            if ef.get("error"):
                r.vacuity["error"] = ef["error"]
            elif ef.get("vacuous"):
                r.vacuity["vacuous"] = ef["vacuous"]
        if r.vacuity.get("error"):
            r.status = "undecided"
            r.reason = "vacuity guard could not run: %s" % r.vacuity["error"]
        elif r.vacuity.get("vacuous"):
            r.status = "undecided"
            r.reason = "vacuity guard: contradictory precondition in %s" % ", ".join(r.vacuity["vacuous"])
    r.wall_s = time.time() - t0
    return r


# --------------------------------------------------------------------------
# vacuity guard: `assert(false)` under each function's requires must FAIL
# --------------------------------------------------------------------------
def _params(sig):
    m = mask(sig)
    i = m.index("(", m.index("fn "))
    from rsparse import match_close
    j = match_close(m, i)
    inner = sig[i + 1:j]
    parts = [p.strip() for p in split_top_level(mask(inner), inner, ",") if p.strip()]
    return parts


def run_vacuity(g, meta):
    lines = list(g.lines)
    # drop trailing "} // verus!" and "fn main() {}"
    while lines and lines[-1].strip() in ("fn main() {}", "} // verus!", ""):
        lines.pop()
    names = []
    skipped = []
    add = ["", "// ---- vacuity guards (each must FAIL) ----"]
    for key, ctr in g.contracts.items():
        if not ctr.requires:
            continue
        f = next((x for x in meta["functions"] if x["fn"] == key), None)
        if not f:
            continue
        sig = "\n".join(g.lines[f["first"] - 1:f["last"]])
        sig = sig[:sig.index("requires")] if "requires" in sig else sig
        try:
            ps = _params(sig)
        except Exception:
            skipped.append(key)
            continue
        cont = key.split("::")[0] if "::" in key else None
        # generic container (`impl<T> Cont<T> {`): the guard is generic over the same parameters
        cont_generics, cont_args = "", ""
        if cont:
            mi = re.search(r"impl\s*(<[^>{]*>)\s*(?:\w+\s+for\s+)?%s\s*(<[^>{]*>)" % re.escape(cont), "\n".join(g.lines))
            if mi:
                cont_generics, cont_args = mi.group(1), mi.group(2)
        out_ps = []
        ok = True
        for p in ps:
            if re.fullmatch(r"(&\s*(mut\s+)?|mut\s+)?self", p):
                out_ps.append("s_: %s%s" % (cont, cont_args))
                continue
            mm = re.match(r"(mut\s+)?(\w+)\s*:\s*(.*)$", p, re.S)
            if not mm or "impl " in mm.group(3):
                ok = False
                break
            ty = mm.group(3).strip()
            if re.match(r"^&\s*mut\s+\[", ty):
                ty = re.sub(r"^&\s*mut\s+", "&", ty)   # unsized: keep a shared reference
            else:
                ty = re.sub(r"^&\s*mut\s+", "", ty)
            out_ps.append("%s: %s" % (mm.group(2), ty))
        if not ok:
            skipped.append(key)
            continue
        req = ",\n".join(t.rstrip().rstrip(",") for _, t in ctr.requires)
        req = re.sub(r"old\(\s*self\s*\)", "s_", req)
        req = re.sub(r"\bself\b", "s_", req)
        req = re.sub(r"\*\s*old\(\s*(\w+)\s*\)", r"\1", req)   # `&mut T` params are passed by value here
        req = re.sub(r"old\(\s*(\w+)\s*\)", r"\1", req)
        nm = "vacuity_" + re.sub(r"\W+", "_", key)
        names.append((nm, key))
        generics = ""
        mg = re.search(r"fn\s+\w+\s*(<[^>]*>)", sig)
        if mg:
            generics = mg.group(1)
        if cont_generics:
            generics = cont_generics if not generics else "<" + cont_generics[1:-1] + ", " + generics[1:-1] + ">"
        add.append("proof fn %s%s(%s)\n    requires\n%s,\n{\n    assert(false);\n}" % (nm, generics, ", ".join(out_ps), req))
    if not names:
        return dict(checked=0, vacuous=[], skipped=skipped)
    path = os.path.join(BUILD, g.unit_name + "_vacuity.rs")
    with open(path, "w") as f:
        f.write("\n".join(lines + add + ["} // verus!", "fn main() {}"]) + "\n")
    cmd, out, diags, stderr, wall = _run_verus(path, extra=["--verify-root", "--verify-function", "vacuity_*"])
    res = dict(checked=len(names), vacuous=[], skipped=skipped, file=path)
    if out is None:
        res["error"] = "verus failed on vacuity file"
        return res
    sem, rs, other = _classify(diags)
    if other:
        res["error"] = "vacuity file rejected: " + "; ".join(d.get("message", "") for d in other[:2])
        return res
    failed_lines = set()
    for d in sem:
        for s in d.get("spans", []):
            failed_lines.add(s.get("line_start"))
    text = open(path).read().split("\n")
    for nm, key in names:
        # the assert(false) line of this guard
        idx = next(i for i, ln in enumerate(text) if ln.startswith("proof fn %s(" % nm) or ln.startswith("proof fn %s<" % nm))
        j = idx
        while "assert(false)" not in text[j]:
            j += 1
        if (j + 1) not in failed_lines:
            res["vacuous"].append(key)
    return res


def run_ensures_false(g, meta):
    """Second vacuity guard (added after a shim whose `ensures` contradicted itself made a whole unit vacuous): next to every
    contracted function a COPY is placed (same signature, requires and body; callers keep calling the original) whose only
    postcondition is `false`. Each copy must FAIL; a copy that verifies proves `false` at its exit, i.e. the function is
    checked under contradictory assumptions (or never returns - none of ours)."""
    by_fn = {}
    for c in meta["clauses"]:
        if c["kind"] == "post":
            by_fn.setdefault(c["fn"], []).append(c)
    fns = {f["fn"]: f for f in meta["functions"]}
    lines = list(g.lines)
    copies = {}   # after generated line L (1-based): list of lines to insert
    names = {}
    for fn, cs in by_fn.items():
        f = fns.get(fn)
        if not f:
            continue
        first_c, last_c = min(c["first"] for c in cs), max(c["last"] for c in cs)
        seg = lines[f["first"] - 1:f["last"]]
        short = fn.split("::")[-1]
        ens_kw = first_c - 1 - f["first"]          # index in seg of the `ensures` keyword line
        if ens_kw < 0 or "ensures" not in seg[ens_kw]:
            continue
        head = seg[:ens_kw]
        hm = re.sub(r"\bfn\s+%s\b" % re.escape(short), "fn %s_vac_" % short, "\n".join(head), count=1)
        if hm == "\n".join(head):
            continue
        body = seg[last_c - f["first"] + 1:]
        # the success path is the one that runs through every call: for a Result-returning function the guard is
        # `r is Ok ==> false` (an early `?` exit would make plain `false` fail even in a contradictory context)
        mres = re.search(r"->\s*\(\s*(\w+)\s*:\s*(?:std::result::)?(?:Migration)?Result\s*<", hm)
        guard = ("%s is Ok ==> false" % mres.group(1)) if mres else "false"
        cp = hm.split("\n") + ["        ensures %s, // vacuity guard: this copy must fail" % guard] + body
        copies[f["last"]] = (fn, cp)
        names[fn] = fn
    if not copies:
        return dict(checked=0, vacuous=[])
    out_lines, spans = [], {}
    for i_, ln in enumerate(lines, 1):
        out_lines.append(ln)
        if i_ in copies:
            a = len(out_lines) + 1
            out_lines.extend(copies[i_][1])
            spans[(a, len(out_lines))] = copies[i_][0]
    path = os.path.join(BUILD, g.unit_name + "_vacuity2.rs")
    with open(path, "w") as f:
        f.write("\n".join(out_lines) + "\n")
    cmd, out, diags, stderr, wall = _run_verus(path)
    if out is None:
        return dict(checked=len(names), error="verus failed on the ensures-false file")
    sem, rs, other = _classify(diags)
    if other:
        return dict(checked=len(names), error="ensures-false file rejected: " + "; ".join(d.get("message", "") for d in other[:2]))
    failed = set()
    for d in sem + rs:
        for sp in d.get("spans", []):
            ln = sp.get("line_start", 0)
            for (a, b), nm in spans.items():
                if a <= ln <= b:
                    failed.add(nm)
    vac = sorted(names[nm] for nm in names if nm not in failed)
    return dict(checked=len(names), vacuous=vac, file=path)
