"""Kani route: stage a copy of the real crate, append #[cfg(kani)] harness modules
(add-only), run cargo kani on the selected harnesses, map results to obligations.

Registry: /verif/kx/registry.py
  FILES  : {harness_file: source file it is appended to}
  UNITS  : {unit: [harness dict]}  harness dict keys:
      name      harness fn name (unique crate-wide)
      file      harness file (key of FILES)
      label     what the harness proves (contract clause, in words)
      strength  "complete" | "bounded(<what>)"
      tier      "quick" | "thorough"
      covers    number of kani::cover! points that must be SATISFIED (vacuity guard)
      stubs     list of stubbed paths (reported as assumptions)
      playback  True if the harness has no stubs, so concrete playback runs the real code
"""
import fcntl
import hashlib
import importlib.util
import json
import os
import re
import shutil
import subprocess
import time

VERIF = os.path.dirname(os.path.dirname(os.path.abspath(__file__)))
KX = os.path.join(VERIF, "kx")
CACHE = os.path.join(VERIF, ".cache", "kani-target")


def registry():
    spec = importlib.util.spec_from_file_location("kx_registry", os.path.join(KX, "registry.py"))
    mod = importlib.util.module_from_spec(spec)
    spec.loader.exec_module(mod)
    return mod


class UnitResult:
    def __init__(self, unit):
        self.unit = unit
        self.status = "ok"
        self.reason = ""
        self.obligations = []
        self.failed = []
        self.functions = []
        self.fidelity = []
        self.dropped = []
        self.assumptions = []
        self.sha256 = {}
        self.smt_ms = 0
        self.wall_s = 0.0
        self.cmd = ""
        self.file = ""
        self.vacuity = {}
        self.route = "kani"


def stage(repo, stage_dir, files, reg):
    """rsync repo -> stage_dir/repo and append harness modules. Returns sha256 of real files."""
    dst = os.path.join(stage_dir, "repo")
    os.makedirs(dst, exist_ok=True)
    subprocess.run(["rsync", "-a", "--delete", "--exclude", "target", "--exclude", ".git", repo.rstrip("/") + "/", dst + "/"], check=True)
    sha = {}
    added = []
    for hf in sorted(files):
        src_rel = reg.FILES[hf]
        p = os.path.join(dst, src_rel)
        if not os.path.exists(p):
            raise RuntimeError("source file %s missing" % src_rel)
        orig = open(p).read()
        sha[src_rel] = hashlib.sha256(orig.encode()).hexdigest()
        text = open(os.path.join(KX, hf)).read()
        with open(p, "w") as f:
            f.write(orig)
            if not orig.endswith("\n"):
                f.write("\n")
            f.write("\n// ---- appended by /verif/lib/kani_route.py (add-only) ----\n")
            f.write(text)
        # add-only check: the staged file starts with the original bytes
        assert open(p).read().startswith(orig)
        added.append(dict(rule="kani-append", file=src_rel, line=orig.count("\n") + 1, item=hf,
                          before="(end of file)", after="#[cfg(kani)] mod from kx/%s (%d lines)" % (hf, text.count("\n")),
                          trusted="nothing: staged file minus appended lines is byte-identical to /repo's"))
    # crate-level attribute needed by stacked stubs
    lib = os.path.join(dst, "src", "lib.rs")
    s = open(lib).read()
    if "recursion_limit" not in s:
        open(lib, "w").write('#![cfg_attr(kani, recursion_limit = "512")]\n#![cfg_attr(kani, feature(allocator_api))]\n' + s)
        added.append(dict(rule="kani-recursion-limit", file="src/lib.rs", line=1, item="crate", before="", after='#![cfg_attr(kani, recursion_limit = "512")] #![cfg_attr(kani, feature(allocator_api))]', trusted="nothing"))
    lock = os.path.join(repo, "Cargo.lock")
    if os.path.exists(lock):
        shutil.copy(lock, os.path.join(dst, "Cargo.lock"))
    return dst, sha, added


HARNESS_RE = re.compile(r"^(?:Thread (\d+): )?Checking harness ([\w:]+)\.\.\.")


def parse_output(out):
    """Split cargo-kani output per harness (sequential or `-j` threaded terse output)."""
    cur = {}      # thread id -> harness name
    bodies = {}   # harness -> list of lines
    active = None
    for ln in out.splitlines():
        m = HARNESS_RE.match(ln)
        if m:
            t = m.group(1) or "0"
            name = m.group(2).split("::")[-1]
            cur[t] = name
            bodies.setdefault(name, [])
            active = name
            continue
        m = re.match(r"^Thread (\d+): ?(.*)$", ln)
        if m:
            t = m.group(1)
            if t in cur:
                active = cur[t]
                bodies[active].append(m.group(2))
            continue
        if ln.startswith("Manual Harness Summary") or ln.startswith("Complete - "):
            active = None
            continue
        if active:
            bodies[active].append(ln)
    res = {}
    for name, lines in bodies.items():
        body = "\n".join(lines)
        r = dict(raw=body[-6000:], status="unknown", failed_checks=[], covers_ok=None, covers_total=None, time_s=None, checks=None)
        m = re.search(r"VERIFICATION:- (SUCCESSFUL|FAILED)", body)
        if m:
            r["status"] = "ok" if m.group(1) == "SUCCESSFUL" else "failed"
        if "CBMC timed out" in body or "out of memory" in body.lower() or "CBMC failed" in body and "Failed Checks" not in body:
            r["status"] = "unknown"
            r["why"] = "CBMC timed out" if "timed out" in body else "CBMC failed without a verdict"
        m = re.search(r"\*\* (\d+) of (\d+) failed", body)
        if m:
            r["checks"] = int(m.group(2))
            r["nfailed"] = int(m.group(1))
        m = re.search(r"\*\* (\d+) of (\d+) cover properties satisfied", body)
        if m:
            r["covers_ok"], r["covers_total"] = int(m.group(1)), int(m.group(2))
        m = re.search(r"Verification Time: ([\d.]+)s", body)
        if m:
            r["time_s"] = float(m.group(1))
        for fm in re.finditer(r"Failed Checks: (.*)\n\s*File: \"([^\"]*)\", line (\d+)", body):
            r["failed_checks"].append(dict(desc=fm.group(1).strip(), file=fm.group(2), line=int(fm.group(3))))
        if r["status"] == "failed" and not r["failed_checks"] and "encountered no panics" in body:
            # #[kani::should_panic] harness: the panic the harness exists to observe is no longer reachable
            r["failed_checks"].append(dict(desc="should_panic harness: the expected panic is not reachable any more (the guard it observes is gone)", file="", line=0))
        res[name] = r
    return res


def run_units(units, repo, tier="quick", seed=0, tag="x", timeout=None, filters=None):
    reg = registry()
    results = {u: UnitResult(u) for u in units}
    t0 = time.time()
    harnesses = []
    for u in units:
        for h in reg.UNITS[u]:
            if h.get("tier", "quick") == "thorough" and tier != "thorough":
                continue
            if h.get("tier") == "experimental" and not os.environ.get("VERIF_EXPERIMENTAL"):
                continue  # written, but CBMC does not finish it: never part of a registered check
            f = (filters or {}).get(u)
            if f is not None and h["name"] not in f:
                continue
            hh = dict(h)
            hh["unit"] = u
            harnesses.append(hh)
    only = os.environ.get("VERIF_ONLY_HARNESS")
    if only:
        harnesses = [h for h in harnesses if h["name"] in only.split(",")]
    for u in units:
        if not any(h["unit"] == u for h in harnesses):
            results[u].status = "undecided"
            results[u].reason = "no harness selected for this unit in tier %s" % tier
    if not harnesses:
        return results
    files = set(h["file"] for h in harnesses)
    deps = getattr(reg, "DEPS", {})
    grew = True
    while grew:
        grew = False
        for f in list(files):
            for d in deps.get(f, []):
                if d not in files:
                    files.add(d)
                    grew = True
    stage_dir = os.path.join(VERIF, ".scratch", "kani-" + tag)
    os.makedirs(stage_dir, exist_ok=True)
    lockf = open(os.path.join(stage_dir, ".lock"), "w")
    fcntl.flock(lockf, fcntl.LOCK_EX)
    try:
        try:
            dst, sha, added = stage(repo, stage_dir, files, reg)
        except Exception as e:
            for r in results.values():
                r.status = "undecided"
                r.reason = "staging failed: %s" % e
            return results
        env = dict(os.environ, CARGO_NET_OFFLINE="true", CARGO_TARGET_DIR=CACHE)
        os.makedirs(CACHE, exist_ok=True)
        jobs = min(8, max(1, len(harnesses)))
        hto = int(os.environ.get("VERIF_HARNESS_TIMEOUT", "900" if tier == "quick" else "2400"))
        cmd = ["cargo", "kani", "-Z", "function-contracts", "-Z", "stubbing", "-Z", "unstable-options",
               "--harness-timeout", "%ds" % hto, "--output-format", "terse", "-j", str(jobs)]
        for h in harnesses:
            cmd += ["--harness", h["name"]]
        to = timeout or (3000 if tier == "quick" else 9000)
        logp = os.path.join(stage_dir, "kani.log")
        timed_out = False
        with open(logp, "w") as lf:
            pr_ = subprocess.Popen(cmd, cwd=dst, env=env, stdout=lf, stderr=subprocess.STDOUT, text=True, start_new_session=True)
            try:
                pr_.wait(timeout=to)
            except subprocess.TimeoutExpired:
                timed_out = True
                import signal
                try:
                    os.killpg(pr_.pid, signal.SIGKILL)
                except Exception:
                    pass
                pr_.wait()
        out = open(logp, errors="replace").read()
        per = parse_output(out)
        compile_error = ("error: could not compile" in out) or ("error[E" in out) or ("internal compiler error" in out)
        for u in units:
            r = results[u]
            r.cmd = "cd <staged copy of /repo> && " + " ".join(cmd)
            r.sha256 = sha
            r.fidelity = added
            r.file = dst
        for h in harnesses:
            r = results[h["unit"]]
            oid = "%s/%s" % (h["unit"], h["name"])
            o = dict(id=oid, kind="kani-harness", fn=h.get("fn", h["name"]), label=h["label"], status="discharged", detail="",
                     text=h["label"], strength=h.get("strength", "complete"), stubs=h.get("stubs", []), harness=h["name"],
                     finding=bool(h.get("finding")))
            pr = per.get(h["name"])
            if pr is None or pr["status"] == "unknown":
                o["status"] = "undecided"
                why = (pr or {}).get("why") or "timeout" if (timed_out or (pr or {}).get("why")) else ("staged crate does not compile with the harness module" if compile_error else "no result from cargo kani")
                o["detail"] = why
                r.status = "undecided"
                if compile_error:
                    errs = re.findall(r"^error(?:\[E\d+\])?: .*$", out, re.M)[:3]
                    r.reason = "staged crate does not compile with the harness modules [" + " | ".join(errs) + "]"
                else:
                    r.reason = (r.reason + "; " if r.reason else "") + "%s: %s" % (h["name"], why)
            else:
                o["time_s"] = pr["time_s"]
                o["checks"] = pr["checks"]
                if pr["status"] == "failed":
                    real = [fc for fc in pr["failed_checks"] if "unwinding assertion" not in fc["desc"]]
                    if not real and pr["failed_checks"]:
                        o["status"] = "undecided"
                        o["detail"] = "unwinding bound too small for this tree (unwinding assertion failed): bound exceeded, not a counterexample"
                        r.status = "undecided"
                        r.reason += "%s: unwinding assertion; " % h["name"]
                    elif not real:
                        o["status"] = "undecided"
                        o["detail"] = "CBMC reported failure without a failed check"
                        r.status = "undecided"
                        r.reason += "%s: failure without failed check; " % h["name"]
                    else:
                        o["status"] = "failed"
                        o["detail"] = "; ".join("%s (%s:%d)" % (fc["desc"], fc["file"], fc["line"]) for fc in real[:4])
                        o["rendered"] = [pr["raw"][-3000:]]
                else:
                    exp = h.get("covers")
                    if exp is not None and (pr["covers_total"] != exp or pr["covers_ok"] != exp):
                        o["status"] = "undecided"
                        o["detail"] = "vacuity guard: %s of %s cover points satisfied, expected %s" % (pr["covers_ok"], pr["covers_total"], exp)
                        r.status = "undecided"
                        r.reason += "%s: cover points not all satisfied; " % h["name"]
                r.smt_ms += int((pr["time_s"] or 0) * 1000)
            r.obligations.append(o)
            r.functions.append(dict(fn=h.get("fn", h["name"]), file=reg.FILES[h["file"]], line=None, contracted=True))
            for s in h.get("stubs", []):
                r.assumptions.append(dict(kind="kani::stub", line=0, item=s))
        # counterexamples for failed harnesses
        for u in units:
            r = results[u]
            r.failed = [o for o in r.obligations if o["status"] == "failed"]
            if r.failed:
                r.status = "failed"
                for o in r.failed:
                    if o.get("finding"):
                        continue
                    try:
                        playback(dst, env, o, repo)
                    except Exception as e:
                        o["replay_result"] = "playback error: %s" % e
            r.wall_s = time.time() - t0
        return results
    finally:
        if not os.environ.get("VERIF_KEEP_STAGE"):
            shutil.rmtree(os.path.join(stage_dir, "repo"), ignore_errors=True)
        fcntl.flock(lockf, fcntl.LOCK_UN)
        lockf.close()


def playback(dst, env, o, repo=None):
    """Ask Kani for concrete values of the failing harness; for stub-free harnesses run the
    generated test against the real code (cargo kani playback)."""
    cmd = ["cargo", "kani", "-Z", "function-contracts", "-Z", "stubbing", "-Z", "concrete-playback",
           "--concrete-playback=print", "--harness", o["harness"], "--output-format", "terse"]
    p = subprocess.run(cmd, cwd=dst, env=env, capture_output=True, text=True, timeout=int(os.environ.get('VERIF_PLAYBACK_TIMEOUT', '400')))
    out = p.stdout
    m = re.search(r"```\s*\n(.*?)```", out, re.S)
    if not m:
        m = re.search(r"(#\[test\]\s*fn kani_concrete_playback.*?\n\}\n)", out, re.S)
    if m:
        test = m.group(1)
        o["counterexample"] = test[:6000]
        o["replay_test"] = test[:6000]
        real = None
        if repo is not None:
            try:
                import io_replay
                real = io_replay.run(o["harness"], test, repo)
            except Exception as e:
                real = dict(replayed=False, note="real-file replay failed to run: %s" % e)
        if real and real.get("replayed"):
            o["replayed"] = bool(real.get("reproduced"))
            o["replay_result"] = ("REPRODUCED on the real code (real file, real syscalls, one EIO injected with strace at the call the verifier chose): "
                                  if real.get("reproduced") else "real-file replay did NOT reproduce the failure: ") + json.dumps(real)
        elif not o.get("stubs"):
            o["replay_result"] = "stub-free harness: `cargo kani playback` of this test runs the real function on these inputs (./check --replay <file>)"
            o["replayed"] = False
        else:
            o["replay_result"] = "harness uses stubs (%s): values shown are the verifier's model of the inputs and of the stubbed I/O outcomes; not executable as a plain test" % ", ".join(o["stubs"])
    else:
        o["replay_result"] = "kani gave no concrete playback for this failure"


def run_unit(unit, repo, tier="quick", seed=0):
    return run_units([unit], repo, tier, seed, tag=unit)[unit]
