"""The fixed rewrite table of the Verus route (DESIGN §2.1).

Every rule is `rule_<name>(text) -> (new_text, [application records])`.
A rule only fires where its whole pattern matches; sub-expressions (bounds,
patterns, closure bodies, arithmetic) are carried over verbatim.
"""
import re
from rsparse import mask, match_close, split_top_level


def _rel_line(text, off):
    return text.count("\n", 0, off)


def _app(rule, text, a, b, after, trusted="nothing"):
    return dict(rule=rule, rel_line=_rel_line(text, a), before=re.sub(r"\s+", " ", text[a:b]).strip(),
                after=re.sub(r"\s+", " ", after).strip(), trusted=trusted)


def _receiver_start(m, end):
    r = _receiver_start0(m, end)
    while r < end and m[r].isspace():
        r += 1
    return r


def _receiver_start0(m, end):
    """Given masked text m and index `end` just past a receiver expression
    (i.e. m[end] == '.'), walk backwards to the start of the postfix chain."""
    i = end
    while True:
        # skip whitespace
        j = i
        while j > 0 and m[j - 1].isspace():
            j -= 1
        if j == 0:
            return j
        ch = m[j - 1]
        if ch in ")]":
            # find matching open
            close = ch
            open_ = "(" if ch == ")" else "["
            d = 0
            k = j - 1
            while k >= 0:
                if m[k] == close:
                    d += 1
                elif m[k] == open_:
                    d -= 1
                    if d == 0:
                        break
                k -= 1
            i = k
            continue
        if ch == "?":
            i = j - 1
            continue
        if ch.isalnum() or ch == "_":
            k = j - 1
            while k > 0 and (m[k - 1].isalnum() or m[k - 1] == "_"):
                k -= 1
            i = k
            # preceded by '.' or '::' -> continue chain
            p = k
            while p > 0 and m[p - 1].isspace():
                p -= 1
            if p > 0 and m[p - 1] == ".":
                i = p - 1
                continue
            if p > 1 and m[p - 2:p] == "::":
                i = p - 2
                continue
            # leading & or * or ! are part of a unary expr, not of the receiver
            return k
        if ch == ".":
            i = j - 1
            continue
        return j


def _method_calls(text, m, name):
    """Yield (dot_index, open_paren, close_paren) for `.name(` occurrences, last first."""
    out = []
    for mm in re.finditer(r"\.\s*%s\s*\(" % re.escape(name), m):
        op = mm.end() - 1
        out.append((mm.start(), op, match_close(m, op)))
    return out[::-1]


def _closure_parts(arg_text):
    """arg_text like `|PAT| BODY` -> (pat, body) or None"""
    a = arg_text.strip()
    if not a.startswith("|"):
        return None
    m = mask(a)
    # closing pipe: first '|' after the first at delimiter depth 0
    d = 0
    for i in range(1, len(a)):
        ch = m[i]
        if ch in "([{":
            d += 1
        elif ch in ")]}":
            d -= 1
        elif ch == "|" and d == 0:
            return a[1:i].strip(), a[i + 1:].strip()
    return None


# ---------------------------------------------------------------- visibility
def rule_vis(text):
    apps = []
    m = mask(text)
    out = text
    for mm in reversed(list(re.finditer(r"\bpub\((?:crate|super)\)", m))):
        apps.append(_app("R-vis", text, mm.start(), mm.end(), "pub"))
        out = out[:mm.start()] + "pub" + out[mm.end():]
    return out, apps


def rule_lifetime_const(text):
    apps = []
    mm = re.match(r"((?:pub\s+)?const\s+\w+\s*:\s*)&(\s*\[)", text)
    if mm:
        new = mm.group(1) + "&'static " + mm.group(2).lstrip() + text[mm.end():]
        apps.append(_app("R-lt", text, 0, mm.end(), mm.group(1) + "&'static ["))
        text = new
    # byte-string literal -> array literal (Verus knows the length of b"..." but not its contents)
    bm = re.search(r'=\s*(b"(?:[^"\\]|\\.)*")\s*;', text)
    if bm:
        import ast
        val = ast.literal_eval(bm.group(1))
        arr = "&[" + ", ".join("%du8" % b for b in val) + "]"
        apps.append(_app("R-bstr", text, bm.start(1), bm.end(1), arr, "decoding of the byte-string literal's escapes"))
        text = text[:bm.start(1)] + arr + text[bm.end(1):]
    return text, apps


# ---------------------------------------------------------------- Option::map / filter / and_then
def _option_closure_rule(text, method, rname, build, trusted):
    apps = []
    while True:
        m = mask(text)
        done = True
        for dot, op, cl in _method_calls(text, m, method):
            parts = _closure_parts(text[op + 1:cl])
            if not parts:
                continue
            rs = _receiver_start(m, dot)
            recv = text[rs:dot].strip()
            if not recv or recv.endswith("iter()") or ".iter()" in recv.split("(")[-1]:
                pass
            new = build(recv, parts[0], parts[1])
            if new is None:
                continue
            apps.append(_app(rname, text, rs, cl + 1, new, trusted))
            text = text[:rs] + new + text[cl + 1:]
            done = False
            break
        if done:
            return text, apps


def rule_omap(text):
    return _option_closure_rule(
        text, "map", "R-omap",
        lambda e, p, b: None if _is_non_option_receiver(e) else "(match %s { Some(%s) => Some(%s), None => None })" % (e, p, b),
        "definition of Option::map")


def rule_oandthen(text):
    return _option_closure_rule(
        text, "and_then", "R-oand",
        lambda e, p, b: "(match %s { Some(%s) => %s, None => None })" % (e, p, b),
        "definition of Option::and_then")


def rule_ofilt(text):
    def build(e, p, b):
        if _is_non_option_receiver(e):
            return None
        # closure param binds a reference; the match arm binds by value -
        # a leading `*x` deref of the parameter is dropped (`*end <= t` -> `end <= t`)
        b2 = re.sub(r"\*\s*%s\b" % re.escape(p), p, b) if re.match(r"^\w+$", p) else b
        return "(match %s { Some(%s) if %s => Some(%s), _ => None })" % (e, p, b2, p)
    return _option_closure_rule(text, "filter", "R-ofilt", build, "definition of Option::filter")


def _is_non_option_receiver(e):
    # iterator adapters are handled by other rules; never treat them as Options
    tail = e.rstrip()
    return tail.endswith(".iter()") or tail.endswith(".into_iter()") or tail.endswith(".windows(2)") \
        or tail.endswith(".enumerate()")


# ---------------------------------------------------------------- BTreeMap probes
def rule_range(text):
    """M.range(R).next() / .next_back(), M.iter().next_back()  ->  shim calls."""
    apps = []
    while True:
        m = mask(text)
        hit = None
        for dot, op, cl in _method_calls(text, m, "range"):
            tail = re.match(r"\s*\.\s*(next_back|next)\s*\(\s*\)", m[cl + 1:])
            if not tail:
                continue
            rs = _receiver_start(m, dot)
            recv = text[rs:dot].strip()
            rng = text[op + 1:cl].strip()
            rm = mask(rng)
            which = tail.group(1)
            nxt = which == "next"
            if "..=" in rm:
                lo, hi = split_top_level(rm, rng, "..=")
                lo, hi = lo.strip(), hi.strip()
                if lo and hi:
                    new = "%s(&%s, %s, %s)" % ("btree_first_in_incl" if nxt else "btree_last_in_incl", recv, lo, hi)
                elif hi:
                    new = "%s(&%s, %s)" % ("btree_first_le" if nxt else "btree_last_le", recv, hi)
                else:
                    continue
            elif ".." in rm:
                lo, hi = split_top_level(rm, rng, "..")
                lo, hi = lo.strip(), hi.strip()
                if lo and hi:
                    new = "%s(&%s, %s, %s)" % ("btree_first_in_excl" if nxt else "btree_last_in_excl", recv, lo, hi)
                elif lo:
                    new = "%s(&%s, %s)" % ("btree_first_ge" if nxt else "btree_last_ge", recv, lo)
                elif hi:
                    new = "%s(&%s, %s)" % ("btree_first_lt" if nxt else "btree_last_lt", recv, hi)
                else:
                    continue
            else:
                continue
            end = cl + 1 + tail.end()
            hit = (rs, end, new)
            break
        if not hit:
            # M.iter().next_back()
            mm = re.search(r"\.\s*iter\s*\(\s*\)\s*\.\s*(next_back|next)\s*\(\s*\)", m)
            if mm:
                rs = _receiver_start(m, mm.start())
                recv = text[rs:mm.start()].strip()
                hit = (rs, mm.end(), "%s(&%s)" % ("btree_last" if mm.group(1) == "next_back" else "btree_first", recv))
        if not hit:
            return text, apps
        rs, end, new = hit
        apps.append(_app("R-range", text, rs, end, new,
                         "shim contract: least/greatest key of the map inside the range and its value"))
        text = text[:rs] + new + text[end:]


# ---------------------------------------------------------------- slices and little-endian codecs
def _index_sites(m):
    """Yield (open_bracket, close_bracket) of index expressions `recv[ ... ]` (not array literals /
    types / attributes), last first."""
    out = []
    for i, ch in enumerate(m):
        if ch != "[":
            continue
        j = i - 1
        while j >= 0 and m[j].isspace():
            j -= 1
        if j < 0:
            continue
        if not (m[j].isalnum() or m[j] in "_)]"):
            continue
        # keyword before '[' (e.g. `in [..]`, `return [..]`) is not a receiver
        k = j
        while k >= 0 and (m[k].isalnum() or m[k] == "_"):
            k -= 1
        word = m[k + 1:j + 1]
        if word in ("in", "return", "mut", "let", "else", "match", "if", "as"):
            continue
        out.append((i, match_close(m, i)))
    return out[::-1]


def rule_sub(text):
    """rvalue `S[a..b]`, `S[..b]`, `S[a..]`, `S[..]` (optionally `&`-prefixed) -> slice_subrange(S, a, b)."""
    apps = []
    while True:
        m = mask(text)
        hit = None
        for ob, cb in _index_sites(m):
            inner = text[ob + 1:cb]
            im = m[ob + 1:cb]
            if "..=" in im:
                continue
            parts = split_top_level(im, inner, "..")
            if len(parts) != 2:
                continue
            # lvalue uses are handled by R-cpy
            after = m[cb + 1:cb + 40].lstrip()
            if after.startswith(".copy_from_slice") or after.startswith(".fill(") or re.match(r"=[^=]", after):
                continue
            rs = _receiver_start(m, ob)
            recv = text[rs:ob].strip()
            if not recv:
                continue
            lo = parts[0].strip() or "0"
            hi = parts[1].strip()
            # strip one leading `&` / `&mut` in front of the receiver
            pre = rs
            k = rs - 1
            while k >= 0 and m[k].isspace():
                k -= 1
            if k >= 0 and m[k] == "&":
                pre = k
            if m[max(0, pre - 4):pre].strip().endswith("mut"):
                continue
            base = recv
            if not hi:
                hi = "%s.len()" % base
            new = "slice_subrange(%s, %s, %s)" % (_as_slice(base), lo, hi)
            hit = (pre, cb + 1, new)
            break
        if not hit:
            return text, apps
        a, b, new = hit
        apps.append(_app("R-sub", text, a, b, new, "vstd spec of slice_subrange"))
        text = text[:a] + new + text[b:]


_VEC_RECEIVERS = set()


def _as_slice(base):
    # Vec receivers need an explicit as_slice(); units list them in UNIT['vec_receivers']
    if base in _VEC_RECEIVERS:
        return base + ".as_slice()"
    return base


def rule_le(text):
    """uN::from_le_bytes(E.try_into().X) -> uN_from_le(E);  uN::from_le_bytes([a, b]) -> u16_from_le2(a, b);
    uN::from_le_bytes(ident) -> uN_from_le_arr(ident)."""
    apps = []
    while True:
        m = mask(text)
        hit = None
        for mm in re.finditer(r"\b(u16|u32|u64)\s*::\s*from_le_bytes\s*\(", m):
            op = mm.end() - 1
            cl = match_close(m, op)
            arg = text[op + 1:cl].strip()
            am = mask(arg)
            ty = mm.group(1)
            t1 = re.search(r"\.\s*try_into\s*\(\s*\)\s*\.\s*(ok\s*\(\s*\)\s*\?|unwrap\s*\(\s*\))\s*,?\s*$", am)
            if t1:
                e = arg[:t1.start()].strip()
                new = "%s_from_le(%s)" % (ty, e)
            elif am.startswith("["):
                inner = arg[1:am.rindex("]")]
                parts = [x.strip() for x in split_top_level(mask(inner), inner, ",") if x.strip()]
                new = "%s_from_le%d(%s)" % (ty, len(parts), ", ".join(parts))
            elif re.fullmatch(r"\w+", arg):
                new = "%s_from_le_arr(%s)" % (ty, arg)
            else:
                continue
            hit = (mm.start(), cl + 1, new)
            break
        if not hit:
            return text, apps
        a, b, new = hit
        apps.append(_app("R-le", text, a, b, new, "shim: little-endian value of the bytes (std from_le_bytes); length precondition replaces the infallible try_into"))
        text = text[:a] + new + text[b:]


def rule_tovec(text):
    apps = []
    while True:
        m = mask(text)
        mm = re.search(r"\.\s*to_vec\s*\(\s*\)", m)
        if not mm:
            return text, apps
        rs = _receiver_start(m, mm.start())
        recv = text[rs:mm.start()].strip()
        new = "slice_to_vec(%s)" % recv
        apps.append(_app("R-vec", text, rs, mm.end(), new, "vstd spec of slice_to_vec"))
        text = text[:rs] + new + text[mm.end():]


def rule_tryinto_letelse(text):
    """`let Ok(x) = E.try_into() else { ... };` -> `let Ok(x) = try_into_array8(E) else { ... };`"""
    apps = []
    while True:
        m = mask(text)
        mm = re.search(r"let\s+Ok\s*\(\s*\w+\s*\)\s*=\s*", m)
        hit = None
        for mm in re.finditer(r"let\s+Ok\s*\(\s*\w+\s*\)\s*=\s*", m):
            rest = m[mm.end():]
            t = re.search(r"\.\s*try_into\s*\(\s*\)\s*else\b", rest)
            if not t:
                continue
            semi = rest.find(";")
            if semi >= 0 and t.start() > semi:
                continue
            e = text[mm.end():mm.end() + t.start()].strip()
            a = mm.end()
            b = mm.end() + t.start() + len(re.match(r"\.\s*try_into\s*\(\s*\)", rest[t.start():]).group(0))
            hit = (a, b, "try_into_array8(%s)" % e)
            break
        if not hit:
            return text, apps
        a, b, new = hit
        apps.append(_app("R-tryinto", text, a, b, new, "shim: <[u8; 8]>::try_from(&[u8]) succeeds iff the length is 8"))
        text = text[:a] + new + text[b:]


def rule_slice_ne(text):
    """`A != B[..]` / `A == B` on byte slices where one side is a slice_subrange(...) call:
    -> !slice_eq(A, B) / slice_eq(A, B). Only the form `slice_subrange(..) (!=|==) X[..]` / const."""
    apps = []
    while True:
        m = mask(text)
        hit = None
        for mm in re.finditer(r"slice_subrange\s*\(", m):
            op = mm.end() - 1
            cl = match_close(m, op)
            t = re.match(r"\s*(!=|==)\s*", m[cl + 1:])
            if not t:
                continue
            rhs_start = cl + 1 + t.end()
            # rhs: up to the next `{`, `&&`, `||`, `)` at depth 0 or `;`
            d = 0
            j = rhs_start
            while j < len(m):
                ch = m[j]
                if ch in "([":
                    d += 1
                elif ch in ")]":
                    if d == 0:
                        break
                    d -= 1
                elif d == 0 and (ch in "{;," or m.startswith("&&", j) or m.startswith("||", j)):
                    break
                j += 1
            rhs = text[rhs_start:j].strip()
            if rhs.endswith("[..]"):
                rhs = rhs[:-4] + ".as_slice()"
            lhs = text[mm.start():cl + 1]
            neg = "!" if t.group(1) == "!=" else ""
            hit = (mm.start(), j, "%sslice_eq(%s, %s) " % (neg, lhs, rhs))
            break
        if not hit:
            return text, apps
        a, b, new = hit
        apps.append(_app("R-seq", text, a, b, new, "shim: byte-wise slice equality (PartialEq for [u8])"))
        text = text[:a] + new + text[b:]


# ---------------------------------------------------------------- journal-unit rules
def rule_for_enum(text):
    """`for (I, &PAT) in E.iter().enumerate() {` -> `for I in 0..E.len() { let PAT = E[I];`"""
    apps = []
    while True:
        m = mask(text)
        mm = re.search(r"for\s*\(\s*(\w+)\s*,\s*&", m)
        hit = None
        for mm in re.finditer(r"for\s*\(\s*(\w+)\s*,\s*&", m):
            # pattern after '&' up to the closing paren of the tuple pattern
            start_pat = mm.end()
            # find matching ')' of the outer '(' that follows `for`
            op = m.index("(", mm.start())
            cl = match_close(m, op)
            pat = text[start_pat:cl].strip()
            t = re.match(r"\s*in\s+", m[cl + 1:])
            if not t:
                continue
            e_start = cl + 1 + t.end()
            t2 = re.search(r"\.\s*iter\s*\(\s*\)\s*\.\s*enumerate\s*\(\s*\)\s*\{", m[e_start:])
            if not t2:
                continue
            e = text[e_start:e_start + t2.start()].strip()
            end = e_start + t2.end()
            idx = mm.group(1)
            new = "for %s in 0..%s.len() { let %s = %s[%s];" % (idx, e, pat, e, idx)
            hit = (mm.start(), end, new)
            break
        if not hit:
            return text, apps
        a, b, new = hit
        apps.append(_app("R-for", text, a, b, new, "definition of enumerate() over a slice"))
        text = text[:a] + new + text[b:]


def rule_cpy(text):
    """`D[a..b].copy_from_slice(S)` -> `copy_into_vec(&mut D, a, b, S)` / `copy_into_slice(D, a, b, S)`"""
    apps = []
    while True:
        m = mask(text)
        hit = None
        for dot, op, cl in _method_calls(text, m, "copy_from_slice"):
            # receiver must end with an index expression
            j = dot - 1
            while j >= 0 and m[j].isspace():
                j -= 1
            if j < 0 or m[j] != "]":
                continue
            d = 0
            k = j
            while k >= 0:
                if m[k] == "]":
                    d += 1
                elif m[k] == "[":
                    d -= 1
                    if d == 0:
                        break
                k -= 1
            inner = text[k + 1:j]
            parts = split_top_level(m[k + 1:j], inner, "..")
            if len(parts) != 2:
                continue
            rs = _receiver_start(m, k)
            base = text[rs:k].strip()
            lo = parts[0].strip() or "0"
            hi = parts[1].strip() or ("%s.len()" % base)
            src = text[op + 1:cl].strip()
            if base in _VEC_RECEIVERS:
                new = "copy_into_vec(&mut %s, %s, %s, %s)" % (base, lo, hi, src)
            else:
                new = "copy_into_slice(%s, %s, %s, %s)" % (base, lo, hi, src)
            hit = (rs, cl + 1, new)
            break
        if not hit:
            return text, apps
        a, b, new = hit
        apps.append(_app("R-cpy", text, a, b, new, "shim: bytes a..b replaced by the source, rest unchanged; requires b-a == |source| (std panics otherwise)"))
        text = text[:a] + new + text[b:]


def rule_tole(text):
    """`&E.to_le_bytes()` / `E.to_le_bytes()` -> `E.le_bytes().as_slice()`"""
    apps = []
    while True:
        m = mask(text)
        mm = re.search(r"\.\s*to_le_bytes\s*\(\s*\)", m)
        if not mm:
            return text, apps
        rs = _receiver_start(m, mm.start())
        recv = text[rs:mm.start()].strip()
        a = rs
        k = rs - 1
        while k >= 0 and m[k].isspace():
            k -= 1
        if k >= 0 and m[k] == "&":
            a = k
        new = "%s.le_bytes().as_slice()" % recv
        apps.append(_app("R-le", text, a, mm.end(), new, "shim: little-endian bytes of the integer (std to_le_bytes), as a Vec"))
        text = text[:a] + new + text[mm.end():]


def rule_veczero(text):
    apps = []
    while True:
        m = mask(text)
        mm = re.search(r"\bvec!\s*\[\s*0\s*;", m)
        if not mm:
            return text, apps
        ob = m.index("[", mm.start())
        cb = match_close(m, ob)
        n = text[mm.end():cb].strip()
        new = "zeroed_vec(%s)" % n
        apps.append(_app("R-vec", text, mm.start(), cb + 1, new, "shim: vec![0u8; n]"))
        text = text[:mm.start()] + new + text[cb + 1:]


def rule_divceil(text):
    apps = []
    while True:
        m = mask(text)
        hit = None
        for dot, op, cl in _method_calls(text, m, "div_ceil"):
            rs = _receiver_start(m, dot)
            recv = text[rs:dot].strip()
            arg = text[op + 1:cl].strip()
            hit = (rs, cl + 1, "div_ceil_usize(%s, %s)" % (recv, arg))
            break
        if not hit:
            return text, apps
        a, b, new = hit
        apps.append(_app("R-div", text, a, b, new, "shim: ceil(a/b), requires b > 0"))
        text = text[:a] + new + text[b:]


def rule_allzero(text):
    apps = []
    while True:
        m = mask(text)
        mm = re.search(r"\.\s*iter\s*\(\s*\)\s*\.\s*all\s*\(", m)
        if not mm:
            return text, apps
        op = mm.end() - 1
        cl = match_close(m, op)
        parts = _closure_parts(text[op + 1:cl])
        if not parts or not re.fullmatch(r"\*\s*%s\s*==\s*0" % re.escape(parts[0]), parts[1].strip()):
            return text, apps
        rs = _receiver_start(m, mm.start())
        recv = text[rs:mm.start()].strip()
        new = "all_zero(%s)" % recv
        apps.append(_app("R-all", text, rs, cl + 1, new, "shim: every byte is 0"))
        text = text[:rs] + new + text[cl + 1:]


def rule_tryfrom(text):
    """`uN::try_from(E).map_err(|_| ERR)?` -> `(match E.try_uN() { Some(v_) => v_, None => return Err(ERR) })`"""
    apps = []
    while True:
        m = mask(text)
        hit = None
        for mm in re.finditer(r"\b(u32|usize|u64)\s*::\s*try_from\s*\(", m):
            op = mm.end() - 1
            cl = match_close(m, op)
            t = re.match(r"\s*\.\s*map_err\s*\(", m[cl + 1:])
            if not t:
                continue
            op2 = cl + 1 + t.end() - 1
            cl2 = match_close(m, op2)
            q = re.match(r"\s*\?", m[cl2 + 1:])
            if not q:
                continue
            parts = _closure_parts(text[op2 + 1:cl2])
            if not parts:
                continue
            e = text[op + 1:cl].strip()
            new = "(match (%s).try_%s() { Some(v_) => v_, None => return Err(%s) })" % (e, mm.group(1), parts[1])
            hit = (mm.start(), cl2 + 1 + q.end(), new)
            break
        if not hit:
            return text, apps
        a, b, new = hit
        apps.append(_app("R-tryfrom", text, a, b, new, "shim: checked integer narrowing (std TryFrom); map_err+? desugared"))
        text = text[:a] + new + text[b:]


def rule_sort_windows(text):
    apps = []
    m = mask(text)
    mm = re.search(r"(\w+)\s*\.\s*sort_unstable_by_key\s*\(", m)
    if mm:
        op = mm.end() - 1
        cl = match_close(m, op)
        parts = _closure_parts(text[op + 1:cl])
        if parts and re.fullmatch(r"%s\s*\.\s*0" % re.escape(parts[0]), parts[1].strip()):
            new = "sort_by_first(&mut %s)" % mm.group(1)
            apps.append(_app("R-sort", text, mm.start(), cl + 1, new, "shim: result is a permutation of the input sorted by .0"))
            text = text[:mm.start()] + new + text[cl + 1:]
    m = mask(text)
    mm = re.search(r"for\s+(\w+)\s+in\s+(\w+)\s*\.\s*windows\s*\(\s*2\s*\)\s*\{", m)
    if mm:
        p, v = mm.group(1), mm.group(2)
        new = "for wi_ in 0..windows2_len(%s.len()) { let %s = [%s[wi_], %s[wi_ + 1]];" % (v, p, v, v)
        apps.append(_app("R-sort", text, mm.start(), mm.end(), new, "definition of windows(2) over a slice"))
        text = text[:mm.start()] + new + text[mm.end():]
    return text, apps


def rule_journal_iters(text):
    """the two iterator one-liners of allocation_journal::decode"""
    apps = []
    m = mask(text)
    mm = re.search(r"(\w+)\s*\.\s*into_iter\s*\(\s*\)\s*\.\s*(max|min)_by_key\s*\(", m)
    if mm:
        op = mm.end() - 1
        cl = match_close(m, op)
        parts = _closure_parts(text[op + 1:cl])
        if parts and re.fullmatch(r"%s\s*\.\s*generation" % re.escape(parts[0]), parts[1].strip()):
            new = "%s_by_generation(%s)" % (mm.group(2), mm.group(1))
            apps.append(_app("R-maxk", text, mm.start(), cl + 1, new, "shim: an element with maximal generation, the LAST one on ties (std max_by_key)"))
            text = text[:mm.start()] + new + text[cl + 1:]
    m = mask(text)
    mm = re.search(r"(\w+)\s*\.\s*into_iter\s*\(\s*\)\s*\.\s*next_back\s*\(\s*\)", m)
    if mm:
        new = "vec_last(%s)" % mm.group(1)
        apps.append(_app("R-maxk", text, mm.start(), mm.end(), new, "shim: last element of the Vec, if any"))
        text = text[:mm.start()] + new + text[mm.end():]
    return text, apps


_COPY_VEC_CLONES = set()


def rule_vecclone(text):
    """`V.clone()` for a Vec of Copy elements named in UNIT['copy_vec_clones'] -> vec_clone_copy(&V)"""
    apps = []
    for v in sorted(_COPY_VEC_CLONES):
        while True:
            m = mask(text)
            mm = re.search(r"\b%s\s*\.\s*clone\s*\(\s*\)" % re.escape(v), m)
            if not mm:
                break
            new = "vec_clone_copy(&%s)" % v
            apps.append(_app("R-clone", text, mm.start(), mm.end(), new, "shim: Vec<T: Copy>::clone is element-wise copy"))
            text = text[:mm.start()] + new + text[mm.end():]
    return text, apps


def rule_minmax(text):
    """`A.min(B)` on integers -> min_u64(A, B)"""
    apps = []
    while True:
        m = mask(text)
        hit = None
        for dot, op, cl in _method_calls(text, m, "min"):
            rs = _receiver_start(m, dot)
            recv = text[rs:dot].strip()
            arg = text[op + 1:cl].strip()
            hit = (rs, cl + 1, "min_u64(%s, %s)" % (recv, arg))
            break
        if not hit:
            return text, apps
        a, b, new = hit
        apps.append(_app("R-min", text, a, b, new, "definition of Ord::min on u64"))
        text = text[:a] + new + text[b:]


def rule_for_ref(text):
    """`for &X in E {` over a slice -> `for i_ in 0..E.len() { let X = E[i_];`"""
    apps = []
    while True:
        m = mask(text)
        mm = re.search(r"for\s+&\s*(\w+)\s+in\s+(\w+)\s*\{", m)
        if not mm:
            return text, apps
        x, e = mm.group(1), mm.group(2)
        new = "for i_ in 0..%s.len() { let %s = %s[i_];" % (e, x, e)
        apps.append(_app("R-for", text, mm.start(), mm.end(), new, "definition of iterating a slice by reference pattern"))
        text = text[:mm.start()] + new + text[mm.end():]


def rule_opq_record(text):
    """R-opq for `record: &Record`: field reads / method calls -> accessor shims."""
    apps = []
    table = [
        (r"record\s*\.\s*ttl_expiry\s*\.\s*load\s*\(\s*Ordering::Acquire\s*\)", "rec_expiry(record)"),
        (r"record\s*\.\s*value\s*\.\s*read\s*\(\s*\)\s*\.\s*as_ref\s*\(\s*\)", "rec_value(record)"),
        (r"record\s*\.\s*get_value\s*\(\s*\)", "rec_get_value(record)"),
        (r"&\s*record\s*\.\s*key\b(?!\s*\.)", "rec_key(record).as_slice()"),
        (r"record\s*\.\s*key\b", "rec_key(record)"),
        (r"record\s*\.\s*value_len\b", "rec_value_len(record)"),
        (r"record\s*\.\s*timestamp\b", "rec_timestamp(record)"),
    ]
    for pat, rep in table:
        while True:
            m = mask(text)
            mm = re.search(pat, m)
            if not mm:
                break
            apps.append(_app("R-opq", text, mm.start(), mm.end(), rep, "accessor shim = the field read / method call it names (A11)"))
            text = text[:mm.start()] + rep + text[mm.end():]
    return text, apps


def rule_resize(text):
    apps = []
    while True:
        m = mask(text)
        mm = re.search(r"(\w+)\s*\.\s*resize\s*\(", m)
        if not mm:
            return text, apps
        op = mm.end() - 1
        cl = match_close(m, op)
        new = "vec_resize_u8(&mut %s, %s)" % (mm.group(1), text[op + 1:cl].strip())
        apps.append(_app("R-vec", text, mm.start(), cl + 1, new, "shim: Vec<u8>::resize"))
        text = text[:mm.start()] + new + text[cl + 1:]


def rule_sig_dyn_format(text):
    """signature rule: `&dyn RecordFormat` -> `&impl RecordFormat` (static instead of dynamic dispatch)"""
    apps = []
    m = mask(text)
    mm = re.search(r"&\s*dyn\s+RecordFormat\b", m)
    if mm:
        new = "&impl RecordFormat"
        apps.append(_app("R-dyn", text, mm.start(), mm.end(), new, "static dispatch instead of a trait object; same method is called"))
        text = text[:mm.start()] + new + text[mm.end():]
    return text, apps


# ---------------------------------------------------------------- scan-loop unit rules
def rule_boolthen(text):
    """`C.then(|| E)` -> `(if C { Some(E) } else { None })`"""
    apps = []
    while True:
        m = mask(text)
        hit = None
        for dot, op, cl in _method_calls(text, m, "then"):
            parts = _closure_parts(text[op + 1:cl])
            if not parts or parts[0] != "":
                continue
            rs = _receiver_start(m, dot)
            recv = text[rs:dot].strip()
            hit = (rs, cl + 1, "(if %s { Some(%s) } else { None })" % (recv, parts[1]))
            break
        if not hit:
            # `C.then_some(E)` with E a plain place (identifier / field path): eager evaluation of E is unobservable
            for dot, op, cl in _method_calls(text, m, "then_some"):
                arg = text[op + 1:cl].strip()
                if not re.fullmatch(r"[\w.]+(\s+as\s+\w+)?", arg):
                    continue
                rs = _receiver_start(m, dot)
                recv = text[rs:dot].strip()
                hit = (rs, cl + 1, "(if %s { Some(%s) } else { None })" % (recv, arg))
                break
        if not hit:
            return text, apps
        a, b, new = hit
        apps.append(_app("R-then", text, a, b, new, "definition of bool::then / bool::then_some"))
        text = text[:a] + new + text[b:]


def rule_oissome(text):
    return _option_closure_rule(
        text, "is_some_and", "R-oissome",
        lambda e, p, b: "(match %s { Some(%s) => %s, None => false })" % (e, p, b),
        "definition of Option::is_some_and")


def rule_getcopy(text):
    """`Some(&PAT) = E.get(I)` -> `Some(PAT) = get_copied(&E, I)`"""
    apps = []
    while True:
        m = mask(text)
        mm = re.search(r"Some\s*\(\s*&\s*(\([^()]*\))\s*\)\s*=\s*(\w+)\s*\.\s*get\s*\(", m)
        if not mm:
            return text, apps
        op = mm.end() - 1
        cl = match_close(m, op)
        new = "Some(%s) = get_copied(&%s, %s)" % (text[mm.start(1):mm.end(1)], mm.group(2), text[op + 1:cl].strip())
        apps.append(_app("R-getcopy", text, mm.start(), cl + 1, new, "Vec::get + a by-reference tuple pattern over Copy fields = the element by value"))
        text = text[:mm.start()] + new + text[cl + 1:]


def rule_hread(text):
    """`X.hash_table.read(&K, |_, record| Arc::clone(record))` -> `X.hash_table.read_arc(&K)`"""
    apps = []
    while True:
        m = mask(text)
        hit = None
        for dot, op, cl in _method_calls(text, m, "read"):
            args = split_top_level(m[op + 1:cl], text[op + 1:cl], ",")
            if len(args) < 2:
                continue
            args = [args[0], ",".join(args[1:])]   # the closure's own parameter list has commas
            parts = _closure_parts(args[1])
            if not parts or not re.fullmatch(r"_\s*,\s*(\w+)", parts[0]):
                continue
            r = re.fullmatch(r"_\s*,\s*(\w+)", parts[0]).group(1)
            if not re.fullmatch(r"Arc\s*::\s*clone\s*\(\s*%s\s*\)" % r, parts[1].strip()):
                continue
            hit = (dot, cl + 1, ".read_arc(%s)" % args[0].strip())
            break
        if not hit:
            return text, apps
        a, b, new = hit
        apps.append(_app("R-hread", text, a, b, new, "shim: the lookup closure only clones the Arc it is handed"))
        text = text[:a] + new + text[b:]


def rule_chunks(text):
    """`S.chunks_exact(N).enumerate().all(|(I, T)| BODY)` -> `chunks_all(S, N, |I: usize, T: &[u8]| BODY)`"""
    apps = []
    while True:
        m = mask(text)
        hit = None
        for dot, op, cl in _method_calls(text, m, "all"):
            pre = m[:dot].rstrip()
            t = re.search(r"\.\s*chunks_exact\s*\(", pre)
            if not pre.endswith(".enumerate()") and not re.search(r"\.\s*enumerate\s*\(\s*\)$", pre):
                continue
            # the chunks_exact call right before .enumerate()
            calls = [c for c in _method_calls(text, m, "chunks_exact") if c[2] < dot]
            if not calls:
                continue
            cdot, cop, ccl = max(calls, key=lambda c: c[0])
            if not re.fullmatch(r"\s*\.\s*enumerate\s*\(\s*\)\s*", m[ccl + 1:dot]):
                continue
            parts = _closure_parts(text[op + 1:cl])
            if not parts:
                continue
            pm = re.fullmatch(r"\(\s*(\w+)\s*,\s*(\w+)\s*\)", parts[0])
            if not pm:
                continue
            rs = _receiver_start(m, cdot)
            recv = text[rs:cdot].strip()
            n = text[cop + 1:ccl].strip()
            hit = (rs, cl + 1, "chunks_all(%s, %s, |%s: usize, %s: &[u8]| %s)" % (recv, n, pm.group(1), pm.group(2), parts[1]))
            break
        if not hit:
            return text, apps
        a, b, new = hit
        apps.append(_app("R-chunks", text, a, b, new, "shim: definition of chunks_exact + enumerate + all (whole chunks only, in order)"))
        text = text[:a] + new + text[b:]


def rule_visitcrc(text):
    """`S.visit_blocks(A, N, |_, T| { C = crc32c(C, T); true })` -> `S.visit_blocks_crc(A, N, &mut C)`
    (Verus has no closures that capture by mutable reference)"""
    apps = []
    while True:
        m = mask(text)
        hit = None
        for dot, op, cl in _method_calls(text, m, "visit_blocks"):
            args = split_top_level(m[op + 1:cl], text[op + 1:cl], ",")
            if len(args) < 3:
                continue
            args = [args[0], args[1], ",".join(args[2:]).strip().rstrip(",")]
            parts = _closure_parts(args[2])
            if not parts:
                continue
            pm = re.fullmatch(r"_\s*,\s*(\w+)", parts[0])
            if not pm:
                continue
            bm = re.fullmatch(r"\{\s*(\w+)\s*=\s*crc32c\s*\(\s*(\w+)\s*,\s*(\w+)\s*\)\s*;\s*true\s*\}", parts[1].strip())
            if not bm or bm.group(1) != bm.group(2) or bm.group(3) != pm.group(1):
                continue
            hit = (dot, cl + 1, ".visit_blocks_crc(%s, %s, &mut %s)" % (args[0].strip(), args[1].strip(), bm.group(1)))
            break
        if not hit:
            return text, apps
        a, b, new = hit
        apps.append(_app("R-visitcrc", text, a, b, new,
                         "shim with visit_blocks' verified contract: the visitor folds crc32c over every chunk and never stops the walk"))
        text = text[:a] + new + text[b:]


# ---------------------------------------------------------------- write-batch unit rules
_FORVEC = set()


def rule_forvec(text):
    """`for X in V {` over a Vec moved in (V named in UNIT['forvec']) ->
    `let mut V_q_ = VecQueue::new(V); while let Some(X) = V_q_.pop_front() {`"""
    apps = []
    for v in sorted(_FORVEC):
        while True:
            m = mask(text)
            mm = re.search(r"for\s+(\w+|\([\w\s,]*\))\s+in\s+%s\s*\{" % re.escape(v), m)
            if not mm:
                break
            new = "let mut %s_q_ = VecQueue::new(%s); while let Some(%s) = %s_q_.pop_front() {" % (v, v, mm.group(1), v)
            apps.append(_app("R-forvec", text, mm.start(), mm.end(), new, "shim: by-value iteration of a Vec = popping its elements front to back"))
            text = text[:mm.start()] + new + text[mm.end():]
    return text, apps


def rule_eprint(text):
    """`eprintln!(...);` statements are dropped (logging only)"""
    apps = []
    while True:
        m = mask(text)
        mm = re.search(r"\beprintln!\s*\(", m)
        if not mm:
            return text, apps
        cl = match_close(m, mm.end() - 1)
        end = cl + 1
        t = re.match(r"\s*;", m[end:])
        if t:
            end += t.end()
        apps.append(_app("R-eprint", text, mm.start(), end, "", "dropped: a log line on stderr"))
        text = text[:mm.start()] + text[end:]


def rule_extend(text):
    """`A.extend(B.drain(..).map(|write| write.entry))` -> `B.drain_entries_into(&mut A)`;
    `A.extend(V)` with V an identifier -> `vec_extend(&mut A, V)`"""
    apps = []
    while True:
        m = mask(text)
        hit = None
        for dot, op, cl in _method_calls(text, m, "extend"):
            rs = _receiver_start(m, dot)
            recv = text[rs:dot].strip()
            arg = text[op + 1:cl].strip()
            if not re.fullmatch(r"\w+", recv):
                continue
            dm = re.fullmatch(r"(\w+)\s*\.\s*drain\s*\(\s*\.\.\s*\)\s*\.\s*map\s*\(\s*\|\s*(\w+)\s*\|\s*(\w+)\s*\.\s*entry\s*\)", arg)
            if dm and dm.group(2) == dm.group(3):
                hit = (rs, cl + 1, "%s.drain_entries_into(&mut %s)" % (dm.group(1), recv),
                       "shim: drain(..) + map to the entry + extend = move every entry over, in order, leaving the source empty")
                break
            if re.fullmatch(r"\w+", arg):
                hit = (rs, cl + 1, "vec_extend(&mut %s, %s)" % (recv, arg), "shim: Vec::extend with a Vec moved in = append its elements in order")
                break
        if not hit:
            return text, apps
        a, b, new, tr = hit
        apps.append(_app("R-extend", text, a, b, new, tr))
        text = text[:a] + new + text[b:]


def rule_sumext(text):
    """`G.iter().map(|entry| format_extent_size(entry, format) as u64).sum::<u64>()` -> `sum_extent_sizes(G, format)`"""
    apps = []
    m = mask(text)
    mm = re.search(r"(\w+)\s*\.\s*iter\s*\(\s*\)\s*\.\s*map\s*\(\s*\|\s*(\w+)\s*\|\s*format_extent_size\s*\(\s*(\w+)\s*,\s*format\s*\)\s*as\s+u64\s*\)\s*\.\s*sum\s*::\s*<\s*u64\s*>\s*\(\s*\)", m)
    if mm and mm.group(2) == mm.group(3):
        new = "sum_extent_sizes(%s, format)" % mm.group(1)
        apps.append(_app("R-sum", text, mm.start(), mm.end(), new, "shim: Iterator::sum of the mapped extent sizes (wrapping excluded by its precondition)"))
        text = text[:mm.start()] + new + text[mm.end():]
    return text, apps


def rule_sig_wb(text):
    """signature rule for the write-batch unit: lock-wrapped handles and the trait object become the opaque handles"""
    apps = []
    table = [
        (r"&\s*dyn\s+RecordFormat\b", "&FormatAny", "one opaque handle for FormatV1/FormatV2"),
        (r"&\s*Arc\s*<\s*RwLock\s*<\s*FreeSpaceManager\s*>\s*>", "&FreeSpaceLock", "lock handle; write() yields the manager"),
        (r"&\s*Arc\s*<\s*RwLock\s*<\s*DiskIO\s*>\s*>", "&DiskLock", "lock handle; write() yields the device"),
        (r"&\s*Arc\s*<\s*Statistics\s*>", "&Statistics", "Arc dropped"),
    ]
    for pat, rep, why in table:
        while True:
            m = mask(text)
            mm = re.search(pat, m)
            if not mm:
                break
            apps.append(_app("R-handle", text, mm.start(), mm.end(), rep, why))
            text = text[:mm.start()] + rep + text[mm.end():]
    return text, apps


def rule_sortsec(text):
    """`V.sort_unstable_by_key(|entry| entry.record.sector.load(Ordering::Acquire))` -> `sort_by_sector(&mut V)`"""
    apps = []
    m = mask(text)
    mm = re.search(r"(\w+)\s*\.\s*sort_unstable_by_key\s*\(", m)
    if mm:
        op = mm.end() - 1
        cl = match_close(m, op)
        parts = _closure_parts(text[op + 1:cl])
        if parts and re.fullmatch(r"%s\s*\.\s*record\s*\.\s*sector\s*\.\s*load\s*\(\s*Ordering::Acquire\s*\)" % re.escape(parts[0]), parts[1].strip()):
            new = "sort_by_sector(&mut %s)" % mm.group(1)
            apps.append(_app("R-sort", text, mm.start(), cl + 1, new, "shim: the result is a permutation of the input (its order is not relied on)"))
            text = text[:mm.start()] + new + text[cl + 1:]
    return text, apps


def rule_wbmisc(text):
    """write-batch one-offs: Bytes::from(mem::take(&mut X)); X.extend(V.drain(..)); the retry backoff block"""
    apps = []
    table = [
        (r"Bytes\s*::\s*from\s*\(\s*std\s*::\s*mem\s*::\s*take\s*\(\s*&mut\s+([\w.]+)\s*\)\s*\)", r"bytes_take(&mut \1)", "R-bytes",
         "shim: mem::take leaves an empty Vec, Bytes::from wraps the taken bytes"),
        (r"std\s*::\s*mem\s*::\s*take\s*\(\s*&mut\s+([\w.]+)\s*\)", r"vec_take_all(&mut \1)", "R-take",
         "shim: mem::take on a Vec returns its elements and leaves it empty"),
        (r"\.\s*extend\s*\(\s*(\w+)\s*\.\s*drain\s*\(\s*\.\.\s*\)\s*\)", r".extend_drained(&mut \1)", "R-extend",
         "shim: every drained element moves into the receiver, the source is left empty"),
        (r"let\s+jitter\s*=\s*\{\s*use\s+rand::Rng;\s*let\s+mut\s+rng\s*=\s*rand::rng\(\);\s*\(\s*delay_us\s*\*\s*rng\.random_range\(\s*-10\s*\.\.=\s*10\s*\)\s*\)\s*/\s*100\s*\}\s*;",
         "let jitter = backoff_jitter(delay_us);", "R-backoff", "shim: a pseudo-random jitter within +-10 % of the delay"),
        (r"\(\s*delay_us\s*\+\s*jitter\s*\)\s*\.\s*max\s*\(\s*1\s*\)", "max_i32(delay_us + jitter, 1)", "R-min", "definition of Ord::max on i32"),
        (r"std\s*::\s*io\s*::\s*Error\s*::\s*other\s*\(\s*\"[^\"]*\"\s*,?\s*\)", "io_error_other()", "R-ioerr", "shim: an opaque std::io::Error (only the variant matters)"),
        (r"std\s*::\s*sync\s*::\s*atomic\s*::\s*fence\s*\(", "atomic_fence(", "R-fence", "shim: a memory fence has no sequential effect (A3)"),
        (r"(\w+)\s*\.\s*iter\s*\(\s*\)\s*\.\s*map\s*\(\s*\|\s*write\s*\|\s*\{\s*\(\s*write\s*\.\s*sector\s*\.\s*expect\s*\(\s*\"[^\"]*\"\s*\)\s*,\s*write\s*\.\s*sectors_needed\s*,?\s*\)\s*\}\s*\)\s*\.\s*collect\s*::\s*<\s*Vec\s*<\s*_\s*>\s*>\s*\(\s*\)",
         r"journal_extents_of(&\1)", "R-collect", "shim: iter + map + collect = the (sector, length) pair of every prepared write, in order; `expect` becomes the shim's precondition"),
        (r"thread\s*::\s*sleep\s*\(\s*Duration\s*::\s*from_micros\s*\(\s*([^()]*)\)\s*\)", r"sleep_micros(\1)", "R-backoff", "shim: sleeping changes no program state"),
    ]
    for pat, rep, rname, why in table:
        while True:
            mm = re.search(pat, text)
            if not mm:
                break
            new = mm.expand(rep)
            apps.append(_app(rname, text, mm.start(), mm.end(), new, why))
            text = text[:mm.start()] + new + text[mm.end():]
    return text, apps


def rule_updmisc(text):
    """update-path one-offs: std::ptr::eq(a, b.as_ref()); `Some(ref x) = E`; value.to_vec()"""
    apps = []
    table = [
        (r"\bexpired\s*\+=\s*1\s*;", "expired = count_up(expired);", "R-count", "a u64 progress counter incremented once per expired key: treated as non-overflowing (2^64 keys are unreachable)"),
        (r"let\s+_\s*=\s*(\(?\w+\)?)\s*\.\s*stats\s*\.\s*keys_with_ttl\s*\.\s*fetch_update\s*\(\s*Ordering::\w+\s*,\s*Ordering::\w+\s*,\s*\|(\w+)\|\s*\{?\s*Some\(\2\.saturating_sub\(([^()]+|\([^()]*\))\)\)\s*\}?\s*,?\s*\)\s*;",
         r"\1.stats.keys_with_ttl.saturating_dec((\3) as u64);", "R-atom", "shim: fetch_update with a saturating_sub closure = a saturating decrement of the (approximate) TTL key counter"),
        (r"std\s*::\s*ptr\s*::\s*eq\s*\(\s*(\w+)\s*,\s*(\w+)\s*\.\s*as_ref\s*\(\s*\)\s*\)", r"record_ptr_eq(\1, &\2)", "R-ptreq", "shim: pointer identity (an opaque boolean)"),
        (r"Some\s*\(\s*ref\s+(\w+)\s*\)\s*=\s*([\w.]+)\s*\{", r"Some(\1) = \2.as_ref() {", "R-refpat", "`Some(ref x) = e` binds a reference into e: same as matching e.as_ref()"),
        (r"\b(value|key|new_value)\s*\.\s*to_vec\s*\(\s*\)", r"slice_to_vec_u8(\1)", "R-vec", "shim: <[u8]>::to_vec copies the bytes"),
        (r"Arc\s*::\s*ptr_eq\s*\(", "arc_ptr_eq(", "R-ptreq", "shim: pointer identity of two Arcs (an opaque relation)"),
        (r"std\s*::\s*time\s*::\s*Instant\s*::\s*now\s*\(\s*\)", "instant_now()", "R-instant", "shim: reading the monotonic clock for latency statistics"),
        (r"(\w+)\s*\.\s*elapsed\s*\(\s*\)\s*\.\s*as_nanos\s*\(\s*\)\s*as\s+u64", r"elapsed_nanos(&\1)", "R-instant", "shim: elapsed nanoseconds for latency statistics"),
        (r"(self\s*\.\s*write_buffer)\s*\.\s*as_ref\s*\(\s*\)\s*\.\s*filter\s*\(\s*\|\s*_\s*\|\s*([^()|]*?)\s*\)\s*\.\s*map\s*\(\s*\|\s*_\s*\|\s*(Arc::clone\(&\w+\))\s*\)",
         r"(if \1.is_some() && \2 { Some(\3) } else { None })", "R-optgate", "definition of Option::filter + Option::map with closures that ignore their argument"),
        (r"(?:#\[cfg\(test\)\]\s*)?crate\s*::\s*test_hooks\s*::\s*pause_at\s*\([^()]*\)\s*;", "", "R-hook", "dropped: test-only pause hook"),
        (r"let\s+mut\s+rng\s*=\s*rand\s*::\s*rng\s*\(\s*\)\s*;", "let mut rng = rng_handle();", "R-rng", "shim: the thread-local random generator (used only to pick sample candidates)"),
        (r"\.\s*read\s*\(\s*key\s*,\s*\|\s*_\s*,\s*v\s*\|\s*v\s*\.\s*clone\s*\(\s*\)\s*\)", ".read_arc(key)", "R-hread", "shim: the lookup closure only clones the Arc it is handed"),
    ]
    for pat, rep, rname, why in table:
        while True:
            mm = re.search(pat, text)
            if not mm:
                break
            new = mm.expand(rep)
            apps.append(_app(rname, text, mm.start(), mm.end(), new, why))
            text = text[:mm.start()] + new + text[mm.end():]
    return text, apps


def rule_sig_upd(text):
    """signature rule for the store-ops unit"""
    apps = []
    mm = re.search(r"std\s*::\s*time\s*::\s*Instant", text)
    if mm:
        apps.append(_app("R-handle", text, mm.start(), mm.end(), "InstantH", "opaque handle for std::time::Instant"))
        text = text[:mm.start()] + "InstantH" + text[mm.end():]
    # entry-API and reservation types in the signature of a helper pulled in by auto-fn
    for pat, rep, why in ((r"(?:scc\s*::\s*hash_map\s*::\s*)?(Vacant|Occupied)Entry\s*<[^()]*?RandomState\s*>", r"\1Entry", "opaque entry handle (generic parameters dropped)"),
                          (r"MemoryReservation\s*<\s*'_\s*>", "MemoryReservation", "lifetime parameter dropped")):
        while True:
            mm = re.search(pat, text)
            if not mm:
                break
            new_ = mm.expand(rep)
            apps.append(_app("R-handle", text, mm.start(), mm.end(), new_, why))
            text = text[:mm.start()] + new_ + text[mm.end():]
    return text, apps


def rule_flushmisc(text):
    """force_flush one-offs"""
    apps = []
    # (0..N).filter(PRED).collect()  ->  some subset of 0..N (the predicate is abstracted away: sound over-approximation)
    while True:
        mk = mask(text)
        mm = re.search(r"\(\s*0\s*\.\.\s*([\w.]+\(\))\s*\)\s*\.\s*filter\s*\(", mk)
        if not mm:
            break
        cl = match_close(mk, mm.end() - 1)
        t = re.match(r"\s*\.\s*collect\s*(?:::\s*<[^>]*>\s*)?\(\s*\)", mk[cl + 1:])
        if not t:
            break
        new_ = "range_vec_subset(%s)" % mm.group(1)
        apps.append(_app("R-rangevec", text, mm.start(), cl + 1 + t.end(), new_,
                         "over-approximation: collecting a FILTERED range yields some ascending subset of the indices; the predicate is not modelled (obligations that need every index then fail)"))
        text = text[:mm.start()] + new_ + text[cl + 1 + t.end():]
    table = [
        (r"\(\s*0\s*\.\.\s*([\w.]+\(\))\s*\)\s*\.\s*collect\s*\(\s*\)", r"range_vec(\1)", "R-rangevec", "shim: collecting 0..n into a Vec"),
        (r"for\s+(\w+)\s+in\s+(\w+)\s*\.\s*drain\s*\(\s*\.\.\s*\)\s*\{", r"let mut \2_q_ = VecQueue::new(vec_take_all(&mut \2)); while let Some(\1) = \2_q_.pop_front() {", "R-drainall", "shim: a full drain consumed by the loop = all elements in order, source left empty"),
        (r"\.\s*map_err\s*\(\s*\|\s*_\s*\|\s*(FeoxError::\w+)\s*\)\s*\?\s*;", r".is_ok() || { return Err(\1); };", "R-maperr", "map_err with a constant error + `?` on a unit Result = return that error on failure"),
        (r"thread\s*::\s*sleep\s*\(\s*Duration\s*::\s*from_micros\s*\(\s*([^()]*)\)\s*\)", r"sleep_micros(\1)", "R-backoff", "shim: sleeping changes no program state"),
    ]
    for pat, rep, rname, why in table:
        while True:
            mm = re.search(pat, text)
            if not mm:
                break
            new = mm.expand(rep)
            apps.append(_app(rname, text, mm.start(), mm.end(), new, why))
            text = text[:mm.start()] + new + text[mm.end():]
    return text, apps


def rule_workermisc(text):
    """flush_worker_shards one-offs"""
    apps = []
    table = [
        (r"for\s+(\w+)\s+in\s+\(\s*([\w.]+(?:\s*[+\-*]\s*[\w.]+)?)\s*\.\.\s*([\w.]+\(\))\s*\)\s*\.\s*step_by\s*\(\s*([\w.]+(?:\s*[+\-*]\s*[\w.]+)?)\s*\)\s*\{",
         r"let mut \1_next_ = \2; while \1_next_ < \3 { let \1 = \1_next_; \1_next_ = step_next(\1_next_, \4);", "R-stepby",
         "definition of (a..b).step_by(s) as a counting loop (Verus for-loops have no `continue`)"),
        (r"let\s+mut\s+(\w+)\s*=\s*\1\s*\.\s*into_iter\s*\(\s*\)\s*;", r"let mut \1 = VecQueue::new(\1);", "R-iterq", "shim: a by-value Vec iterator = a queue of the remaining elements"),
        (r"(\w+)\s*\.\s*by_ref\s*\(\s*\)\s*\.\s*take\s*\(\s*(\w+)\s*\)\s*\.\s*collect\s*::\s*<\s*Vec\s*<\s*_\s*>\s*>\s*\(\s*\)", r"\1.take_batch(\2)", "R-iterq",
         "shim: by_ref().take(n).collect() = the next min(n, len) elements"),
        (r"(\w+)\s*\.\s*extend\s*\(\s*entries\s*\)", r"vec_extend(&mut \1, entries.into_rest())", "R-iterq", "shim: extending with the iterator = appending what is left of it, in order"),
        (r"(\w+)\s*\|=\s*([^;,]+);", r"let or_ = \2; \1 = \1 || or_;", "R-oreq", "`a |= b` on bools with b evaluated first = `a = a || b`"),
        (r"(\w+)\s*\|=\s*([^;,]+),", r"{ let or_ = \2; \1 = \1 || or_; },", "R-oreq", "`a |= b` on bools with b evaluated first = `a = a || b`"),
    ]
    for pat, rep, rname, why in table:
        while True:
            mm = re.search(pat, text)
            if not mm:
                break
            new = mm.expand(rep)
            apps.append(_app(rname, text, mm.start(), mm.end(), new, why))
            text = text[:mm.start()] + new + text[mm.end():]
    return text, apps


def rule_cachemisc(text):
    """cache unit one-offs"""
    apps = []
    table = [
        (r"std\s*::\s*ptr\s*::\s*eq\s*\(\s*(\w+)\s*\.\s*as_ptr\s*\(\s*\)\s*,\s*Arc\s*::\s*as_ptr\s*\(\s*(\w+)\s*\)\s*\)", r"weak_is(\1, \2)", "R-genid",
         "shim: pointer identity of a Weak and an Arc = same generation id"),
        (r"(\w+)\s*\.\s*map\s*\(\s*Arc\s*::\s*downgrade\s*\)", r"downgrade_opt(\1)", "R-genid", "shim: Option<&Arc>::map(Arc::downgrade) keeps the generation id"),
        (r"std\s*::\s*mem\s*::\s*size_of\s*::\s*<\s*CacheEntry\s*>\s*\(\s*\)", "cache_entry_overhead()", "R-sizeof", "shim: the fixed per-entry overhead, an unknown constant <= 1024"),
        (r"(\w+)\s*\.\s*key\s*!=\s*key\b", r"!key_eq(&\1.key, &key)", "R-seq", "shim: byte-wise comparison of the stored key with the probe"),
        (r"(\w+)\s*\.\s*key\s*==\s*key\b", r"key_eq(&\1.key, &key)", "R-seq", "shim: byte-wise comparison of the stored key with the probe"),
        (r"for\s+(\w+)\s+in\s+(\w+)\s*\.\s*iter_mut\s*\(\s*\)\s*\{", r"let mut \1_i_: usize = 0; while \1_i_ < \2.len() { let \1 = &mut \2[\1_i_]; \1_i_ = \1_i_ + 1;", "R-foriter",
         "definition of iterating a Vec by mutable reference as an index loop"),
        (r"for\s+(\w+)\s+in\s+(\w+)\s*\.\s*iter\s*\(\s*\)\s*\{", r"let mut \1_i_: usize = 0; while \1_i_ < \2.len() { let \1 = &\2[\1_i_]; \1_i_ = \1_i_ + 1;", "R-foriter",
         "definition of iterating a Vec by reference as an index loop (Verus for-loops have no `continue`)"),
        (r"for\s+_\s+in\s+0\s*\.\.\s*(\w+)\s*\{", r"let mut pass_i_: usize = 0; while pass_i_ < \1 { pass_i_ = pass_i_ + 1;", "R-foriter", "definition of a counted loop (Verus for-loops have no `break`)"),
        (r"(\w+)\s*\.\s*wrapping_add\s*\(\s*1\s*\)", r"wrapping_inc(\1)", "R-wrap", "definition of usize::wrapping_add(1)"),
        (r"self\s*\.\s*stats\s*\.\s*as_ref\s*\(\s*\)", "&self.stats", "R-handle", "Arc<Statistics>::as_ref() is a reference to the statistics"),
        (r"#\[cfg\(test\)\]\s*crate\s*::\s*test_hooks\s*::\s*pause_at\s*\([^;]*\)\s*;", "", "R-cfg", "dropped: a test-only pause point (not compiled outside tests)"),
        (r"for\s+(\w+)\s+in\s+&\s*self\s*\.\s*(\w+)\s*\{", r"let mut \1_i_: usize = 0; while \1_i_ < self.\2.len() { let \1 = &self.\2[\1_i_]; \1_i_ = \1_i_ + 1;", "R-foriter",
         "definition of iterating a Vec field by reference as an index loop"),
        (r"(\w+)\s*\.\s*iter\s*\(\s*\)\s*\.\s*map\s*\(\s*\|\s*(\w+)\s*\|\s*\2\s*\.\s*size\s*\)\s*\.\s*sum\s*(?:::\s*<\s*usize\s*>\s*)?\(\s*\)", r"sum_entry_sizes(&\1)", "R-sum",
         "shim: the summed sizes of the entries (spec total_size); the sum is assumed not to overflow usize"),
    ]
    for pat, rep, rname, why in table:
        while True:
            mm = re.search(pat, text)
            if not mm:
                break
            new = mm.expand(rep)
            apps.append(_app(rname, text, mm.start(), mm.end(), new, why))
            text = text[:mm.start()] + new + text[mm.end():]
    return text, apps


def rule_oisnoneor(text):
    return _option_closure_rule(
        text, "is_none_or", "R-oissome",
        lambda e, p, b: "(match %s { Some(%s) => %s, None => true })" % (e, p, b),
        "definition of Option::is_none_or")


def rule_sig_cache(text):
    apps = []
    while True:
        mm = re.search(r"Weak\s*<\s*Record\s*>", text)
        if not mm:
            break
        apps.append(_app("R-handle", text, mm.start(), mm.end(), "WeakRec", "opaque handle for Weak<Record> (generation id)"))
        text = text[:mm.start()] + "WeakRec" + text[mm.end():]
    return text, apps


def rule_position(text):
    """`V.iter().position(|X| BODY)` -> a first-match index loop (BODY verbatim)"""
    apps = []
    k = 0
    while True:
        m = mask(text)
        hit = None
        for dot, op, cl in _method_calls(text, m, "position"):
            pre = m[:dot].rstrip()
            mm = re.search(r"(\w+)\s*\.\s*iter\s*\(\s*\)$", pre)
            if not mm:
                continue
            parts = _closure_parts(text[op + 1:cl])
            if not parts or not re.fullmatch(r"\w+", parts[0]):
                continue
            v, x, body = mm.group(1), parts[0], parts[1]
            k += 1
            new = ("{ let mut pos_: Option<usize> = None; let mut pi_: usize = 0; while pi_ < %s.len() && pos_.is_none() { let %s = &%s[pi_]; if %s { pos_ = Some(pi_); } pi_ = pi_ + 1; } pos_ }"
                   % (v, x, v, body))
            hit = (mm.start(1), cl + 1, new)
            break
        if not hit:
            return text, apps
        a, b, new = hit
        apps.append(_app("R-position", text, a, b, new, "definition of Iterator::position over a Vec: the first index whose element satisfies the predicate"))
        text = text[:a] + new + text[b:]


def _method_to_fn(text, name, fname, rname, why, nargs=None):
    """`RECV.name(ARGS)` -> `fname(RECV, ARGS)` (receiver and arguments verbatim), innermost first"""
    apps = []
    while True:
        m = mask(text)
        calls = _method_calls(text, m, name)
        if not calls:
            return text, apps
        dot, op, cl = calls[0]          # last occurrence in the text first: inner calls of an argument come before the outer one
        a = _receiver_start(m, dot)
        recv = text[a:dot].strip()
        args = text[op + 1:cl].strip()
        new = "%s(%s%s)" % (fname, recv, (", " + args) if args else "")
        apps.append(_app(rname, text, a, cl + 1, new, why))
        text = text[:a] + new + text[cl + 1:]


def rule_ttlmisc(text):
    """ttl-path one-offs: Option::flatten / or_else, u64::max, saturating arithmetic"""
    apps = []
    text, a = _option_closure_free(text, "flatten", "R-oflatten", lambda e: "(match %s { Some(x_) => x_, None => None })" % e, "definition of Option::flatten")
    apps += a
    # E.or_else(|| X)
    while True:
        m = mask(text)
        hit = None
        for dot, op, cl in _method_calls(text, m, "or_else"):
            parts = _closure_parts(text[op + 1:cl])
            if not parts or parts[0] != "":
                continue
            a0 = _receiver_start(m, dot)
            e = text[a0:dot].strip()
            new = "(match %s { Some(v_) => Some(v_), None => %s })" % (e, parts[1])
            hit = (a0, cl + 1, new)
            break
        if not hit:
            break
        apps.append(_app("R-oorelse", text, hit[0], hit[1], hit[2], "definition of Option::or_else with a closure without parameters"))
        text = text[:hit[0]] + hit[2] + text[hit[1]:]
    for name, fname, why in (("saturating_mul", "sat_mul_u64", "definition of u64::saturating_mul (verified shim)"),
                             ("saturating_add", "sat_add_u64", "definition of u64::saturating_add (verified shim)"),
                             ("max", "max_u64", "definition of Ord::max on u64 (verified shim)")):
        text, a = _method_to_fn(text, name, fname, "R-arith", why)
        apps += a
    return text, apps


def _option_closure_free(text, method, rname, build, why):
    apps = []
    while True:
        m = mask(text)
        hit = None
        for dot, op, cl in _method_calls(text, m, method):
            if text[op + 1:cl].strip():
                continue
            a0 = _receiver_start(m, dot)
            hit = (a0, cl + 1, build(text[a0:dot].strip()))
            break
        if not hit:
            return text, apps
        apps.append(_app(rname, text, hit[0], hit[1], hit[2], why))
        text = text[:hit[0]] + hit[2] + text[hit[1]:]


def rule_readmisc(text):
    """read-path one-offs"""
    apps = []
    table = [
        (r"(\w+)\s*\.\s*acquire_extent\s*\(\s*\)", r"acquire_extent_of(&\1)", "R-pin", "shim: Record::acquire_extent with the receiver made explicit (the pin token names its generation)"),
        (r"\.\s*ok_or_else\s*\(\s*\|\s*\|\s*\{\s*FeoxError\s*::\s*IoError\s*\(\s*io\s*::\s*Error\s*::\s*new\s*\([^()]*\)\s*\)\s*\}\s*\)", ".ok_or(no_disk_io_error())", "R-ioerr",
         "ok_or_else with a closure that only builds an opaque IoError"),
        (r"\.\s*filter\s*\(\s*\|\s*(\w+)\s*\|\s*\*\1\s*<=\s*([^()|]*?(?:\(\))?)\s*\)", None, "R-ofilt", "definition of Option::filter (the closure only dereferences its argument)"),
        (r"Bytes\s*::\s*copy_from_slice\s*\(\s*&\s*(\w+)\s*\[\s*(\w+)\s*\.\.\s*(\w+)\s*\]\s*\)", r"bytes_copy_range(&\1, \2, \3)", "R-bytes", "shim: a copy of the sub-slice"),
        (r"Bytes\s*::\s*from\s*\(\s*(\w+)\s*\)\s*\.\s*slice\s*\(\s*(\w+)\s*\.\.\s*(\w+)\s*\)", r"bytes_from_vec_slice(\1, \2, \3)", "R-bytes", "shim: the sub-range of the bytes the Vec held"),
        (r"SystemTime\s*::\s*now\s*\(\s*\)\s*\.\s*duration_since\s*\(\s*UNIX_EPOCH\s*\)\s*\.\s*unwrap_or_default\s*\(\s*\)\s*\.\s*as_nanos\s*\(\s*\)\s*as\s+u64", "wall_clock_nanos()", "R-ext",
         "shim: the wall clock, one fixed arbitrary value per call (A4)"),
        (r"for\s+_\s+in\s+0\s*\.\.\s*(\w+)\s*\{", r"let mut pass_i_: usize = 0; while pass_i_ < \1 { pass_i_ = pass_i_ + 1;", "R-foriter", "definition of a counted loop (Verus for-loops have no early return)"),
        (r"\.\s*map\s*\(\s*\|\s*\(\s*value\s*,\s*_\s*,\s*_\s*\)\s*\|\s*value\s*\)", ".map_first3()", "R-rmap", "shim: Result::map projecting the first component of a triple"),
        (r"\.\s*read\s*\(\s*key\s*,\s*\|\s*_\s*,\s*(\w+)\s*\|\s*Arc\s*::\s*clone\s*\(\s*\1\s*\)\s*\)", ".read_arc(key)", "R-hread", "shim: the lookup closure only clones the Arc it is handed"),
        (r"(\w+)\s*\.\s*extend_from_slice\s*\(\s*&\s*(\w+)\s*\.\s*to_le_bytes\s*\(\s*\)\s*\)", r"push_u16_le(&mut \1, \2)", "R-le", "shim: appends the two little-endian bytes of a u16"),
        (r"(\w+)\s*\.\s*key\s*!=\s*(\w+)\s*\.\s*key\b", r"vec_ne(&\1.key, &\2.key)", "R-seq", "shim: byte-wise comparison of two keys"),
    ]
    for pat, rep, rname, why in table:
        while True:
            mm = re.search(pat, text)
            if not mm:
                break
            if rep is None:
                # E.filter(|x| *x <= B): rewrite the whole receiver chain
                m = mask(text)
                a0 = _receiver_start(m, mm.start())
                e = text[a0:mm.start()].strip()
                new = "(match %s { Some(%s) if %s <= %s => Some(%s), _ => None })" % (e, mm.group(1), mm.group(1), mm.group(2), mm.group(1))
                apps.append(_app(rname, text, a0, mm.end(), new, why))
                text = text[:a0] + new + text[mm.end():]
                continue
            new = mm.expand(rep)
            apps.append(_app(rname, text, mm.start(), mm.end(), new, why))
            text = text[:mm.start()] + new + text[mm.end():]
    text, a = _method_to_fn(text, "map_first3", "result_first3", "R-rmap", "definition of Result::map with a projecting closure (verified shim)")
    apps += a
    return text, apps


def rule_atomicmisc(text):
    """read-modify-write one-offs (atomic.rs / json_patch.rs)"""
    apps = []
    table = [
        (r"(\w+)\s*\.\s*filter\s*\(\s*\|\s*(\w+)\s*\|\s*\*\2\s*!=\s*0\s*\)", r"(match \1 { Some(\2) if \2 != 0 => Some(\2), _ => None })", "R-ofilt", "definition of Option::filter (the closure only dereferences its argument)"),
        (r"\.\s*read\s*\(\s*(&?\w+)\s*,\s*\|\s*_\s*,\s*(\w+)\s*\|\s*(?:Arc\s*::\s*clone\s*\(\s*\2\s*\)|\2\s*\.\s*clone\s*\(\s*\))\s*\)", r".read_arc(\1)", "R-hread", "shim: the lookup closure only clones the Arc it is handed"),
        (r"(\w+)\s*\.\s*as_ref\s*\(\s*\)\s*\.\s*map_or\s*\(\s*0\s*,\s*\|\s*(\w+)\s*:\s*&Arc<Record>\s*\|\s*\2\s*\.\s*retirement_timestamp\s*\(\s*\)\s*\)",
         r"(match \1.as_ref() { Some(\2) => \2.retirement_timestamp(), None => 0 })", "R-omapor", "definition of Option::map_or"),
        (r"let\s+(\w+)\s*=\s*(\w+)\s*\.\s*get_or_insert_with\s*\(\s*\|\s*\|\s*(Arc\s*::\s*clone\s*\(\s*&\w+\s*\))\s*\)\s*;",
         r"if \2.is_none() { \2 = Some(\3); } let \1 = \2.as_ref().unwrap();", "R-getorinsert", "definition of Option::get_or_insert_with, read-only use of the result"),
        (r"i64\s*::\s*from_le_bytes\s*\(\s*(\w+)\s*\.\s*as_ref\s*\(\s*\)\s*\.\s*try_into\s*\(\s*\)\s*\.\s*map_err\s*\(\s*\|\s*_\s*\|\s*FeoxError\s*::\s*InvalidNumericValue\s*\)\s*\?\s*,?\s*\)",
         r"i64_from_le8(&\1)?", "R-le", "shim: the little-endian i64 of an 8-byte value, InvalidNumericValue otherwise"),
        (r"(\w+)\s*\.\s*saturating_add\s*\(\s*delta\s*\)", r"sat_add_i64(\1, delta)", "R-arith", "definition of i64::saturating_add (verified shim)"),
        (r"(\w+)\s*\.\s*unwrap_or_else\s*\(\s*\|\s*\|\s*(self\s*\.\s*get_timestamp\s*\(\s*key\s*\))\s*\)", r"(match \1 { Some(t_) => t_, None => \2 })", "R-ounwrapor", "definition of Option::unwrap_or_else"),
        (r"(\w+)\s*\.\s*as_ref\s*\(\s*\)\s*!=\s*expected\b", r"bytes_ne(&\1, expected)", "R-seq", "shim: byte-wise comparison"),
        (r"std\s*::\s*mem\s*::\s*size_of\s*::\s*<\s*i64\s*>\s*\(\s*\)", "size_of_i64()", "R-sizeof", "size_of::<i64>() == 8"),
        (r"crate\s*::\s*utils\s*::\s*json_patch\s*::\s*apply_json_patch\s*\(", "apply_json_patch(", "R-handle", "path of an opaque callee"),
        (r"let\s+mut\s+observed\s*=\s*None\s*;", "let mut observed: Option<Arc<Record>> = None;", "R-type", "type annotation the closure parameter used to provide"),
    ]
    for pat, rep, rname, why in table:
        while True:
            mm = re.search(pat, text)
            if not mm:
                break
            new = mm.expand(rep)
            apps.append(_app(rname, text, mm.start(), mm.end(), new, why))
            text = text[:mm.start()] + new + text[mm.end():]
    return text, apps


def rule_rangemisc(text):
    """range_query one-offs"""
    apps = []
    table = [
        (r"epoch\s*::\s*pin\s*\(\s*\)", "epoch_pin()", "R-handle", "shim: pinning the epoch has no sequential effect"),
        (r"let\s+mut\s+results\s*=\s*Vec\s*::\s*with_capacity\s*\(", "let mut results: Vec<(Vec<u8>, Vec<u8>)> = Vec::with_capacity(", "R-type", "type annotation (the function's return type) that inference would have provided"),
        (r"(\w+)\s*\.\s*key\s*\(\s*\)\s*\.\s*as_slice\s*\(\s*\)\s*>=\s*(\w+)", r"bytes_ge(\1.key(), \2)", "R-seq", "shim: byte-wise (lexicographic) comparison of two keys"),
        (r"(\w+)\s*\.\s*key\s*\(\s*\)\s*\.\s*as_slice\s*\(\s*\)\s*>\s*(\w+)", r"bytes_gt(\1.key(), \2)", "R-seq", "shim: byte-wise (lexicographic) comparison of two keys"),
        (r"(\w+)\s*\.\s*key\s*\(\s*\)\s*\.\s*clone\s*\(\s*\)", r"vec_clone_u8(\1.key())", "R-clone", "shim: cloning a Vec<u8> copies its bytes"),
    ]
    for pat, rep, rname, why in table:
        while True:
            mm = re.search(pat, text)
            if not mm:
                break
            new = mm.expand(rep)
            apps.append(_app(rname, text, mm.start(), mm.end(), new, why))
            text = text[:mm.start()] + new + text[mm.end():]
    text, a = _method_to_fn(text, "min", "min_usize", "R-arith", "definition of Ord::min on usize (verified shim)")
    apps += a
    # per-entry counters (`let mut X = 0; .. X += 1;`): treated as non-overflowing - one step per visited index entry
    for nm in set(re.findall(r"let\s+mut\s+(\w+)\s*=\s*0\s*;", text)):
        while True:
            mm = re.search(r"\b%s\s*\+=\s*1\s*;" % re.escape(nm), text)
            if not mm:
                break
            new_ = "%s = count_up_usize(%s);" % (nm, nm)
            apps.append(_app("R-count", text, mm.start(), mm.end(), new_, "a usize counter incremented once per visited index entry: treated as non-overflowing (the index holds fewer than 2^64 entries)"))
            text = text[:mm.start()] + new_ + text[mm.end():]
    return text, apps


def rule_cleanupmisc(text):
    """failed-batch cleanup one-offs (write_buffer.rs release_allocations .. release_scrubbed_allocations)"""
    apps = []
    ws = r"\s*"
    chain_sorted = (r"let" + ws + r"mut" + ws + r"ordered" + ws + r"=" + ws + r"allocations" + ws + r"\." + ws + r"iter\(\)" + ws +
                    r"\." + ws + r"filter\(" + ws + r"\|allocation\|" + ws + r"!reservation_is_quarantined\(&allocation\.entry\)" + ws + r"\)" + ws +
                    r"\." + ws + r"filter_map\(" + ws + r"\|allocation\|" + ws + r"allocation\.sector\.map\(" + ws + r"\|sector\|" + ws + r"\(sector," + ws + r"allocation\)" + ws + r"\)" + ws + r"\)" + ws +
                    r"\." + ws + r"collect::<Vec<_>>\(\)" + ws + r";" + ws +
                    r"ordered\.sort_unstable_by_key\(" + ws + r"\|\(sector," + ws + r"_\)\|" + ws + r"\*sector" + ws + r"\)" + ws + r";")
    chain_ext = (r"allocations" + ws + r"\." + ws + r"iter\(\)" + ws +
                 r"\." + ws + r"filter\(" + ws + r"\|allocation\|" + ws + r"!reservation_is_quarantined\(&allocation\.entry\)" + ws + r"\)" + ws +
                 r"\." + ws + r"filter_map\(" + ws + r"\|allocation\|" + ws + r"\{" + ws + r"allocation" + ws + r"\." + ws + r"sector" + ws + r"\." + ws + r"map\(" + ws + r"\|sector\|" + ws + r"\(sector," + ws + r"allocation\.sectors_needed\)" + ws + r"\)" + ws + r"\}" + ws + r"\)" + ws +
                 r"\." + ws + r"collect::<Vec<_>>\(\)")
    table = [
        (chain_sorted, "let ordered = scrubbed_sorted(allocations);", "R-collect",
         "shim: iter + filter(not quarantined) + filter_map(sector) + collect + sort by sector = the eligible allocations with their head sector, ascending; sorting permutes, so the block total is the eligible total"),
        (chain_ext, "scrub_extents_of(allocations)", "R-collect",
         "shim: iter + filter(not quarantined) + filter_map(sector) + collect = the (sector, length) of every eligible allocation"),
        (r"for" + ws + r"\(_," + ws + r"(\w+)\)" + ws + r"in" + ws + r"&(\w+)\[(\w+)\.\.(\w+)\]" + ws + r"\{",
         r"let mut gi_: usize = \3; while gi_ < \4 { let \1 = \2[gi_].1; gi_ = gi_ + 1;", "R-foriter", "definition of iterating a sub-slice of pairs by reference as an index loop"),
        (r"for" + ws + r"(\w+)" + ws + r"in" + ws + r"allocations" + ws + r"\{", r"let mut ai_: usize = 0; while ai_ < allocations.len() { let \1 = &allocations[ai_]; ai_ = ai_ + 1;", "R-foriter",
         "definition of iterating a slice by reference as an index loop (Verus for-loops have no `continue`)"),
        (r"let" + ws + r"Some\((\w+)\)" + ws + r"=" + ws + r"(\w+)\.sector" + ws + r"else" + ws + r"\{" + ws + r"continue;" + ws + r"\};",
         r"let \1 = match \2.sector { Some(s_) => s_, None => { continue; } };", "R-letelse", "definition of let-else with a diverging else branch"),
        (r"stats" + ws + r"\." + ws + r"disk_usage" + ws + r"\." + ws + r"fetch_sub\(", "stats.disk_usage.fetch_sub(", "R-ws", "whitespace only"),
    ]
    for pat, rep, rname, why in table:
        n = 0
        while n < 8:
            n += 1
            mm = re.search(pat, text)
            if not mm:
                break
            new = mm.expand(rep)
            if new == text[mm.start():mm.end()]:
                break
            apps.append(_app(rname, text, mm.start(), mm.end(), new, why))
            text = text[:mm.start()] + new + text[mm.end():]
    return text, apps


def rule_sig_ioret(text):
    """signature rule for unit io_retire: `&self` -> `&mut self` (interior mutability made explicit)"""
    apps = []
    mm = re.search(r"\(\s*&self\b", text)
    if mm:
        new = text[mm.start():mm.end()].replace("&self", "&mut self")
        apps.append(_app("R-sigmut", text, mm.start(), mm.end(), new, "DiskIO mutates the device through a shared reference; `&mut self` lets the contract state that effect (sequential semantics, A3)"))
        text = text[:mm.start()] + new + text[mm.end():]
    return text, apps


def rule_ioretmisc(text):
    """retirement / replay one-offs (io.rs, format.rs)"""
    apps = []
    ws = r"\s*"
    table = [
        (r"if" + ws + r"let" + ws + r"\[\(_," + ws + r"1\)\]" + ws + r"=" + ws + r"(\w+)" + ws + r"\." + ws + r"as_slice\(\)" + ws + r"\{", r"if \1.len() == 1 && \1[0].1 == 1 {", "R-slicepat",
         "definition of the slice pattern `[(_, 1)]`: exactly one element whose second component is 1"),
        (r"return" + ws + r"(self" + ws + r"\." + ws + r"\w+\([^;()]*\))" + ws + r"\." + ws + r"map_err\(\|error\|" + ws + r"self\.poison_writes\(error\)\)" + ws + r";",
         r"return match \1 { Ok(v_) => Ok(v_), Err(error) => Err(self.poison_writes(error)) };", "R-maperr", "definition of Result::map_err with a closure that poisons the handle"),
        (r"for" + ws + r"chunk" + ws + r"in" + ws + r"(\w+)" + ws + r"\." + ws + r"chunks\(" + ws + r"(\w+)" + ws + r"\)" + ws + r"\{",
         r"let mut ci_: usize = 0; while ci_ < \1.len() { let ce_: usize = min_usize(\2, \1.len() - ci_) + ci_; let chunk = slice_subrange(\1.as_slice(), ci_, ce_); ci_ = ce_;",
         "R-chunks", "definition of slice::chunks(n) as an index loop: consecutive sub-slices of n elements, the last one shorter"),
        (r"if" + ws + r"extents" + ws + r"\." + ws + r"iter\(\)" + ws + r"\." + ws + r"any\(" + ws + r"\|\(_," + ws + r"sectors\)\|" + ws + r"\*sectors" + ws + r"==" + ws + r"0" + ws + r"\)",
         "if any_zero_length(extents)", "R-any", "definition of Iterator::any over a slice of pairs"),
        (r"extents" + ws + r"\." + ws + r"iter\(\)" + ws + r"\." + ws + r"map\(" + ws + r"\|\(_," + ws + r"sectors\)\|" + ws + r"\(\*sectors\)" + ws + r"\." + ws + r"min\(" + ws + r"RETIREMENT_WRITE_BLOCKS" + ws + r"\)" + ws + r"\)" + ws + r"\." + ws + r"max\(\)",
         "max_chunk_blocks(extents, RETIREMENT_WRITE_BLOCKS)", "R-maxk", "shim: the largest per-extent chunk size, None for no extents"),
        (r"#\[cfg\(unix\)\]" + ws + r"if" + ws + r"self\._use_direct_io", "if self._use_direct_io", "R-cfg", "cfg(unix) holds on this platform"),
        (r"scratch" + ws + r"\." + ws + r"as_mut_slice\(\)" + ws + r"\." + ws + r"fill\(0\)" + ws + r";", "scratch.zero_fill();", "R-handle", "opaque O_DIRECT buffer"),
        (r"for" + ws + r"&\((\w+)," + ws + r"(\w+)\)" + ws + r"in" + ws + r"(\w+)" + ws + r"\{",
         r"let mut ei_: usize = 0; while ei_ < \3.len() { let (\1, \2) = \3[ei_]; ei_ = ei_ + 1;", "R-for", "definition of iterating a slice of pairs by reference pattern"),
        (r"\(" + ws + r"(\w+)" + ws + r"-" + ws + r"(\w+)" + ws + r"\)" + ws + r"\." + ws + r"min\(" + ws + r"(\w+)" + ws + r"\)", r"min_usize(\1 - \2, \3)", "R-arith", "definition of Ord::min on usize (verified shim)"),
        (r"let" + ws + r"(\w+)" + ws + r"=" + ws + r"&mut" + ws + r"(\w+)\[\.\.(\w+)\]" + ws + r";" + ws + r"fill_retirement_markers\(" + ws + r"\1," + ws + r"(\w+)," + ws + r"(\w+)" + ws + r"\)" + ws + r";" + ws + r"self" + ws + r"\." + ws + r"write_sectors_sync\(" + ws + r"(\w+)," + ws + r"\1" + ws + r"\)" + ws + r"\?" + ws + r";",
         r"fill_retirement_markers_prefix(\2, \3, \4, \5); self.write_sectors_sync(\6, slice_subrange(\2, 0, \3))?;", "R-subslice",
         "a mutable prefix `&mut S[..n]` filled and then written: the fill acts on the first n bytes of S, the write reads them (Verus has no mutable sub-slices)"),
        (r"fill_retirement_marker\(" + ws + r"&mut" + ws + r"(\w+)\[(\w+)\.\.(\w+)" + ws + r"\+" + ws + r"(\w+)\]" + ws + r"," + ws + r"([^;]*?)," + ws + r"([^;,]*?)," + ws + r"\)" + ws + r";",
         r"fill_retirement_marker_at(\1, \2, \3 + \4, \5, \6);", "R-subslice", "a mutable sub-slice handed to the marker writer: the writer acts on bytes a..b of the buffer"),
        (r"for" + ws + r"offset" + ws + r"in" + ws + r"0\.\.blocks" + ws + r"\{", "let mut offset_next_: usize = 0; while offset_next_ < blocks { let offset = offset_next_; offset_next_ = offset_next_ + 1;", "R-for", "definition of a counted loop"),
        (r"debug_assert(_eq)?!\([^;]*\);", "", "R-dbg", "dropped: a debug-only assertion (absent from release builds); its condition is stated as a precondition in the contract"),
        (r"let" + ws + r"mut" + ws + r"ordered" + ws + r"=" + ws + r"extents\.to_vec\(\)" + ws + r";" + ws + r"ordered\.sort_unstable_by_key\(" + ws + r"\|extent\|" + ws + r"extent\.0" + ws + r"\)" + ws + r";",
         "let ordered = sorted_by_start(extents);", "R-sort", "shim: copy + sort by start = a permutation, ascending by start"),
        (r"for" + ws + r"\((\w+)," + ws + r"(\w+)\)" + ws + r"in" + ws + r"ordered" + ws + r"\{", r"let mut oi_: usize = 0; while oi_ < ordered.len() { let (\1, \2) = ordered[oi_]; oi_ = oi_ + 1;", "R-for",
         "definition of iterating a Vec of pairs by value as an index loop"),
        (r"let" + ws + r"Some\(previous\)" + ws + r"=" + ws + r"coalesced\.last_mut\(\)" + ws + r"else" + ws + r"\{" + ws + r"(coalesced\.push\(\(sector," + ws + r"sectors\)\);)" + ws + r"continue;" + ws + r"\};",
         r"if coalesced.len() == 0 { \1 continue; } let pl_: usize = coalesced.len() - 1; let previous = coalesced[pl_];", "R-lastmut",
         "definition of Vec::last_mut with a diverging else: the last element, addressed by index"),
        (r"previous\.1" + ws + r"=" + ws + r"usize::try_from\(" + ws + r"(\w+)" + ws + r"-" + ws + r"previous\.0" + ws + r"\)" + ws + r"\." + ws + r"map_err\(\|_\|" + ws + r"FeoxError::InvalidArgument\)\?" + ws + r";",
         r"let nl_: usize = usize_from_u64(\1 - previous.0)?; coalesced.set(pl_, (previous.0, nl_));", "R-lastmut",
         "assignment through the last_mut reference = replacing the last element; usize::try_from(u64) with map_err + ? = a fallible conversion"),
    ]
    for pat, rep, rname, why in table:
        n = 0
        while n < 8:
            n += 1
            mm = re.search(pat, text)
            if not mm:
                break
            new = mm.expand(rep)
            if new == text[mm.start():mm.end()]:
                break
            apps.append(_app(rname, text, mm.start(), mm.end(), new, why))
            text = text[:mm.start()] + new + text[mm.end():]
    return text, apps


def rule_winnersmisc(text):
    """recovery post-scan pass one-offs"""
    apps = []
    table = [
        (r"crossbeam_epoch\s*::\s*pin\s*\(\s*\)", "epoch_pin()", "R-handle", "shim: pinning the epoch has no sequential effect"),
        (r"(\w+)\s*\.\s*as_deref\s*\(\s*\)", r"opt_as_slice(&\1)", "R-asderef", "shim: Option<Vec<u8>>::as_deref"),
        (r"(\w+)\s*\.\s*key\s*\(\s*\)\s*\.\s*clone\s*\(\s*\)", r"vec_clone_u8(\1.key())", "R-clone", "shim: cloning a Vec<u8> copies its bytes"),
        (r"(\w+)\s*\.\s*key\s*\.\s*clone\s*\(\s*\)", r"vec_clone_u8(&\1.key)", "R-clone", "shim: cloning a Vec<u8> copies its bytes"),
        (r"\bkey\s*\.\s*clone\s*\(\s*\)", r"vec_clone_u8(&key)", "R-clone", "shim: cloning a Vec<u8> copies its bytes"),
        (r"Arc\s*::\s*ptr_eq\s*\(", "arc_ptr_eq(", "R-ptreq", "shim: pointer identity of two Arcs (an opaque relation)"),
        (r"(\w+)\s*\.\s*refcount\s*\.\s*store\s*\(\s*0\s*,[^;]*\)\s*;", r"mark_dead(&\1);", "R-refcount", "shim: marking a generation dead (an atomic store through a shared reference)"),
    ]
    for pat, rep, rname, why in table:
        n = 0
        while n < 8:
            n += 1
            mm = re.search(pat, text)
            if not mm:
                break
            new = mm.expand(rep)
            if new == text[mm.start():mm.end()]:
                break
            apps.append(_app(rname, text, mm.start(), mm.end(), new, why))
            text = text[:mm.start()] + new + text[mm.end():]
    return text, apps


def rule_chainmisc(text):
    """successor-chain one-offs (record.rs)"""
    apps = []
    table = [
        (r"(\w+)\s*\.\s*successor\s*\.\s*get\s*\(\s*\)\s*\.\s*cloned\s*\(\s*\)", r"\1.successor.get_cloned()", "R-oncelock", "shim: OnceLock::get().cloned() = a copy of the link if it was set"),
    ]
    for pat, rep, rname, why in table:
        while True:
            mm = re.search(pat, text)
            if not mm:
                break
            new = mm.expand(rep)
            apps.append(_app(rname, text, mm.start(), mm.end(), new, why))
            text = text[:mm.start()] + new + text[mm.end():]
    text, a = _method_to_fn(text, "max", "max_u64", "R-arith", "definition of Ord::max on u64 (verified shim)")
    apps += a
    return text, apps


def rule_sig_mig(text):
    apps = []
    for pat, rep, why in ((r"&\s*Path\b", "&PathH", "opaque handle for a path"), (r"\bPathBuf\b", "PathH", "opaque handle for a path")):
        while True:
            mm = re.search(pat, text)
            if not mm:
                break
            apps.append(_app("R-handle", text, mm.start(), mm.end(), rep, why))
            text = text[:mm.start()] + rep + text[mm.end():]
    return text, apps


def rule_migmisc(text):
    """offline-migration one-offs (migration.rs)"""
    apps = []
    ws = r"\s*"
    # fs::hard_link(A, B).map_err(|source| { ... })?   ->   fs_hard_link(A, B)?
    while True:
        m = mask(text)
        mm = re.search(r"fs\s*::\s*hard_link\s*\(", m)
        if not mm:
            break
        op = mm.end() - 1
        cl = match_close(m, op)
        t = re.match(r"\s*\.\s*map_err\s*\(", m[cl + 1:])
        if not t:
            break
        op2 = cl + 1 + t.end() - 1
        cl2 = match_close(m, op2)
        new = "fs_hard_link(" + text[op + 1:cl] + ")"
        apps.append(_app("R-fs", text, mm.start(), cl2 + 1, new, "shim: fs::hard_link with its error mapped to DestinationExists (AlreadyExists) or Io; never replaces an existing name"))
        text = text[:mm.start()] + new + text[cl2 + 1:]
    # fs::rename(A, B).map_err(|source| ..)?   ->   fs_rename(A, B)?   (std::fs::rename REPLACES an existing destination)
    while True:
        m = mask(text)
        mm = re.search(r"fs\s*::\s*rename\s*\(", m)
        if not mm:
            break
        op = mm.end() - 1
        cl = match_close(m, op)
        t = re.match(r"\s*\.\s*map_err\s*\(", m[cl + 1:])
        if not t:
            # a bare `fs::rename(A, B)` whose result is discarded or matched by the caller
            new_ = "fs_rename_raw(" + text[op + 1:cl] + ")"
            apps.append(_app("R-fs", text, mm.start(), cl + 1, new_, "shim: fs::rename (io::Result); it silently replaces an existing destination, and between two hard links of one file it does nothing"))
            text = text[:mm.start()] + new_ + text[cl + 1:]
            continue
        op2 = cl + 1 + t.end() - 1
        cl2 = match_close(m, op2)
        new_ = "fs_rename(" + text[op + 1:cl] + ")"
        apps.append(_app("R-fs", text, mm.start(), cl2 + 1, new_, "shim: fs::rename with its error mapped to Io; unlike hard_link it silently replaces an existing destination"))
        text = text[:mm.start()] + new_ + text[cl2 + 1:]
    table = [
        (r"if" + ws + r"let" + ws + r"Err\((\w+)\)" + ws + r"=" + ws + r"fs\s*::\s*hard_link\s*\(([^()]*)\)" + ws + r"\{", r"let link_res_ = fs_hard_link_raw(\2); if let Err(\1) = link_res_ {", "R-bindres",
         "the scrutinee of an `if let` bound to a temporary first (same evaluation order), so that the outcome of the call can be named"),
        (r"\bio::ErrorKind::", "IoErrorKind::", "R-handle", "opaque std::io error kinds"),
        (r"(FileStamp\s*::\s*read_regular\s*\([^()]*\)\s*\?)" + ws + r"\." + ws + r"as_ref\(\)" + ws + r"!=" + ws + r"Some\((\w+)\)", r"!stamp_is(&\1, \2)", "R-stampeq", "shim: comparison of an optional file stamp with the expected one"),
        (r"(\w+)" + ws + r"\." + ws + r"as_ref\(\)" + ws + r"==" + ws + r"Some\((\w+)\)", r"stamp_is(&\1, \2)", "R-stampeq", "shim: comparison of an optional file stamp with the expected one"),
        (r"fs\s*::\s*remove_file\s*\(", "fs_remove_file(", "R-fs", "shim: fs::remove_file"),
        (r"drop\s*\(\s*self\s*\.\s*file\s*\.\s*take\s*\(\s*\)\s*\)\s*;", "drop_file(&mut self.file);", "R-take", "shim: dropping the taken file handle closes it and leaves None"),
        (r"(FileStamp::read(?:_store_file)?\([^()]*\)\?)" + ws + r"!=" + ws + r"(\w+)", r"stamp_ne(&\1, &\2)", "R-stampeq", "shim: comparison of two file stamps"),
        (r"source\.format_version\b(?!\()", "source.format_version()", "R-opq", "field read of the opaque store"),
        (r"verified\.format_version\b(?!\()", "verified.format_version()", "R-opq", "field read of the opaque store"),
        (r"source\.device_size\.max\(layout\.required_size\)", "max_u64(source.device_size(), layout.required_size)", "R-arith", "definition of Ord::max on u64 (verified shim)"),
        (r"source\.ambiguous_legacy_markers\b(?!\()", "source.ambiguous_legacy_markers()", "R-opq", "field read of the opaque store"),
        (r"destination" + ws + r"\." + ws + r"device_file" + ws + r"\." + ws + r"as_ref\(\)" + ws + r"\." + ws + r"ok_or\(FeoxError::NoDevice\)\?" + ws + r"\." + ws + r"try_clone\(\)" + ws + r"\." + ws + r"map_err\(\|source\|" + ws + r"MigrationError::Io" + ws + r"\{[^}]*\}\)\?",
         "destination.clone_device_file(&destination_guard.temporary)?", "R-fs", "shim: a second descriptor on the temporary destination file (errors mapped to NoDevice / Io)"),
        (r"FeoxStore::with_config_for_migration_destination\(", "FeoxStore::with_config_for_migration_destination(", "R-ws", "unchanged"),
        (r"(\w+)\s*\.\s*as_deref\s*\(\s*\)", r"opt_as_slice(&\1)", "R-asderef", "shim: Option<Vec<u8>>::as_deref"),
        (r"let" + ws + r"Some\(last\)" + ws + r"=" + ws + r"records\.last\(\)" + ws + r"else" + ws + r"\{" + ws + r"break;" + ws + r"\};" + ws + r"after" + ws + r"=" + ws + r"Some\(last\.key\.clone\(\)\);",
         "if records.len() == 0 { break; } after = Some(vec_clone_u8(&records[records.len() - 1].key));", "R-last", "definition of slice::last with a diverging else, and of cloning the last key"),
        (r"(\w+)" + ws + r"=" + ws + r"(\w+)\.last\(\)\.map\(\|record\|" + ws + r"record\.key\.clone\(\)\);",
         r"\1 = if \2.len() == 0 { None } else { Some(vec_clone_u8(&\2[\2.len() - 1].key)) };", "R-last", "definition of slice::last + Option::map cloning the last key"),
        (r"for" + ws + r"\((\w+)," + ws + r"(\w+)\)" + ws + r"in" + ws + r"(\w+)\.into_iter\(\)\.zip\((\w+)\)" + ws + r"\{",
         r"let mut zi_: usize = 0; while zi_ < \3.len() && zi_ < \4.len() { let \1 = Arc::clone(&\3[zi_]); let \2 = Arc::clone(&\4[zi_]); zi_ = zi_ + 1;", "R-zip",
         "definition of zipping two Vecs by value: pairs at equal positions, up to the shorter length"),
        (r"(\w+)\.key" + ws + r"==" + ws + r"(\w+)\.key\b", r"vec_eq_u8(&\1.key, &\2.key)", "R-seq", "shim: byte-wise comparison of two keys"),
        (r"\b(visited|records)" + ws + r"\+=" + ws + r"1" + ws + r";", r"\1 = count_up(\1);", "R-count", "a u64 progress counter incremented once per record: treated as non-overflowing (2^64 records are unreachable); wrapping semantics of release builds"),
        (r"(source\.resolve_value_ref\([^?]*\)\?)" + ws + r"!=" + ws + r"(destination" + ws + r"\." + ws + r"resolve_value_ref\([^?]*\)\?)", r"bytes_ne(&\1, &\2)", "R-seq", "shim: byte-wise comparison of two values"),
    ]
    for pat, rep, rname, why in table:
        n = 0
        while n < 8:
            n += 1
            mm = re.search(pat, text)
            if not mm:
                break
            new = mm.expand(rep)
            if new == text[mm.start():mm.end()]:
                break
            apps.append(_app(rname, text, mm.start(), mm.end(), new, why))
            text = text[:mm.start()] + new + text[mm.end():]
    return text, apps


def rule_matches(text):
    """`matches!(E, P1 | P2 | ..)` -> `(match E { P1 => true, P2 => true, .., _ => false })` (no guards)"""
    apps = []
    while True:
        m = mask(text)
        mm = re.search(r"\bmatches!\s*\(", m)
        if not mm:
            return text, apps
        op = mm.end() - 1
        cl = match_close(m, op)
        inner = text[op + 1:cl]
        parts = split_top_level(m[op + 1:cl], inner, ",")
        if len(parts) != 2 or re.search(r"\bif\b", mask(parts[1])):
            return text, apps
        pats = [p.strip() for p in split_top_level(mask(parts[1]), parts[1], "|") if p.strip()]
        new = "(match %s { %s, _ => false })" % (parts[0].strip(), ", ".join("%s => true" % p for p in pats))
        apps.append(_app("R-matches", text, mm.start(), cl + 1, new, "definition of matches! without a guard"))
        text = text[:mm.start()] + new + text[cl + 1:]


def rule_workerloopmisc(text):
    """worker loop / retirement-queue flush one-offs (write_buffer.rs)"""
    apps = []
    text, a_ = rule_matches(text)
    apps += a_
    ws = r"\s*"
    table = [
        (r"(\w+)\.recv_timeout\(" + ws + r"Duration::from_millis\((\d+)\)" + ws + r"\)", r"\1.recv_timeout_ms(\2)", "R-chan", "shim: receiving a flush request with a timeout"),
        (r"std::mem::take\(&mut" + ws + r"\*(\w+)\)", r"\1.take_all()", "R-take", "shim: mem::take through the mutex guard = all queued entries, the queue left empty"),
        (r"\(" + ws + r"(\w+)" + ws + r"\*" + ws + r"2" + ws + r"\)" + ws + r"\." + ws + r"min\(" + ws + r"1_000" + ws + r"\)", r"min_u64(\1 * 2, 1_000)", "R-arith", "definition of Ord::min on u64 (verified shim)"),
        (r"result\.map\(\|_\|" + ws + r"has_retries\)", "(match result { Ok(_) => Ok(has_retries), Err(e_) => Err(e_) })", "R-rmap", "definition of Result::map with a closure ignoring its argument"),
        (r"Err\(error" + ws + r"@" + ws + r"(FeoxError::IndeterminateWrite\(_\))\)", r"Err(\1)", "R-bind", "binding used only by the dropped log line"),
        (r"flush_rx:" + ws + r"Receiver<FlushRequest>", "flush_rx: Receiver", "R-handle", "opaque handle for the request channel"),
        (r"let" + ws + r"_flush_guard" + ws + r"=" + ws + r"retirement_queue\.flush\.lock\(\);", "let _flush_guard = retirement_queue.flush.lock();", "R-ws", "unchanged"),
    ]
    for pat, rep, rname, why in table:
        n = 0
        while n < 8:
            n += 1
            mm = re.search(pat, text)
            if not mm:
                break
            new = mm.expand(rep)
            if new == text[mm.start():mm.end()]:
                break
            apps.append(_app(rname, text, mm.start(), mm.end(), new, why))
            text = text[:mm.start()] + new + text[mm.end():]
    return text, apps


def rule_sig_sampler(text):
    apps = []
    table = [
        (r"<R:\s*Rng\s*\+\s*\?Sized>", "", "the generic random generator becomes the opaque handle"),
        (r"&\s*scc::HashMap<Vec<u8>,\s*Arc<crate::core::record::Record>,\s*ahash::RandomState>", "&HashIndex", "opaque handle for the hash index"),
        (r"&mut\s+R\b", "&mut RngH", "opaque handle for the random generator"),
        (r"Arc<crate::core::record::Record>", "Arc<Record>", "path of the record type"),
    ]
    for pat, rep, why in table:
        while True:
            mm = re.search(pat, text)
            if not mm:
                break
            apps.append(_app("R-handle", text, mm.start(), mm.end(), rep, why))
            text = text[:mm.start()] + rep + text[mm.end():]
    return text, apps


def rule_samplermisc(text):
    apps = []
    ws = r"\s*"
    table = [
        (r"(\w+)\.random_range\(" + ws + r"0\.\.([\w()*]+)" + ws + r"\)", r"\1.random_below(\2)", "R-rng", "shim: a uniform index below n"),
        (r"(\w+)\.min\((hash_table\.len\(\))\)", r"min_usize(\1, \2)", "R-arith", "definition of Ord::min on usize (verified shim)"),
        (r"\bkey\.clone\(\)", "vec_clone_u8(key)", "R-clone", "shim: cloning a Vec<u8> copies its bytes"),
        (r"candidates\[index\]" + ws + r"=" + ws + r"([^;]*);", r"candidates.set(index, \1);", "R-idxset", "definition of assignment to a Vec element"),
    ]
    for pat, rep, rname, why in table:
        n = 0
        while n < 12:
            n += 1
            mm = re.search(pat, text)
            if not mm:
                break
            new = mm.expand(rep)
            if new == text[mm.start():mm.end()]:
                break
            apps.append(_app(rname, text, mm.start(), mm.end(), new, why))
            text = text[:mm.start()] + new + text[mm.end():]
    return text, apps


def rule_loadmisc(text):
    apps = []
    ws = r"\s*"
    table = [
        (r"let" + ws + r"mut" + ws + r"metadata" + ws + r"=" + ws + r"self\._metadata\.write\(\);" + ws + r"disk_io\.read\(\)\.initialize_store_metadata\(&mut" + ws + r"metadata\)\?;",
         "self._metadata.with_write_initialize(disk_io.read())?;", "R-lock", "shim: initialize_store_metadata under the metadata write lock"),
        (r"\*self\._metadata\.write\(\)" + ws + r"=" + ws + r"metadata;", "self._metadata.set(metadata);", "R-lock", "shim: storing the decoded metadata under its write lock"),
        (r"&(\w+)\[\.\.(\w+)\]" + ws + r"!=" + ws + r"(\w+)", r"prefix_ne(&\1, \2, \3)", "R-seq", "shim: comparison of a prefix with the signature bytes"),
        (r"metadata\.version\b(?!\()", "metadata.version()", "R-opq", "field read of the opaque metadata block"),
        (r"Some\(ref" + ws + r"(\w+)\)" + ws + r"=" + ws + r"(self\.\w+)" + ws + r"\{", r"Some(\1) = \2.as_ref() {", "R-refpat", "`Some(ref x) = e` binds a reference into e"),
    ]
    for pat, rep, rname, why in table:
        n = 0
        while n < 8:
            n += 1
            mm = re.search(pat, text)
            if not mm:
                break
            new = mm.expand(rep)
            if new == text[mm.start():mm.end()]:
                break
            apps.append(_app(rname, text, mm.start(), mm.end(), new, why))
            text = text[:mm.start()] + new + text[mm.end():]
    return text, apps


def rule_openmisc(text):
    """device-open one-offs (persistence.rs)"""
    apps = []
    ws = r"\s*"
    # the whole cfg / OpenOptions block of open_device
    a = text.find("#[cfg(target_os = \"linux\")]\n            use std::os::unix::fs::OpenOptionsExt;")
    b = text.find("// Get file size")
    if a >= 0 and b > a:
        new = "let (file, use_direct_io) = open_device_file(path)?;\n\n            "
        apps.append(_app("R-open", text, a, b, new, "shim: the platform-dependent OpenOptions block = open read-write, create, never truncate, O_DIRECT if accepted"))
        text = text[:a] + new + text[b:]
    table = [
        (r"let" + ws + r"metadata" + ws + r"=" + ws + r"file\.metadata\(\)\.map_err\(FeoxError::IoError\)\?;" + ws + r"self\.device_size" + ws + r"=" + ws + r"metadata\.len\(\);", "self.device_size = file.len_of()?;", "R-fs", "shim: the file's length from its metadata"),
        (r"file\.metadata\(\)\.map_err\(FeoxError::IoError\)\?\.len\(\)", "file.len_of()?", "R-fs", "shim: the file's length from its metadata"),
        (r"file\.set_len\((\w+)\)\.map_err\(FeoxError::IoError\)\?;", r"file.set_len_mapped(\1)?;", "R-fs", "shim: File::set_len with its error mapped"),
        (r"let" + ws + r"mut" + ws + r"metadata" + ws + r"=" + ws + r"self\._metadata\.write\(\);" + ws + r"metadata\.device_size" + ws + r"=" + ws + r"self\.device_size;" + ws + r"metadata\.update\(\);",
         "self._metadata.set_device_size_and_update(self.device_size);", "R-lock", "shim: recording the device size in the metadata block under its write lock"),
        (r"#\[cfg\(not\(unix\)\)\]" + ws + r"let" + ws + r"use_direct_io" + ws + r"=" + ws + r"false;", "", "R-cfg", "not compiled on this platform"),
        (r"#\[cfg\(target_os" + ws + r"=" + ws + r"\"linux\"\)\]" + ws + r"if" + ws + r"sparse_file_has_no_data", "if sparse_file_has_no_data", "R-cfg", "cfg(target_os = linux) holds on this platform"),
        (r"let" + ws + r"mut" + ws + r"contents" + ws + r"=" + ws + r"std::fs::OpenOptions::new\(\)" + ws + r"\.read\(true\)" + ws + r"\.open\((\w+)\)" + ws + r"\.map_err\(FeoxError::IoError\)\?;",
         r"let mut contents = open_for_reading(\1)?;", "R-fs", "shim: a second read-only descriptor on the same path, positioned at 0"),
        (r"vec!\[0;" + ws + r"([^\]]+)\]", r"zeroed_vec(\1)", "R-vec", "shim: vec![0; n] has length n"),
        (r"(\w+)\.min\((\w+)\.len\(\)" + ws + r"as" + ws + r"u64\)", r"min_u64(\1, \2.len() as u64)", "R-arith", "definition of u64::min"),
        (r"contents" + ws + r"\.read_exact\(&mut" + ws + r"buffer\[\.\.(\w+)\]\)" + ws + r"\.map_err\(FeoxError::IoError\)\?;", r"contents.read_exact_into(&mut buffer, \1)?;", "R-fs",
         "shim: read_exact into the first n bytes of the buffer = the next n bytes of the file or an error"),
        (r"buffer\[\.\.(\w+)\]\.iter\(\)\.any\(\|byte\|" + ws + r"\*byte" + ws + r"!=" + ws + r"0\)", r"any_nonzero(&buffer, \1)", "R-any", "verified helper: some byte among the first n is non-zero"),
        (r"use" + ws + r"std::os::fd::AsRawFd;", "", "R-use", "import dropped"),
        (r"unsafe" + ws + r"\{" + ws + r"libc::lseek\((\w+)\.as_raw_fd\(\)," + ws + r"(\w+)," + ws + r"libc::SEEK_DATA\)" + ws + r"\}", r"lseek_data(\1, \2)", "R-ffi",
         "shim: lseek(fd, from, SEEK_DATA) with the kernel's documented meaning of ENXIO (unsafe FFI call, trusted)"),
        (r"std::io::Error::last_os_error\(\)", "last_os_error()", "R-ffi", "shim: the errno left by the preceding system call"),
        (r"libc::ENXIO", "LIBC_ENXIO", "R-ffi", "errno constant 6"),
        (r"libc::EINVAL", "LIBC_EINVAL", "R-ffi", "errno constant 22"),
        (r"!(\w+)\.is_multiple_of\(([^()]*(?:\([^()]*\))?[^()]*)\)", r"(\1 % (\2) != 0)", "R-arith", "definition of u64::is_multiple_of for a non-zero divisor"),
        (r"(\w+)\.unwrap_or\((\w+)\)", r"(match \1 { Some(v_) => v_, None => \2 })", "R-ounwrapor", "definition of Option::unwrap_or"),
    ]
    for pat, rep, rname, why in table:
        n = 0
        while n < 8:
            n += 1
            mm = re.search(pat, text)
            if not mm:
                break
            new = mm.expand(rep)
            if new == text[mm.start():mm.end()]:
                break
            apps.append(_app(rname, text, mm.start(), mm.end(), new, why))
            text = text[:mm.start()] + new + text[mm.end():]
    return text, apps


def rule_sig_shard(text):
    apps = []
    for pat, rep, why in ((r"&\s*Arc\s*<\s*Statistics\s*>", "&Statistics", "Arc dropped"),):
        while True:
            mm = re.search(pat, text)
            if not mm:
                break
            apps.append(_app("R-handle", text, mm.start(), mm.end(), rep, why))
            text = text[:mm.start()] + rep + text[mm.end():]
    return text, apps


def rule_shardmisc(text):
    """shard-queue one-offs (write_buffer.rs)"""
    apps = []
    ws = r"\s*"
    table = [
        (r"let" + ws + r"entry_size" + ws + r"=" + ws + r"entries" + ws + r"\.iter\(\)" + ws + r"\.map\(\|entry\|" + ws + r"entry\.record\.calculate_size\(\)\)" + ws + r"\.sum::<usize>\(\);", "let entry_size = sum_sizes_arr(&entries);", "R-sum", "shim: the summed record sizes (statistics only)"),
        (r"let" + ws + r"size" + ws + r"=" + ws + r"entries" + ws + r"\.iter\(\)" + ws + r"\.map\(\|entry\|" + ws + r"entry\.record\.calculate_size\(\)\)" + ws + r"\.sum\(\);", "let size = sum_sizes_vec(&entries);", "R-sum", "shim: the summed record sizes (statistics only)"),
        (r"let" + ws + r"(\w+)" + ws + r"=" + ws + r"std::mem::take\(&mut" + ws + r"\*self\.buffer\.lock\(\)\);", r"let mut \1 = self.buffer.lock().take_queue();", "R-take",
         "shim: mem::take through a TEMPORARY guard = the queued entries are taken out and the guard is released at the end of the statement"),
        (r"let" + ws + r"entries:" + ws + r"Vec<_>" + ws + r"=" + ws + r"(\w+)\.into_iter\(\)\.collect\(\);", r"let entries = \1.drain_all();", "R-drainall", "shim: a by-value iteration collected = all elements in order"),
        (r"let" + ws + r"entries:" + ws + r"Vec<_>" + ws + r"=" + ws + r"buffer\.drain\(\.\.\)\.collect\(\);", "let entries = buffer.drain_all();", "R-drainall", "shim: a full drain collected = all queued entries in order, the queue left empty"),
        (r"for" + ws + r"entry" + ws + r"in" + ws + r"entries\.into_iter\(\)\.rev\(\)" + ws + r"\{", "let mut entries_q_ = RevQueue::new(entries); while let Some(entry) = entries_q_.pop_back() {", "R-revvec", "shim: by-value reverse iteration of a Vec = popping its elements back to front"),
        (r"for" + ws + r"entry" + ws + r"in" + ws + r"entries\.into_iter\(\)" + ws + r"\{", "for entry in entries {", "R-intoiter", "`for x in v.into_iter()` = `for x in v`"),
        (r"debug_assert(_eq)?!\([^;]*\);", "", "R-dbg", "dropped: a debug-only assertion"),
        (r"&self\.sharded_buffers\[(\w+)\]", r"&self.sharded_buffers[\1]", "R-ws", "unchanged"),
    ]
    for pat, rep, rname, why in table:
        n = 0
        while n < 8:
            n += 1
            mm = re.search(pat, text)
            if not mm:
                break
            new = mm.expand(rep)
            if new == text[mm.start():mm.end()]:
                break
            apps.append(_app(rname, text, mm.start(), mm.end(), new, why))
            text = text[:mm.start()] + new + text[mm.end():]
    return text, apps


def rule_startmisc(text):
    """WriteBuffer::start_workers and its periodic coordinator closure (write_buffer.rs)"""
    apps = []
    ws = r"\s*"
    ex = r"[\w.]+(?:\s*[+\-*]\s*[\w.]+)?"
    table = [
        (r"(\w+)" + ws + r"\." + ws + r"clamp" + ws + r"\(" + ws + r"(" + ex + r")" + ws + r"," + ws + r"(" + ex + r")" + ws + r"\)", r"clamp_usize(\1, \2, \3)", "R-clamp",
         "shim with a verified body: usize::clamp(lo, hi) (std panics when lo > hi: the shim's precondition)"),
        (r"for" + ws + r"_" + ws + r"in" + ws + r"0" + ws + r"\.\." + ws + r"(" + ex + r")" + ws + r"\{", r"for _i in 0..\1 {", "R-wild", "`_` loop pattern named"),
        (r"let" + ws + r"mut" + ws + r"receivers" + ws + r"=" + ws + r"Vec" + ws + r"::" + ws + r"new\(\)" + ws + r";", r"let mut receivers: Vec<WorkerReceiver> = Vec::new();", "R-annot", "type annotation only (Verus needs the element type before the first push)"),
        (r"for" + ws + r"\(" + ws + r"(\w+)" + ws + r"," + ws + r"(\w+)" + ws + r"\)" + ws + r"in" + ws + r"(\w+)" + ws + r"\." + ws + r"into_iter\(\)" + ws + r"\." + ws + r"enumerate\(\)" + ws + r"\{",
         r"let mut \3_q_ = EnumQueue::new(\3); while let Some((\1, \2)) = \3_q_.next_indexed() {", "R-enumq",
         "shim: by-value iteration of a Vec with enumerate() = popping its elements front to back, numbered from 0"),
        (r"thread" + ws + r"::" + ws + r"spawn" + ws + r"\(" + ws + r"move" + ws + r"\|\|" + ws + r"\{" + ws + r"write_buffer_worker" + ws + r"\(" + ws + r"(\w+)" + ws + r"," + ws + r"(\w+)" + ws + r"\)" + ws + r";" + ws + r"\}" + ws + r"\)",
         r"spawn_worker(\1, \2)", "R-spawn", "shim: a thread running write_buffer_worker(ctx, rx) (the worker's own contract is unit worker_loop)"),
        (r"self" + ws + r"\." + ws + r"worker_handles" + ws + r"\." + ws + r"get_mut\(\)" + ws + r"\." + ws + r"push" + ws + r"\(" + ws + r"(\w+)" + ws + r"\)", r"self.worker_handles.push_handle(\1)", "R-handle",
         "Mutex::get_mut().push(h) on the handle list"),
        (r"\*" + ws + r"self" + ws + r"\." + ws + r"periodic_flush_handle" + ws + r"\." + ws + r"get_mut\(\)" + ws + r"=" + ws + r"([^;]+);", r"self.periodic_flush_handle.set_handle(\1);", "R-handle",
         "assignment through Mutex::get_mut()"),
        (r"Arc" + ws + r"::" + ws + r"clone" + ws + r"\(" + ws + r"&" + ws + r"self" + ws + r"\." + ws + r"retirement_queue" + ws + r"\)", r"self.retirement_queue.clone()", "R-handle", "Arc::clone(&x) = x.clone()"),
        (r"self" + ws + r"\." + ws + r"worker_channels" + ws + r"\." + ws + r"clone\(\)", r"clone_senders(&self.worker_channels)", "R-clone", "shim: Vec<Sender>::clone = element-wise clone (same channels)"),
        (r"\bWRITE_BUFFER_FLUSH_INTERVAL\b", r"flush_interval()", "R-backoff", "the flush interval is an opaque Duration (real time is not modelled) that is known to be THE flush interval"),
        (r"\bWRITE_BUFFER_\w+_INTERVAL\b", r"other_interval()", "R-backoff", "another Duration constant: opaque, and not the flush interval"),
        (r"thread" + ws + r"::" + ws + r"park_timeout" + ws + r"\(" + ws + r"(\w+)" + ws + r"\)", r"thread_park_timeout(&\1)", "R-backoff", "a timed park between two rounds: like sleep, no effect on the state"),
        (r"thread" + ws + r"::" + ws + r"sleep" + ws + r"\(" + ws + r"interval" + ws + r"\)", r"thread_sleep(&interval)", "R-backoff", "sleep has no effect on the state"),
        (r"for" + ws + r"\(" + ws + r"(\w+)" + ws + r"," + ws + r"(\w+)" + ws + r"\)" + ws + r"in" + ws + r"(\w+)" + ws + r"\." + ws + r"iter\(\)" + ws + r"\." + ws + r"enumerate\(\)" + ws + r"\{",
         r"for \1 in 0..\3.len() { let \2 = &\3[\1];", "R-for", "definition of iter().enumerate() over a Vec"),
    ]
    for pat, rep, rname, why in table:
        n = 0
        while n < 8:
            n += 1
            mm = re.search(pat, text)
            if not mm:
                break
            new = mm.expand(rep)
            if new == text[mm.start():mm.end()]:
                break
            apps.append(_app(rname, text, mm.start(), mm.end(), new, why))
            text = text[:mm.start()] + new + text[mm.end():]
    # WriteBuffer::new one-offs
    for pat, rep, rname, why in (
        (r"\(" + ws + r"num_cpus" + ws + r"::" + ws + r"get\(\)" + ws + r"/" + ws + r"2" + ws + r"\)" + ws + r"\." + ws + r"max\(" + ws + r"(\w+)" + ws + r"\)", r"max_usize(cpu_count() / 2, \1)", "R-arith", "definition of usize::max; num_cpus::get() is an arbitrary usize"),
        (r"Arc::new\(" + ws + r"\(0\.\.(\w+)\)" + ws + r"\.map\(\|shard_id\|" + ws + r"CachePadded::new\(ShardedWriteBuffer::new\(shard_id\)\)\)" + ws + r"\.collect\(\)," + ws + r"\)", r"make_shards(\1)", "R-collect", "shim: one ShardedWriteBuffer per index 0..n, collected into the shared shard vector"),
        (r"Mutex::new\(Vec::new\(\)\)", "HandleVec::new()", "R-handle", "the (empty) list of worker handles"),
        (r"Mutex::new\(None\)", "HandleSlot::new()", "R-handle", "the (empty) coordinator handle slot"),
        (r"Arc::new\(AtomicBool::new\(false\)\)", "ShutdownFlag::new()", "R-handle", "a cleared shutdown flag"),
        (r"Arc::new\(RetirementQueue::new\(\)\)", "RetirementQueueH::new()", "R-handle", "an empty retirement queue"),
        (r"shard_hasher:" + ws + r"RandomState::new\(\)," , "", "R-opq", "the shard hasher field is not part of this unit's surface"),
        (r"crate::test_hooks::new_fault_scope\(\)", "new_fault_scope()", "R-opq", "test hook: an arbitrary id"),
    ):
        while True:
            mm = re.search(pat, text)
            if not mm:
                break
            new_ = mm.expand(rep)
            apps.append(_app(rname, text, mm.start(), mm.end(), new_, why))
            text = text[:mm.start()] + new_ + text[mm.end():]
    # (START..sharded_buffers.len()).step_by(STEP).any(|ID| BODY)  ->  the counting loop that defines it (short-circuit included);
    # START, STEP and BODY are carried over verbatim, so an edit to any of them is verified
    mm = re.search(r"\(" + ws + r"(" + ex + r")" + ws + r"\.\." + ws + r"(sharded_buffers" + ws + r"\." + ws + r"len\(\))" + ws + r"\)" + ws + r"\." + ws + r"step_by" + ws + r"\(" + ws
                   + r"(" + ex + r"(?:\(\))?)" + ws + r"\)" + ws + r"\." + ws + r"any" + ws + r"\(", mask(text))
    if mm:
        op = mm.end() - 1
        cl = match_close(mask(text), op)
        parts = _closure_parts(text[op + 1:cl].strip())
        if parts and re.fullmatch(r"\w+", parts[0].strip()):
            ident = parts[0].strip()
            cbody = parts[1].strip()
            new = ("{ let mut any_: bool = false; let mut %s_next_: usize = %s; while %s_next_ < %s && !any_ { let %s = %s_next_; %s_next_ = step_next(%s_next_, %s); if %s { any_ = true; } } any_ }"
                   % (ident, mm.group(1), ident, mm.group(2), ident, ident, ident, ident, mm.group(3), cbody))
            apps.append(_app("R-strideany", text, mm.start(), cl + 1, new,
                             "definition of (a..n).step_by(s).any(|i| body) as a counting loop that stops at the first hit (step_by panics on 0: step_next requires step > 0)"))
            text = text[:mm.start()] + new + text[cl + 1:]
    return text, apps


def rule_sig_start(text):
    apps = []
    for pat, rep, why in ((r"Arc\s*<\s*RwLock\s*<\s*DiskIO\s*>\s*>", "DiskLock", "lock handle"), (r"Arc\s*<\s*RwLock\s*<\s*FreeSpaceManager\s*>\s*>", "FreeSpaceLock", "lock handle"),
                          (r"Arc\s*<\s*Statistics\s*>", "StatsH", "statistics handle")):
        while True:
            mm = re.search(pat, text)
            if not mm:
                break
            apps.append(_app("R-handle", text, mm.start(), mm.end(), rep, why))
            text = text[:mm.start()] + rep + text[mm.end():]
    return text, apps


def rule_sig_open(text):
    apps = []
    for pat, rep, why in ((r"&\s*std::fs::File", "&File", "opaque file handle"), (r"&\s*str\b", "&String", "the path as the caller's String (deref coercion at the call site)")):
        while True:
            mm = re.search(pat, text)
            if not mm:
                break
            apps.append(_app("R-handle", text, mm.start(), mm.end(), rep, why))
            text = text[:mm.start()] + rep + text[mm.end():]
    return text, apps


def rule_sizeof(text):
    """mem::size_of::<uN>() -> its value"""
    apps = []
    for ty, val in (("u16", "2usize"), ("u32", "4usize"), ("u64", "8usize"), ("u8", "1usize")):
        while True:
            mm = re.search(r"(?:std\s*::\s*)?mem\s*::\s*size_of\s*::\s*<\s*%s\s*>\s*\(\s*\)" % ty, text)
            if not mm:
                break
            apps.append(_app("R-sizeof", text, mm.start(), mm.end(), val, "definition: size_of::<%s>()" % ty))
            text = text[:mm.start()] + val + text[mm.end():]
    return text, apps


def rule_ctormisc(text):
    """Record constructors (record.rs)"""
    apps = []
    ws = r"\s*"
    table = [
        (r"parking_lot" + ws + r"::" + ws + r"RwLock" + ws + r"::" + ws + r"new", "ValueLock::new", "R-handle", "the value cell"),
        (r"OnceLock" + ws + r"::" + ws + r"new", "SuccessorCell::new", "R-handle", "the once-set successor link"),
        (r"Arc" + ws + r"::" + ws + r"downgrade" + ws + r"\(" + ws + r"(\w+)" + ws + r"\)", r"arc_downgrade(\1)", "R-genid", "shim: Arc::downgrade names the same generation"),
        (r"let" + ws + r"record" + ws + r"=" + ws + r"(Self::\w+\([^;]*\));" + ws + r"record" + ws + r"\." + ws + r"ttl_expiry" + ws + r"\." + ws + r"store" + ws + r"\(" + ws + r"([^;,]+?)" + ws + r"," + ws + r"Ordering::\w+" + ws + r"\);" + ws + r"record\b",
         r"let record = \1; let record = Record { ttl_expiry: record.ttl_expiry.with_value(\2), ..record }; record", "R-ctorstore",
         "a store into a field of a record the constructor still owns exclusively = rebuilding the record with that field replaced"),
    ]
    for pat, rep, rname, why in table:
        n = 0
        while n < 8:
            n += 1
            mm = re.search(pat, text)
            if not mm:
                break
            new = mm.expand(rep)
            if new == text[mm.start():mm.end()]:
                break
            apps.append(_app(rname, text, mm.start(), mm.end(), new, why))
            text = text[:mm.start()] + new + text[mm.end():]
    return text, apps


def rule_divceil_u64(text):
    """`a.div_ceil(b)` on u64 operands (units whose arithmetic is all u64) -> verified helper div_ceil_u64"""
    apps = []
    while True:
        m = mask(text)
        hit = None
        for dot, op, cl in _method_calls(text, m, "div_ceil"):
            rs = _receiver_start(m, dot)
            hit = (rs, cl + 1, "div_ceil_u64(%s, %s)" % (text[rs:dot].strip(), text[op + 1:cl].strip()))
            break
        if not hit:
            return text, apps
        a, b, new = hit
        apps.append(_app("R-div", text, a, b, new, "verified helper: ceil(a/b) on u64, requires b > 0"))
        text = text[:a] + new + text[b:]


def rule_initmisc(text):
    """FeoxStore construction (init.rs)"""
    apps = []
    ws = r"\s*"
    table = [
        (r"matches!\(" + ws + r"&open_mode," + ws + r"OpenMode::ReadOnly\(_\)" + ws + r"\)", "(match &open_mode { OpenMode::ReadOnly(_) => true, _ => false })", "R-matches", "definition of matches!"),
        (r"HashMap::with_capacity_and_hasher\(" + ws + r"1" + ws + r"<<" + ws + r"config\.hash_bits," + ws + r"hasher\.clone\(\)\)", "new_hash_index(config.hash_bits, hasher.clone())", "R-handle", "the hash index constructor"),
        (r"Arc::new\(RwLock::new\(FreeSpaceManager::new\(\)\)\)", "FreeSpaceLock::new()", "R-handle", "a new allocator behind its lock"),
        (r"Arc::new\(RwLock::new\(metadata\)\)", "MetadataLock::new(metadata)", "R-handle", "the metadata block behind its lock"),
        (r"Arc::new\(Statistics::new\(\)\)", "StatsH::new()", "R-handle", "new statistics"),
        (r"Arc::new\(crate::core::cache::ClockCache::new\(stats\.clone\(\)\)\)", "Arc::new(CacheH::new(stats.clone()))", "R-handle", "the read cache constructor"),
        (r"Arc::new\(SkipMap::new\(\)\)", "TreeIndex::new()", "R-handle", "the ordered index constructor"),
        (r"Arc::new\(RwLock::new\(None\)\)", "SweeperSlot::new()", "R-handle", "the (empty) sweeper slot"),
        (r"#\[cfg\(unix\)\]" + ws + r"device_fd:", "device_fd:", "R-cfg", "cfg(unix) holds on this platform"),
        (r"\(num_cpus::get\(\)" + ws + r"/" + ws + r"2\)\.max\((\w+)\)", r"max_usize(cpu_count() / 2, \1)", "R-arith", "definition of usize::max; num_cpus::get() is an arbitrary usize"),
        (r"enable_ttl:" + ws + r"config\.enable_ttl," + ws + r"\}", "enable_ttl: config.enable_ttl,\n            steps: Ghost(Seq::empty()),\n        }", "R-ghost", "ghost field: the (empty) trace of construction steps"),
        (r"store\.disk_io\.as_ref\(\)\.ok_or\(FeoxError::NoDevice\)\?", "(match &store.disk_io { Some(d_) => d_, None => { return Err(FeoxError::NoDevice); } })", "R-ookor", "definition of Option::as_ref().ok_or(e)?"),
    ]
    for pat, rep, rname, why in table:
        n = 0
        while n < 8:
            n += 1
            mm = re.search(pat, text)
            if not mm:
                break
            new = mm.expand(rep)
            if new == text[mm.start():mm.end()]:
                break
            apps.append(_app(rname, text, mm.start(), mm.end(), new, why))
            text = text[:mm.start()] + new + text[mm.end():]
    return text, apps


def rule_sig_init(text):
    return text, []


def rule_iometamisc(text):
    """journal-position restore and metadata writers (io.rs)"""
    apps = []
    ws = r"\s*"
    table = [
        (r"self" + ws + r"\." + ws + r"journal_generation" + ws + r"\." + ws + r"store\(" + ws + r"([^;,]+?)," + ws + r"Ordering::\w+\)", r"self.set_journal_generation(\1)", "R-atom", "store into the journal-generation atomic"),
        (r"self" + ws + r"\." + ws + r"journal_slot" + ws + r"\." + ws + r"store\(" + ws + r"([^;,]+?)," + ws + r"Ordering::\w+\)", r"self.set_journal_slot(\1)", "R-atom", "store into the journal-slot atomic"),
        (r"vec!\[0;" + ws + r"([^\]]+)\]", r"zeroed_vec(\1)", "R-vec", "shim: vec![0; n] is n zero bytes"),
        (r"block\[\.\.metadata\.len\(\)\]\.copy_from_slice\(metadata\)", "copy_prefix(&mut block, metadata)", "R-cpy", "shim: the first len(src) bytes replaced by src, the rest unchanged"),
        (r"let" + ws + r"mut" + ws + r"next" + ws + r"=" + ws + r"\*metadata;", "let mut next = *metadata;", "R-ws", "unchanged"),
    ]
    for pat, rep, rname, why in table:
        n = 0
        while n < 8:
            n += 1
            mm = re.search(pat, text)
            if not mm:
                break
            new = mm.expand(rep)
            if new == text[mm.start():mm.end()]:
                break
            apps.append(_app(rname, text, mm.start(), mm.end(), new, why))
            text = text[:mm.start()] + new + text[mm.end():]
    return text, apps


def rule_sig_iometa(text):
    apps = []
    mm = re.search(r"\(\s*&self\b", text)
    if mm:
        new = mm.group(0).replace("&self", "&mut self")
        apps.append(_app("R-sigmut", text, mm.start(), mm.end(), new, "interior mutability made explicit: the device calls are logged on `self`"))
        text = text[:mm.start()] + new + text[mm.end():]
    return text, apps


def rule_sweepstop(text):
    """TtlSweeper::stop (ttl_sweep.rs)"""
    apps = []
    ws = r"\s*"
    table = [
        (r"self" + ws + r"\." + ws + r"handle" + ws + r"\." + ws + r"take\(\)", "take_handle(&mut self.handle)", "R-take", "verified helper: Option::take"),
        (r"(\w+)" + ws + r"\." + ws + r"thread\(\)" + ws + r"\." + ws + r"id\(\)" + ws + r"!=" + ws + r"thread" + ws + r"::" + ws + r"current\(\)" + ws + r"\." + ws + r"id\(\)",
         r"thread_id_ne(&\1.thread().id(), &thread_current().id())", "R-tid", "shim: comparison of two thread ids"),
        (r"let" + ws + r"_" + ws + r"=" + ws + r"(\w+)" + ws + r"\." + ws + r"join\(\)" + ws + r";", r"let _ = join_sweeper(\1, &self.shutdown);", "R-join",
         "shim: JoinHandle::join on the sweeper's handle; its precondition (not the calling thread, shutdown flag set) is what makes the join return"),
    ]
    for pat, rep, rname, why in table:
        n = 0
        while n < 8:
            n += 1
            mm = re.search(pat, text)
            if not mm:
                break
            new = mm.expand(rep)
            if new == text[mm.start():mm.end()]:
                break
            apps.append(_app(rname, text, mm.start(), mm.end(), new, why))
            text = text[:mm.start()] + new + text[mm.end():]
    return text, apps


def _lit(s):
    """whitespace-tolerant regex for a literal piece of Rust text: tokens separated by optional whitespace"""
    toks = re.findall(r"\w+|[^\w\s]", s)
    return r"\s*".join(re.escape(x) for x in toks)


def rule_uringmisc(text):
    """the io_uring write path (io.rs): InFlightBuffers, completion handling, batch_write_inner"""
    apps = []
    ws = r"\s*"
    table = [
        (r"\bassert!\(", "runtime_assert(", "R-assert", "assert! panics when its condition is false; the condition becomes a proof obligation (vstd runtime_assert requires it): the panic is proved unreachable"),
        (r"for" + ws + r"\(index," + ws + r"buffer\)" + ws + r"in" + ws + r"self\.buffers\.iter_mut\(\)\.enumerate\(\)" + ws + r"\{", "for index in 0..self.buffers.len() {", "R-for",
         "definition of iter_mut().enumerate() over a Vec: an index loop; the element is addressed as self.buffers[index]"),
        (r"std::mem::forget\(buffer\.take\(\)\);", "forget_slot(&mut self.buffers, index);", "R-forget", "shim: Option::take on the slot + mem::forget of what was taken (the buffer is leaked, never dropped)"),
        (r"io::Error::from_raw_os_error\((-?\w+)\)", r"io_error_os(\1)", "R-ioerr", "shim: an opaque std::io::Error"),
        (r"io::Error::new\(" + ws + r"io::ErrorKind::WriteZero," + ws + r"format!\(\"[^\"]*\"\)," + ws + r"\)", "io_error_short_write(result, expected)", "R-ioerr", "shim: an opaque std::io::Error (message dropped)"),
        (r"\bio::Result<", "IoResult<", "R-ioerr", "std::io::Result with the opaque error type"),
        (r"for" + ws + r"cqe" + ws + r"in" + ws + r"ring\.completion\(\)" + ws + r"\{", "while let Some(cqe) = ring.next_cqe() {", "R-cq",
         "definition of iterating the completion queue: entries are consumed one by one until none is left (A38)"),
        # ---- DiskIO::new ----
        (_lit("use std::os::unix::io::AsRawFd;"), "", "R-use", "a `use` inside the body (trait method brought into scope)"),
        (_lit("file_identity(file.as_ref())?"), "file_identity_of(&file)?", "R-handle", "shim: the file's (device, inode) identity"),
        (_lit("io::Error::other(") + r"\s*\"[^\"]*\",?\s*\)", "io_error_other()", "R-ioerr", "opaque io error (message dropped)"),
        (_lit("IoUring::builder() .setup_sqpoll(IOURING_SQPOLL_IDLE_MS) .build(IOURING_QUEUE_SIZE) .ok()"), "ring_build(IOURING_SQPOLL_IDLE_MS, IOURING_QUEUE_SIZE)", "R-handle",
         "shim: a fresh io_uring instance (None if the kernel refuses): nothing submitted yet"),
        (_lit("if let Some(ref r) = ring { let mut probe = Probe::new(); if r.submitter().register_probe(&mut probe).is_ok() && probe.is_supported(opcode::Read::CODE) && probe.is_supported(opcode::Write::CODE) {"),
         "if let Some(r) = &ring { if ring_supports_rw(r) {", "R-handle", "shim: the opcode probe (an opaque boolean of the ring)"),
        (r"\bAtomicBool::new\(", "FlagCell::new(", "R-atom", "atomic cell constructor"),
        (r"\bAtomicU64::new\(", "U64Cell::new(", "R-atom", "atomic cell constructor"),
        (r"\bAtomicUsize::new\(", "UsizeCell::new(", "R-atom", "atomic cell constructor"),
        (r"\bSelf" + ws + r"\{" + ws + r"ring", "DiskIO { file_marked: Ghost(false), flushed_ok: Ghost(false), sync_writes: Ghost(Seq::empty()), ring", "R-ghostfield",
         "the handle's ghost fields (no run-time content) get their initial values in the constructor's struct literal"),
        # ---- DiskIO::shutdown ----
        (_lit("if let Some(ref mut ring) = self.ring {"), "if let Some(ring) = &mut self.ring {", "R-refpat", "`Some(ref mut x) = place` binds a mutable reference into the place: same as matching `&mut place`"),
        (_lit("while ring.completion().next().is_some() {"), "while ring.next_cqe().is_some() {", "R-cq", "draining the completion queue entry by entry (A38)"),
        # ---- batch_write_inner ----
        (_lit("for (sector, data) in writes {"),
         "let mut wi_: usize = 0; while wi_ < writes.len() { let (sector, data) = (&writes[wi_].0, &writes[wi_].1); wi_ += 1;", "R-for",
         "definition of iterating a slice of pairs: an index loop, the pattern's names bound to references to the two fields"),
        (_lit("data.as_slice()"), "data_as_slice(data)", "R-handle", "shim: BatchWriteData::as_slice (the bytes of a Vec<u8> / Bytes)"),
        (_lit("for chunk in writes.chunks(IOURING_MAX_BATCH) {"),
         "let mut ci_: usize = 0; while ci_ < writes.len() { let ce_: usize = min_usize(IOURING_MAX_BATCH, writes.len() - ci_) + ci_; let chunk = slice_subrange(writes, ci_, ce_); ci_ = ce_;",
         "R-chunks", "definition of slice::chunks(n) as an index loop: consecutive sub-slices of n elements, the last one shorter"),
        (_lit("for (_sector, data) in chunk {"), "let mut bi_: usize = 0; while bi_ < chunk.len() { let data = &chunk[bi_].1; bi_ += 1;", "R-for",
         "definition of iterating a slice of pairs: an index loop"),
        (_lit("let data = data_as_slice(data); let mut aligned = AlignedBuffer::new(data.len())?; aligned.set_len(data.len()); aligned.as_mut_slice().copy_from_slice(data); buffers.push(PendingWriteBuffer::Aligned(aligned));"),
         "buffers.push(pending_aligned(data)?);", "R-handle",
         "shim: the O_DIRECT arm - an AlignedBuffer of the data's length filled with the data (allocation, bounds and free of AlignedBuffer: Kani unit aligned_buffer)"),
        (_lit("buffers.push(PendingWriteBuffer::Shared(data.retain_for_write()));"), "buffers.push(pending_shared(data));", "R-handle",
         "shim: a buffer sharing (Bytes) or copying (Vec) the data"),
        (_lit("let mut sq = ring.submission();"), "", "R-sq", "the submission queue borrowed from the ring: pushes are made on the ring handle (A38)"),
        (_lit("for (i, (sector, _)) in chunk.iter().enumerate() {"), "let mut i_: usize = 0; while i_ < chunk.len() { let i = i_; i_ += 1; let sector = chunk[i].0;", "R-for",
         "definition of iter().enumerate() over a slice of pairs: an index loop (the index advances at the top so that `break` needs no bookkeeping); the sector is copied instead of borrowed"),
        (_lit("opcode::Write::new( types::Fd(self.fd), buffer.as_ptr(), buffer.len() as u32, ) .offset(offset) .build() .user_data(") + r"([^;]*?)\)" + ws + ";",
         r"build_write_entry(self.fd, buffer.as_ptr(), buffer.len() as u32, offset, \1);", "R-handle", "shim: the io_uring write entry with its fd, buffer pointer, length, offset and user_data (arguments verbatim)"),
        (_lit("unsafe { sq.push(&write_e) }"), "ring.sq_push(&write_e)", "R-sq", "shim: SubmissionQueue::push (unsafe: the kernel will read from the entry's buffer until its completion is consumed - A38)"),
        (_lit("(queued != chunk.len()).then(|| FeoxError::IoError(io::Error::other(\"SQ full\")))"), "(if queued != chunk.len() { Some(FeoxError::IoError(io_error_other())) } else { None })", "R-then",
         "definition of bool::then; opaque io error"),
        (_lit("error.kind() == io::ErrorKind::Interrupted"), "error.is_interrupted()", "R-ioerr", "shim: the kind of an opaque io error"),
        (_lit("mark_file_indeterminate(self.file_identity, &self._file);"), "mark_file_indeterminate(&self.file_identity, &self._file, &mut self.file_marked);", "R-mark",
         "shim: the process-wide registry of indeterminate files, with a ghost flag on the handle"),
        (_lit("drop(self.ring.take());"), "drop_ring(&mut self.ring);", "R-take", "shim: Option::take + drop of the ring (the handle is gone; what the kernel holds is unaffected)"),
    ]
    for pat, rep, rname, why in table:
        n = 0
        while n < 16:
            n += 1
            mm = re.search(pat, text)
            if not mm:
                break
            new = mm.expand(rep)
            if new == text[mm.start():mm.end()]:
                break
            apps.append(_app(rname, text, mm.start(), mm.end(), new, why))
            text = text[:mm.start()] + new + text[mm.end():]
    return text, apps


def rule_treeslot(text):
    """TreeSlot (record.rs): crossbeam-epoch calls -> the opaque epoch surface"""
    apps = []
    ws = r"\s*"
    table = [
        (r"\bAtomic::new\(", "AtomicCell::new(", "R-handle", "opaque crossbeam_epoch::Atomic<Arc<Record>>"),
        (r"\bAtomic::null\(\)", "AtomicCell::null()", "R-handle", "opaque crossbeam_epoch::Atomic"),
        (r"\bOwned::new\(", "OwnedCell::new(", "R-handle", "opaque crossbeam_epoch::Owned"),
        (r"&" + ws + r"epoch::pin\(\)", "&epoch_pin()", "R-pin", "shim: crossbeam_epoch::pin()"),
        (r"\bdebug_assert!\(", "debug_check(", "R-dbg", "debug assertion: evaluated, no effect"),
        (r"\bmem::replace\(&mut" + ws + r"self\.record," + ws + r"AtomicCell::null\(\)\)", "replace_cell(&mut self.record, AtomicCell::null())", "R-take", "shim: mem::replace on the cell"),
        (r"\bdrop\((\w+)\.into_owned\(\)\)", r"drop_owned(\1.into_owned())", "R-handle", "shim: drop of the owned cell"),
        (r"\bunsafe" + ws + r"\{" + ws + r"([^{}]*?)" + ws + r"\}", r"\1", "R-unsafe",
         "`unsafe { call }` -> `call`: the operation's safety condition is the shim's precondition, which the call site must prove"),
    ]
    for pat, rep, rname, why in table:
        n = 0
        while n < 16:
            n += 1
            mm = re.search(pat, text)
            if not mm:
                break
            new = mm.expand(rep)
            if new == text[mm.start():mm.end()]:
                break
            apps.append(_app(rname, text, mm.start(), mm.end(), new, why))
            text = text[:mm.start()] + new + text[mm.end():]
    return text, apps


def rule_cfgunix(text):
    """cfg attributes in front of a block / statement inside a function body, decided for this platform (unix, linux):
    an attribute that holds is dropped, an item under one that does not hold (`not(unix)`, `not(target_os = "linux")`,
    `target_os = "windows"`, `not(any(unix, ..))`) is removed whole"""
    apps = []
    while True:
        m = mask(text)
        mm = re.search(r"#\[cfg\(", m)
        if not mm:
            return text, apps
        ob = m.index("[", mm.start())
        cb = match_close(m, ob)
        inner = re.sub(r"\s+", "", text[mm.end():cb - 1])
        neg = False
        core = inner
        if core.startswith("not(") and core.endswith(")"):
            neg = True
            core = core[4:-1]
        if core in ("unix", 'target_os="linux"') or core.startswith("any(unix,") or core.startswith('any(target_os="linux",'):
            base = True
        elif core in ('target_os="windows"', "windows", "test"):
            base = False
        else:
            return text, apps   # unknown predicate: left in place (a unit's forbid list turns it into `undecided`)
        end_attr = cb + 1
        while end_attr < len(text) and text[end_attr] in " \t\n":
            end_attr += 1
        if base != neg:
            apps.append(_app("R-cfg", text, mm.start(), end_attr, "", "this cfg predicate holds on the platform under verification (linux)"))
            text = text[:mm.start()] + text[end_attr:]
            continue
        k = end_attr
        while k < len(m) and m[k] not in "{;":
            k += 1
        if k >= len(m):
            return text, apps
        e = (match_close(m, k) + 1) if m[k] == "{" else (k + 1)
        apps.append(_app("R-cfg", text, mm.start(), e, "", "code for another platform / configuration is not compiled here"))
        text = text[:mm.start()] + text[e:]


def rule_rawio(text):
    """the raw syscalls of DiskIO::{read_sectors_sync, write_sectors_sync, flush} (io.rs)"""
    apps = []
    ws = r"\s*"
    table = [
        (_lit("unsafe { libc::pread( self.fd, buffer.as_mut_ptr() as *mut libc::c_void, size, offset as libc::off_t, ) }"), "PREAD(self.fd, &mut buffer, size, offset as i64)", "R-sys",
         "shim: pread; its precondition is the safety condition of the unsafe call (count bytes fit in the buffer)"),
        (_lit("unsafe { libc::pwrite( self.fd, aligned_buffer.as_ptr() as *const libc::c_void, aligned_buffer.len(), offset as libc::off_t, ) }"),
         "pwrite_aligned(self.fd, &aligned_buffer, aligned_buffer.len(), offset as i64)", "R-sys", "shim: pwrite from the aligned buffer"),
        (_lit("unsafe { libc::pwrite( self.fd, data.as_ptr() as *const libc::c_void, data.len(), offset as libc::off_t, ) }"),
         "pwrite_slice(self.fd, data, data.len(), offset as i64)", "R-sys", "shim: pwrite from the caller's slice"),
        (_lit("unsafe { if libc::fsync(self.fd) == -1 {") + r"([^{}]*)" + _lit("} }"), r"if fsync_fd(self.fd) == -1 {\1}", "R-sys", "shim: fsync"),
        (_lit("unsafe { libc::pwrite( self.fd, scratch.as_ptr() as *const libc::c_void, scratch.len(), (block_sector * FEOX_BLOCK_SIZE as u64) as libc::off_t, ) }"),
         "pwrite_aligned(self.fd, scratch, scratch.len(), (block_sector * FEOX_BLOCK_SIZE as u64) as i64)", "R-sys", "shim: pwrite from the scratch buffer"),
        (_lit("fill_retirement_markers(scratch.as_mut_slice(), block_sector, remaining);"), "fill_markers_aligned(scratch, block_sector, remaining);", "R-handle",
         "shim: the marker fill over the aligned buffer's len bytes"),
        (r"\(sectors" + ws + r"-" + ws + r"offset\)" + ws + r"\." + ws + r"min\(RETIREMENT_WRITE_BLOCKS\)", "min_usize(sectors - offset, RETIREMENT_WRITE_BLOCKS)", "R-min", "definition of Ord::min on usize"),
        (_lit("io::Error::last_os_error()"), "io_error_last_os()", "R-ioerr", "opaque io error (errno)"),
        (_lit("io::Error::new( io::ErrorKind::UnexpectedEof, format!(") + r"[^;]*?,\s*" + _lit(")))"), "io_error_eof()))", "R-ioerr", "opaque io error (message dropped)"),
        (_lit("io::Error::new( io::ErrorKind::UnexpectedEof, \"Partial write\", )"), "io_error_eof()", "R-ioerr", "opaque io error (message dropped)"),
        (_lit("aligned_buffer.as_mut_slice().copy_from_slice(data);"), "aligned_buffer.fill_from(data);", "R-cpy", "shim: copy into the aligned buffer (panics unless the lengths agree: its precondition)"),
        (_lit("buffer.as_slice().to_vec()"), "buffer.to_vec_copy()", "R-vec", "shim: the buffer's len bytes as a Vec"),
    ]
    for pat, rep, rname, why in table:
        n = 0
        while n < 8:
            n += 1
            mm = re.search(pat, text)
            if not mm:
                break
            new = mm.expand(rep)
            if new.startswith("PREAD("):
                # which buffer type? the nearest preceding `let mut buffer = ` decides
                before = text[:mm.start()]
                k1 = before.rfind("AlignedBuffer::new")
                k2 = max(before.rfind("zeroed_vec("), before.rfind("vec!["))
                new = ("pread_aligned" if k1 > k2 else "pread_vec") + new[len("PREAD"):]
            if new == text[mm.start():mm.end()]:
                break
            apps.append(_app(rname, text, mm.start(), mm.end(), new, why))
            text = text[:mm.start()] + new + text[mm.end():]
    return text, apps


def rule_sweeploop(text):
    """run_sweeper_loop (ttl_sweep.rs)"""
    apps = []
    ws = r"\s*"
    table = [
        (_lit("thread::sleep(config.sleep_interval);"), "thread_sleep(&config.sleep_interval);", "R-backoff", "shim: thread::sleep"),
        (_lit("Instant::now()"), "instant_now()", "R-handle", "shim: a point in time"),
        (_lit("let expiry_rate = if sampled > 0 { expired as f32 / sampled as f32 } else { 0.0 };"), "let expiry_rate = rate_of(expired, sampled);", "R-float",
         "shim: the expiry rate (f32 division; 0.0 for an empty sample) as an opaque value"),
        (_lit("expiry_rate < config.expiry_threshold"), "expiry_rate.below(&config.expiry_threshold)", "R-float", "shim: f32 comparison"),
        (_lit("start.elapsed() > config.max_time_per_run"), "start.elapsed_exceeds(&config.max_time_per_run)", "R-handle", "shim: elapsed time against a limit"),
        (_lit("std::time::SystemTime::now() .duration_since(std::time::UNIX_EPOCH) .unwrap() .as_nanos() as u64"), "wall_clock_nanos()", "R-ext", "shim: the wall clock"),
        (r"\b(total_sampled|total_expired)" + ws + r"\+=" + ws + r"(\w+)" + ws + r";", r"\1 = count_add(\1, \2);", "R-count",
         "a u64 progress counter: treated as non-overflowing (2^64 sampled keys are unreachable)"),
        (_lit("sample_and_expire_batch(&store, &config)"), "sample_and_expire_batch(&store, &config)", "R-ws", "unchanged"),
    ]
    for pat, rep, rname, why in table:
        n = 0
        while n < 8:
            n += 1
            mm = re.search(pat, text)
            if not mm:
                break
            new = mm.expand(rep)
            if new == text[mm.start():mm.end()]:
                break
            apps.append(_app(rname, text, mm.start(), mm.end(), new, why))
            text = text[:mm.start()] + new + text[mm.end():]
    return text, apps


def rule_extentpin(text):
    """the extent reader-pin word (record.rs)"""
    apps = []
    table = [
        (_lit("self.extent_state.compare_exchange_weak("), "self.extent_state.pin_cas(", "R-pincas",
         "shim: the compare-exchange that takes a pin; its precondition is the protocol rule (non-retired state, exactly one more reader); a failure returns an arbitrary current value"),
        (r"\bdebug_assert!\(", "debug_check(", "R-dbg", "debug assertion: evaluated, no effect"),
    ]
    for pat, rep, rname, why in table:
        n = 0
        while n < 8:
            n += 1
            mm = re.search(pat, text)
            if not mm:
                break
            new = mm.expand(rep)
            if new == text[mm.start():mm.end()]:
                break
            apps.append(_app(rname, text, mm.start(), mm.end(), new, why))
            text = text[:mm.start()] + new + text[mm.end():]
    return text, apps


def rule_journalpos(text):
    """DiskIO::{next_journal_position, journal_sector} (io.rs)"""
    apps = []
    ws = r"\s*"
    table = [
        (r"self" + ws + r"\." + ws + r"journal_generation" + ws + r"\." + ws + r"load\(" + ws + r"Ordering::\w+" + ws + r"\)", "self.journal_generation_load()", "R-atom", "load of the journal-generation atomic"),
        (r"self" + ws + r"\." + ws + r"journal_slot" + ws + r"\." + ws + r"load\(" + ws + r"Ordering::\w+" + ws + r"\)", "self.journal_slot_load()", "R-atom", "load of the journal-slot atomic"),
    ]
    for pat, rep, rname, why in table:
        n = 0
        while n < 8:
            n += 1
            mm = re.search(pat, text)
            if not mm:
                break
            new = mm.expand(rep)
            if new == text[mm.start():mm.end()]:
                break
            apps.append(_app(rname, text, mm.start(), mm.end(), new, why))
            text = text[:mm.start()] + new + text[mm.end():]
    return text, apps


def rule_wbshutdown(text):
    """WriteBuffer::{initiate_shutdown, finish_shutdown} (write_buffer.rs)"""
    apps = []
    ws = r"\s*"
    table = [
        (r"self" + ws + r"\." + ws + r"periodic_flush_handle" + ws + r"\." + ws + r"lock\(\)" + ws + r"\." + ws + r"take\(\)", "take_slot(&mut self.periodic_flush_handle)", "R-take", "verified helper: Option::take on the slot behind its mutex"),
        (r"std::mem::take\(&mut" + ws + r"\*self" + ws + r"\." + ws + r"worker_handles" + ws + r"\." + ws + r"lock\(\)\)", "take_handles(&mut self.worker_handles)", "R-take", "shim: mem::take on the handle list behind its mutex"),
        (r"let" + ws + r"_" + ws + r"=" + ws + r"(\w+)" + ws + r"\." + ws + r"join\(\)" + ws + r";", r"let _ = join_thread(\1, &self.shutdown);", "R-join",
         "shim: JoinHandle::join; its precondition (shutdown flag set) is what makes the join return"),
    ]
    for pat, rep, rname, why in table:
        n = 0
        while n < 8:
            n += 1
            mm = re.search(pat, text)
            if not mm:
                break
            new = mm.expand(rep)
            if new == text[mm.start():mm.end()]:
                break
            apps.append(_app(rname, text, mm.start(), mm.end(), new, why))
            text = text[:mm.start()] + new + text[mm.end():]
    return text, apps


def rule_sig_wbshutdown(text):
    apps = []
    mm = re.search(r"\(\s*&self\b", text)
    if mm:
        new = mm.group(0).replace("&self", "&mut self")
        apps.append(_app("R-sigmut", text, mm.start(), mm.end(), new, "interior mutability made explicit: the flag and the handle lists are fields of `self`"))
        text = text[:mm.start()] + new + text[mm.end():]
    return text, apps
