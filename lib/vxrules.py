"""The fixed rewrite table of the Verus route (DESIGN §2.1).

Every rule is `rule_<name>(text) -> (new_text, [application records])`.
A rule only fires where its whole pattern matches; sub-expressions (bounds,
patterns, closure bodies, arithmetic) are carried over verbatim.
"""
import re
from rsparse import mask, match_close, split_top_level


def _rel_line(text, off):
    return text.count("\n", 0, off)


def _app(rule, text, a, b, after, trusted="nothing"):
    return dict(rule=rule, rel_line=_rel_line(text, a), before=re.sub(r"\s+", " ", text[a:b]).strip(),
                after=re.sub(r"\s+", " ", after).strip(), trusted=trusted)


def _receiver_start(m, end):
    """Given masked text m and index `end` just past a receiver expression
    (i.e. m[end] == '.'), walk backwards to the start of the postfix chain."""
    i = end
    while True:
        # skip whitespace
        j = i
        while j > 0 and m[j - 1].isspace():
            j -= 1
        if j == 0:
            return j
        ch = m[j - 1]
        if ch in ")]":
            # find matching open
            close = ch
            open_ = "(" if ch == ")" else "["
            d = 0
            k = j - 1
            while k >= 0:
                if m[k] == close:
                    d += 1
                elif m[k] == open_:
                    d -= 1
                    if d == 0:
                        break
                k -= 1
            i = k
            continue
        if ch == "?":
            i = j - 1
            continue
        if ch.isalnum() or ch == "_":
            k = j - 1
            while k > 0 and (m[k - 1].isalnum() or m[k - 1] == "_"):
                k -= 1
            i = k
            # preceded by '.' or '::' -> continue chain
            p = k
            while p > 0 and m[p - 1].isspace():
                p -= 1
            if p > 0 and m[p - 1] == ".":
                i = p - 1
                continue
            if p > 1 and m[p - 2:p] == "::":
                i = p - 2
                continue
            # leading & or * or ! are part of a unary expr, not of the receiver
            return k
        if ch == ".":
            i = j - 1
            continue
        return j


def _method_calls(text, m, name):
    """Yield (dot_index, open_paren, close_paren) for `.name(` occurrences, last first."""
    out = []
    for mm in re.finditer(r"\.\s*%s\s*\(" % re.escape(name), m):
        op = mm.end() - 1
        out.append((mm.start(), op, match_close(m, op)))
    return out[::-1]


def _closure_parts(arg_text):
    """arg_text like `|PAT| BODY` -> (pat, body) or None"""
    a = arg_text.strip()
    if not a.startswith("|"):
        return None
    m = mask(a)
    # closing pipe: first '|' after the first at delimiter depth 0
    d = 0
    for i in range(1, len(a)):
        ch = m[i]
        if ch in "([{":
            d += 1
        elif ch in ")]}":
            d -= 1
        elif ch == "|" and d == 0:
            return a[1:i].strip(), a[i + 1:].strip()
    return None


# ---------------------------------------------------------------- visibility
def rule_vis(text):
    apps = []
    m = mask(text)
    out = text
    for mm in reversed(list(re.finditer(r"\bpub\((?:crate|super)\)", m))):
        apps.append(_app("R-vis", text, mm.start(), mm.end(), "pub"))
        out = out[:mm.start()] + "pub" + out[mm.end():]
    return out, apps


def rule_lifetime_const(text):
    mm = re.match(r"((?:pub\s+)?const\s+\w+\s*:\s*)&(\s*\[)", text)
    if mm:
        new = mm.group(1) + "&'static " + mm.group(2).lstrip() + text[mm.end():]
        return new, [_app("R-lt", text, 0, mm.end(), mm.group(1) + "&'static [")]
    return text, []


# ---------------------------------------------------------------- Option::map / filter / and_then
def _option_closure_rule(text, method, rname, build, trusted):
    apps = []
    while True:
        m = mask(text)
        done = True
        for dot, op, cl in _method_calls(text, m, method):
            parts = _closure_parts(text[op + 1:cl])
            if not parts:
                continue
            rs = _receiver_start(m, dot)
            recv = text[rs:dot].strip()
            if not recv or recv.endswith("iter()") or ".iter()" in recv.split("(")[-1]:
                pass
            new = build(recv, parts[0], parts[1])
            if new is None:
                continue
            apps.append(_app(rname, text, rs, cl + 1, new, trusted))
            text = text[:rs] + new + text[cl + 1:]
            done = False
            break
        if done:
            return text, apps


def rule_omap(text):
    return _option_closure_rule(
        text, "map", "R-omap",
        lambda e, p, b: None if _is_non_option_receiver(e) else "(match %s { Some(%s) => Some(%s), None => None })" % (e, p, b),
        "definition of Option::map")


def rule_oandthen(text):
    return _option_closure_rule(
        text, "and_then", "R-oand",
        lambda e, p, b: "(match %s { Some(%s) => %s, None => None })" % (e, p, b),
        "definition of Option::and_then")


def rule_ofilt(text):
    def build(e, p, b):
        if _is_non_option_receiver(e):
            return None
        # closure param binds a reference; the match arm binds by value -
        # a leading `*x` deref of the parameter is dropped (`*end <= t` -> `end <= t`)
        b2 = re.sub(r"\*\s*%s\b" % re.escape(p), p, b) if re.match(r"^\w+$", p) else b
        return "(match %s { Some(%s) if %s => Some(%s), _ => None })" % (e, p, b2, p)
    return _option_closure_rule(text, "filter", "R-ofilt", build, "definition of Option::filter")


def _is_non_option_receiver(e):
    # iterator adapters are handled by other rules; never treat them as Options
    tail = e.rstrip()
    return tail.endswith(".iter()") or tail.endswith(".into_iter()") or tail.endswith(".windows(2)") \
        or tail.endswith(".enumerate()")


# ---------------------------------------------------------------- BTreeMap probes
def rule_range(text):
    """M.range(R).next() / .next_back(), M.iter().next_back()  ->  shim calls."""
    apps = []
    while True:
        m = mask(text)
        hit = None
        for dot, op, cl in _method_calls(text, m, "range"):
            tail = re.match(r"\s*\.\s*(next_back|next)\s*\(\s*\)", m[cl + 1:])
            if not tail:
                continue
            rs = _receiver_start(m, dot)
            recv = text[rs:dot].strip()
            rng = text[op + 1:cl].strip()
            rm = mask(rng)
            which = tail.group(1)
            nxt = which == "next"
            if "..=" in rm:
                lo, hi = split_top_level(rm, rng, "..=")
                lo, hi = lo.strip(), hi.strip()
                if lo and hi:
                    new = "%s(&%s, %s, %s)" % ("btree_first_in_incl" if nxt else "btree_last_in_incl", recv, lo, hi)
                elif hi:
                    new = "%s(&%s, %s)" % ("btree_first_le" if nxt else "btree_last_le", recv, hi)
                else:
                    continue
            elif ".." in rm:
                lo, hi = split_top_level(rm, rng, "..")
                lo, hi = lo.strip(), hi.strip()
                if lo and hi:
                    new = "%s(&%s, %s, %s)" % ("btree_first_in_excl" if nxt else "btree_last_in_excl", recv, lo, hi)
                elif lo:
                    new = "%s(&%s, %s)" % ("btree_first_ge" if nxt else "btree_last_ge", recv, lo)
                elif hi:
                    new = "%s(&%s, %s)" % ("btree_first_lt" if nxt else "btree_last_lt", recv, hi)
                else:
                    continue
            else:
                continue
            end = cl + 1 + tail.end()
            hit = (rs, end, new)
            break
        if not hit:
            # M.iter().next_back()
            mm = re.search(r"\.\s*iter\s*\(\s*\)\s*\.\s*(next_back|next)\s*\(\s*\)", m)
            if mm:
                rs = _receiver_start(m, mm.start())
                recv = text[rs:mm.start()].strip()
                hit = (rs, mm.end(), "%s(&%s)" % ("btree_last" if mm.group(1) == "next_back" else "btree_first", recv))
        if not hit:
            return text, apps
        rs, end, new = hit
        apps.append(_app("R-range", text, rs, end, new,
                         "shim contract: least/greatest key of the map inside the range and its value"))
        text = text[:rs] + new + text[end:]


# ---------------------------------------------------------------- slices and little-endian codecs
def _index_sites(m):
    """Yield (open_bracket, close_bracket) of index expressions `recv[ ... ]` (not array literals /
    types / attributes), last first."""
    out = []
    for i, ch in enumerate(m):
        if ch != "[":
            continue
        j = i - 1
        while j >= 0 and m[j].isspace():
            j -= 1
        if j < 0:
            continue
        if not (m[j].isalnum() or m[j] in "_)]"):
            continue
        # keyword before '[' (e.g. `in [..]`, `return [..]`) is not a receiver
        k = j
        while k >= 0 and (m[k].isalnum() or m[k] == "_"):
            k -= 1
        word = m[k + 1:j + 1]
        if word in ("in", "return", "mut", "let", "else", "match", "if", "as"):
            continue
        out.append((i, match_close(m, i)))
    return out[::-1]


def rule_sub(text):
    """rvalue `S[a..b]`, `S[..b]`, `S[a..]`, `S[..]` (optionally `&`-prefixed) -> slice_subrange(S, a, b)."""
    apps = []
    while True:
        m = mask(text)
        hit = None
        for ob, cb in _index_sites(m):
            inner = text[ob + 1:cb]
            im = m[ob + 1:cb]
            if "..=" in im:
                continue
            parts = split_top_level(im, inner, "..")
            if len(parts) != 2:
                continue
            # lvalue uses are handled by R-cpy
            after = m[cb + 1:cb + 40].lstrip()
            if after.startswith(".copy_from_slice") or after.startswith(".fill(") or re.match(r"=[^=]", after):
                continue
            rs = _receiver_start(m, ob)
            recv = text[rs:ob].strip()
            if not recv:
                continue
            lo = parts[0].strip() or "0"
            hi = parts[1].strip()
            # strip one leading `&` / `&mut` in front of the receiver
            pre = rs
            k = rs - 1
            while k >= 0 and m[k].isspace():
                k -= 1
            if k >= 0 and m[k] == "&":
                pre = k
            if m[max(0, pre - 4):pre].strip().endswith("mut"):
                continue
            base = recv
            if not hi:
                hi = "%s.len()" % base
            new = "slice_subrange(%s, %s, %s)" % (_as_slice(base), lo, hi)
            hit = (pre, cb + 1, new)
            break
        if not hit:
            return text, apps
        a, b, new = hit
        apps.append(_app("R-sub", text, a, b, new, "vstd spec of slice_subrange"))
        text = text[:a] + new + text[b:]


_VEC_RECEIVERS = set()


def _as_slice(base):
    # Vec receivers need an explicit as_slice(); units list them in UNIT['vec_receivers']
    if base in _VEC_RECEIVERS:
        return base + ".as_slice()"
    return base


def rule_le(text):
    """uN::from_le_bytes(E.try_into().X) -> uN_from_le(E);  uN::from_le_bytes([a, b]) -> u16_from_le2(a, b);
    uN::from_le_bytes(ident) -> uN_from_le_arr(ident)."""
    apps = []
    while True:
        m = mask(text)
        hit = None
        for mm in re.finditer(r"\b(u16|u32|u64)\s*::\s*from_le_bytes\s*\(", m):
            op = mm.end() - 1
            cl = match_close(m, op)
            arg = text[op + 1:cl].strip()
            am = mask(arg)
            ty = mm.group(1)
            t1 = re.search(r"\.\s*try_into\s*\(\s*\)\s*\.\s*(ok\s*\(\s*\)\s*\?|unwrap\s*\(\s*\))\s*,?\s*$", am)
            if t1:
                e = arg[:t1.start()].strip()
                new = "%s_from_le(%s)" % (ty, e)
            elif am.startswith("["):
                inner = arg[1:am.rindex("]")]
                parts = [x.strip() for x in split_top_level(mask(inner), inner, ",") if x.strip()]
                new = "%s_from_le%d(%s)" % (ty, len(parts), ", ".join(parts))
            elif re.fullmatch(r"\w+", arg):
                new = "%s_from_le_arr(%s)" % (ty, arg)
            else:
                continue
            hit = (mm.start(), cl + 1, new)
            break
        if not hit:
            return text, apps
        a, b, new = hit
        apps.append(_app("R-le", text, a, b, new, "shim: little-endian value of the bytes (std from_le_bytes); length precondition replaces the infallible try_into"))
        text = text[:a] + new + text[b:]


def rule_tovec(text):
    apps = []
    while True:
        m = mask(text)
        mm = re.search(r"\.\s*to_vec\s*\(\s*\)", m)
        if not mm:
            return text, apps
        rs = _receiver_start(m, mm.start())
        recv = text[rs:mm.start()].strip()
        new = "slice_to_vec(%s)" % recv
        apps.append(_app("R-vec", text, rs, mm.end(), new, "vstd spec of slice_to_vec"))
        text = text[:rs] + new + text[mm.end():]


def rule_tryinto_letelse(text):
    """`let Ok(x) = E.try_into() else { ... };` -> `let Ok(x) = try_into_array8(E) else { ... };`"""
    apps = []
    while True:
        m = mask(text)
        mm = re.search(r"let\s+Ok\s*\(\s*\w+\s*\)\s*=\s*", m)
        hit = None
        for mm in re.finditer(r"let\s+Ok\s*\(\s*\w+\s*\)\s*=\s*", m):
            rest = m[mm.end():]
            t = re.search(r"\.\s*try_into\s*\(\s*\)\s*else\b", rest)
            if not t:
                continue
            semi = rest.find(";")
            if semi >= 0 and t.start() > semi:
                continue
            e = text[mm.end():mm.end() + t.start()].strip()
            a = mm.end()
            b = mm.end() + t.start() + len(re.match(r"\.\s*try_into\s*\(\s*\)", rest[t.start():]).group(0))
            hit = (a, b, "try_into_array8(%s)" % e)
            break
        if not hit:
            return text, apps
        a, b, new = hit
        apps.append(_app("R-tryinto", text, a, b, new, "shim: <[u8; 8]>::try_from(&[u8]) succeeds iff the length is 8"))
        text = text[:a] + new + text[b:]


def rule_slice_ne(text):
    """`A != B[..]` / `A == B` on byte slices where one side is a slice_subrange(...) call:
    -> !slice_eq(A, B) / slice_eq(A, B). Only the form `slice_subrange(..) (!=|==) X[..]` / const."""
    apps = []
    while True:
        m = mask(text)
        hit = None
        for mm in re.finditer(r"slice_subrange\s*\(", m):
            op = mm.end() - 1
            cl = match_close(m, op)
            t = re.match(r"\s*(!=|==)\s*", m[cl + 1:])
            if not t:
                continue
            rhs_start = cl + 1 + t.end()
            # rhs: up to the next `{`, `&&`, `||`, `)` at depth 0 or `;`
            d = 0
            j = rhs_start
            while j < len(m):
                ch = m[j]
                if ch in "([":
                    d += 1
                elif ch in ")]":
                    if d == 0:
                        break
                    d -= 1
                elif d == 0 and (ch in "{;," or m.startswith("&&", j) or m.startswith("||", j)):
                    break
                j += 1
            rhs = text[rhs_start:j].strip()
            if rhs.endswith("[..]"):
                rhs = rhs[:-4] + ".as_slice()"
            lhs = text[mm.start():cl + 1]
            neg = "!" if t.group(1) == "!=" else ""
            hit = (mm.start(), j, "%sslice_eq(%s, %s) " % (neg, lhs, rhs))
            break
        if not hit:
            return text, apps
        a, b, new = hit
        apps.append(_app("R-seq", text, a, b, new, "shim: byte-wise slice equality (PartialEq for [u8])"))
        text = text[:a] + new + text[b:]
