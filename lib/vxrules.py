"""The fixed rewrite table of the Verus route (DESIGN §2.1).

Every rule is `rule_<name>(text) -> (new_text, [application records])`.
A rule only fires where its whole pattern matches; sub-expressions (bounds,
patterns, closure bodies, arithmetic) are carried over verbatim.
"""
import re
from rsparse import mask, match_close, split_top_level


def _rel_line(text, off):
    return text.count("\n", 0, off)


def _app(rule, text, a, b, after, trusted="nothing"):
    return dict(rule=rule, rel_line=_rel_line(text, a), before=re.sub(r"\s+", " ", text[a:b]).strip(),
                after=re.sub(r"\s+", " ", after).strip(), trusted=trusted)


def _receiver_start(m, end):
    """Given masked text m and index `end` just past a receiver expression
    (i.e. m[end] == '.'), walk backwards to the start of the postfix chain."""
    i = end
    while True:
        # skip whitespace
        j = i
        while j > 0 and m[j - 1].isspace():
            j -= 1
        if j == 0:
            return j
        ch = m[j - 1]
        if ch in ")]":
            # find matching open
            close = ch
            open_ = "(" if ch == ")" else "["
            d = 0
            k = j - 1
            while k >= 0:
                if m[k] == close:
                    d += 1
                elif m[k] == open_:
                    d -= 1
                    if d == 0:
                        break
                k -= 1
            i = k
            continue
        if ch == "?":
            i = j - 1
            continue
        if ch.isalnum() or ch == "_":
            k = j - 1
            while k > 0 and (m[k - 1].isalnum() or m[k - 1] == "_"):
                k -= 1
            i = k
            # preceded by '.' or '::' -> continue chain
            p = k
            while p > 0 and m[p - 1].isspace():
                p -= 1
            if p > 0 and m[p - 1] == ".":
                i = p - 1
                continue
            if p > 1 and m[p - 2:p] == "::":
                i = p - 2
                continue
            # leading & or * or ! are part of a unary expr, not of the receiver
            return k
        if ch == ".":
            i = j - 1
            continue
        return j


def _method_calls(text, m, name):
    """Yield (dot_index, open_paren, close_paren) for `.name(` occurrences, last first."""
    out = []
    for mm in re.finditer(r"\.\s*%s\s*\(" % re.escape(name), m):
        op = mm.end() - 1
        out.append((mm.start(), op, match_close(m, op)))
    return out[::-1]


def _closure_parts(arg_text):
    """arg_text like `|PAT| BODY` -> (pat, body) or None"""
    a = arg_text.strip()
    if not a.startswith("|"):
        return None
    m = mask(a)
    # closing pipe: first '|' after the first at delimiter depth 0
    d = 0
    for i in range(1, len(a)):
        ch = m[i]
        if ch in "([{":
            d += 1
        elif ch in ")]}":
            d -= 1
        elif ch == "|" and d == 0:
            return a[1:i].strip(), a[i + 1:].strip()
    return None


# ---------------------------------------------------------------- visibility
def rule_vis(text):
    apps = []
    m = mask(text)
    out = text
    for mm in reversed(list(re.finditer(r"\bpub\((?:crate|super)\)", m))):
        apps.append(_app("R-vis", text, mm.start(), mm.end(), "pub"))
        out = out[:mm.start()] + "pub" + out[mm.end():]
    return out, apps


def rule_lifetime_const(text):
    mm = re.match(r"((?:pub\s+)?const\s+\w+\s*:\s*)&(\s*\[)", text)
    if mm:
        new = mm.group(1) + "&'static " + mm.group(2).lstrip() + text[mm.end():]
        return new, [_app("R-lt", text, 0, mm.end(), mm.group(1) + "&'static [")]
    return text, []


# ---------------------------------------------------------------- Option::map / filter / and_then
def _option_closure_rule(text, method, rname, build, trusted):
    apps = []
    while True:
        m = mask(text)
        done = True
        for dot, op, cl in _method_calls(text, m, method):
            parts = _closure_parts(text[op + 1:cl])
            if not parts:
                continue
            rs = _receiver_start(m, dot)
            recv = text[rs:dot].strip()
            if not recv or recv.endswith("iter()") or ".iter()" in recv.split("(")[-1]:
                pass
            new = build(recv, parts[0], parts[1])
            if new is None:
                continue
            apps.append(_app(rname, text, rs, cl + 1, new, trusted))
            text = text[:rs] + new + text[cl + 1:]
            done = False
            break
        if done:
            return text, apps


def rule_omap(text):
    return _option_closure_rule(
        text, "map", "R-omap",
        lambda e, p, b: None if _is_non_option_receiver(e) else "(match %s { Some(%s) => Some(%s), None => None })" % (e, p, b),
        "definition of Option::map")


def rule_oandthen(text):
    return _option_closure_rule(
        text, "and_then", "R-oand",
        lambda e, p, b: "(match %s { Some(%s) => %s, None => None })" % (e, p, b),
        "definition of Option::and_then")


def rule_ofilt(text):
    def build(e, p, b):
        if _is_non_option_receiver(e):
            return None
        # closure param binds a reference; the match arm binds by value -
        # a leading `*x` deref of the parameter is dropped (`*end <= t` -> `end <= t`)
        b2 = re.sub(r"\*\s*%s\b" % re.escape(p), p, b) if re.match(r"^\w+$", p) else b
        return "(match %s { Some(%s) if %s => Some(%s), _ => None })" % (e, p, b2, p)
    return _option_closure_rule(text, "filter", "R-ofilt", build, "definition of Option::filter")


def _is_non_option_receiver(e):
    # iterator adapters are handled by other rules; never treat them as Options
    tail = e.rstrip()
    return tail.endswith(".iter()") or tail.endswith(".into_iter()") or tail.endswith(".windows(2)") \
        or tail.endswith(".enumerate()")


# ---------------------------------------------------------------- BTreeMap probes
def rule_range(text):
    """M.range(R).next() / .next_back(), M.iter().next_back()  ->  shim calls."""
    apps = []
    while True:
        m = mask(text)
        hit = None
        for dot, op, cl in _method_calls(text, m, "range"):
            tail = re.match(r"\s*\.\s*(next_back|next)\s*\(\s*\)", m[cl + 1:])
            if not tail:
                continue
            rs = _receiver_start(m, dot)
            recv = text[rs:dot].strip()
            rng = text[op + 1:cl].strip()
            rm = mask(rng)
            which = tail.group(1)
            nxt = which == "next"
            if "..=" in rm:
                lo, hi = split_top_level(rm, rng, "..=")
                lo, hi = lo.strip(), hi.strip()
                if lo and hi:
                    new = "%s(&%s, %s, %s)" % ("btree_first_in_incl" if nxt else "btree_last_in_incl", recv, lo, hi)
                elif hi:
                    new = "%s(&%s, %s)" % ("btree_first_le" if nxt else "btree_last_le", recv, hi)
                else:
                    continue
            elif ".." in rm:
                lo, hi = split_top_level(rm, rng, "..")
                lo, hi = lo.strip(), hi.strip()
                if lo and hi:
                    new = "%s(&%s, %s, %s)" % ("btree_first_in_excl" if nxt else "btree_last_in_excl", recv, lo, hi)
                elif lo:
                    new = "%s(&%s, %s)" % ("btree_first_ge" if nxt else "btree_last_ge", recv, lo)
                elif hi:
                    new = "%s(&%s, %s)" % ("btree_first_lt" if nxt else "btree_last_lt", recv, hi)
                else:
                    continue
            else:
                continue
            end = cl + 1 + tail.end()
            hit = (rs, end, new)
            break
        if not hit:
            # M.iter().next_back()
            mm = re.search(r"\.\s*iter\s*\(\s*\)\s*\.\s*(next_back|next)\s*\(\s*\)", m)
            if mm:
                rs = _receiver_start(m, mm.start())
                recv = text[rs:mm.start()].strip()
                hit = (rs, mm.end(), "%s(&%s)" % ("btree_last" if mm.group(1) == "next_back" else "btree_first", recv))
        if not hit:
            return text, apps
        rs, end, new = hit
        apps.append(_app("R-range", text, rs, end, new,
                         "shim contract: least/greatest key of the map inside the range and its value"))
        text = text[:rs] + new + text[end:]
