"""Property -> verification units, assumptions and undecided clauses.

Each unit entry: (route, unit_name, function filter or None).
`route` is "verus" (lib/verus_route.py) or "kani" (lib/kani_route.py).
A function filter restricts which obligations of the unit count for the property.
"""

ASSUMPTIONS = {
    "A1": "crc32c hardware paths (_mm_crc32_*, __crc32c*; unsafe) compute the same function as crc32c_sw; Verus treats CRC-32C as an uninterpreted function, Kani runs crc32c_sw",
    "A2": "kernel/device: pwrite, fsync, pread, io_uring behave as documented; the io_uring path of batch_write_inner, InFlightBuffers, O_DIRECT buffers and AlignedBuffer are unverified unsafe code",
    "A3": "atomics and locks are given sequential semantics (one thread, uncontended parking_lot fast paths); no claim about interleavings follows",
    "A4": "SystemTime::now() returns an arbitrary u64",
    "A5": "Verus shims for std APIs (BTreeMap range probes, from/to_le_bytes, copy_from_slice, div_ceil, iter().all, sort, max_by_key) and the vstd specs for BTreeMap, Vec, slices, Option are correct",
    "A6": "callers of FreeSpaceManager::{initialize,set_device_size} pass a size accepted by validate_device_size (true at the call sites in persistence.rs/recovery.rs; not machine-checked)",
    "A7": "<[u8]>::to_vec / Vec::clone yield capacity == len",
    "A8": "frontier call sites: store-level functions call the contracted functions in the way the property needs (outside both tools)",
    "A9": "termination is not proved for Kani harnesses (unwinding assertions only) nor for CAS loops in Verus",
    "A10": "Kani stubs: ghost I/O, VersionClock::shard, crc32c -> crc32c_sw, parking_lot slow paths (unreachable!())",
    "A11": "opaque foreign types in the read-path unit: each accessor shim is the field read or method call it names",
}

PROPS = {
    "C06": dict(
        units=[("verus", "free_space", None)],
        assumptions=["A3", "A5", "A6"],
        not_decided=["the client invariant that outstanding allocations live in the complement of the free set (callers in write_buffer.rs / recovery.rs)",
                     "best-fit placement and the error variant are deliberately not pinned (mechanism, not property)"],
        technique="contract-based deductive verification (Verus) of the real free_space.rs, mechanically extracted each run",
        level_text="Unbounded deductive proof (Verus/Z3) that every public operation of the real FreeSpaceManager, extracted mechanically from /repo on each run, satisfies a contract over the set-of-free-blocks view and re-establishes the representation invariant (two trees agree, runs in bounds, fully coalesced, total == 4096*|free set|); the 'every call sequence' quantifier is discharged by invariant induction, which no finite test can do.",
    ),
    "C09": dict(
        units=[("kani", "io_ordering", None)],
        assumptions=["A2", "A3", "A9", "A10"],
        not_decided=["what the write buffer does with these errors (requeue, scrub, quarantine: failed_batch_outcome and friends; process_write_batch is intractable for CBMC, DESIGN U10)",
                     "two-fault and persistent-fault sequences beyond what poisoning implies",
                     "error propagation worker -> force_flush -> flush_all (channels, threads)",
                     "reads from memory during faults; reopen after an indeterminate failure",
                     "the io_uring path of batch_write_inner (unsafe + kernel)"],
        technique="Kani/CBMC proofs of ghost-trace I/O contracts on the real DiskIO functions (staged copy of the crate, syscalls stubbed to a trace, one symbolic failing call)",
        level_text="Per-function contracts on the real DiskIO mutators, checked by Kani/CBMC for all generations/slots/sectors and every position of one failing write or fsync: Ok implies every write was followed by a successful fsync; Err leaves in-memory journal positions unchanged; a failed retirement poisons the handle and every later write/flush/journal call is refused without touching the device. Harnesses with a loop are bounded and labelled so. Only the DiskIO layer is decided; the write-buffer reaction to errors is not.",
    ),
}
