"""Property -> verification units, assumptions and undecided clauses.

Each unit entry: (route, unit_name, function filter or None).
`route` is "verus" (lib/verus_route.py) or "kani" (lib/kani_route.py).
A function filter restricts which obligations of the unit count for the property.
"""

ASSUMPTIONS = {
    "A1": "crc32c hardware paths (_mm_crc32_*, __crc32c*; unsafe) compute the same function as crc32c_sw; Verus treats CRC-32C as an uninterpreted function, Kani runs crc32c_sw",
    "A2": "kernel/device: pwrite, fsync, pread, io_uring behave as documented; the io_uring path of batch_write_inner, InFlightBuffers, O_DIRECT buffers and AlignedBuffer are unverified unsafe code",
    "A3": "atomics and locks are given sequential semantics (one thread, uncontended parking_lot fast paths); no claim about interleavings follows",
    "A4": "SystemTime::now() returns an arbitrary u64",
    "A5": "Verus shims for std APIs (BTreeMap range probes, from/to_le_bytes, copy_from_slice, div_ceil, iter().all, sort, max_by_key) and the vstd specs for BTreeMap, Vec, slices, Option are correct",
    "A6": "callers of FreeSpaceManager::{initialize,set_device_size} pass a size accepted by validate_device_size (true at the call sites in persistence.rs/recovery.rs; not machine-checked)",
    "A7": "<[u8]>::to_vec / Vec::clone yield capacity == len",
    "A8": "frontier call sites: store-level functions call the contracted functions in the way the property needs (outside both tools)",
    "A9": "termination is not proved for Kani harnesses (unwinding assertions only) nor for CAS loops in Verus",
    "A10": "Kani stubs: ghost I/O, VersionClock::shard, crc32c -> crc32c_sw, parking_lot slow paths (unreachable!())",
    "A11": "opaque foreign types in the read-path unit: each accessor shim is the field read or method call it names",
}

PROPS = {
    "C06": dict(
        units=[("verus", "free_space", None)],
        assumptions=["A3", "A5", "A6"],
        not_decided=["the client invariant that outstanding allocations live in the complement of the free set (callers in write_buffer.rs / recovery.rs)",
                     "best-fit placement and the error variant are deliberately not pinned (mechanism, not property)"],
        technique="contract-based deductive verification (Verus) of the real free_space.rs, mechanically extracted each run",
        level_text="Unbounded deductive proof (Verus/Z3) that every public operation of the real FreeSpaceManager, extracted mechanically from /repo on each run, satisfies a contract over the set-of-free-blocks view and re-establishes the representation invariant (two trees agree, runs in bounds, fully coalesced, total == 4096*|free set|); the 'every call sequence' quantifier is discharged by invariant induction, which no finite test can do.",
    ),
    "C09": dict(
        units=[("kani", "io_ordering", None)],
        assumptions=["A2", "A3", "A9", "A10"],
        not_decided=["what the write buffer does with these errors (requeue, scrub, quarantine: failed_batch_outcome and friends; process_write_batch is intractable for CBMC, DESIGN U10)",
                     "two-fault and persistent-fault sequences beyond what poisoning implies",
                     "error propagation worker -> force_flush -> flush_all (channels, threads)",
                     "reads from memory during faults; reopen after an indeterminate failure",
                     "the io_uring path of batch_write_inner (unsafe + kernel)"],
        technique="Kani/CBMC proofs of ghost-trace I/O contracts on the real DiskIO functions (staged copy of the crate, syscalls stubbed to a trace, one symbolic failing call)",
        level_text="Per-function contracts on the real DiskIO mutators, checked by Kani/CBMC for all generations/slots/sectors and every position of one failing write or fsync: Ok implies every write was followed by a successful fsync; Err leaves in-memory journal positions unchanged; a failed retirement poisons the handle and every later write/flush/journal call is refused without touching the device. Harnesses with a loop are bounded and labelled so. Only the DiskIO layer is decided; the write-buffer reaction to errors is not.",
    ),
    "C10": dict(
        units=[("verus", "record_codec", ["parse_record", "record_header_size", "total_size", "value_offset", "sector_holds_record", "lemma"]),
               ("kani", "crc_token", None), ("kani", "retirement_marker", None), ("kani", "metadata", None)],
        assumptions=["A1", "A3", "A5", "A9", "A10"],
        not_decided=["'an independent reader finds exactly the live keys after flush' needs the whole flush pipeline (process_write_batch: DESIGN U10)",
                     "golden files of the released format: none exist offline; the layout statements in vx/*/spec.rs and kx/*.harness.rs are a frozen transcription of the documented layout",
                     "the record ENCODER (serialize_record_into / prepare_record_data) and the allocation-journal image: units not built yet in this session",
                     "metadata counters equal to live totals (store-level)"],
        technique="Verus contracts on the real record decoders + Kani proofs of token/marker/metadata codecs against independent layout statements",
        level_text="Each on-disk encoding within reach is pinned to an independent statement of the documented layout: the v1 and v2/v3 record decoders and the head-identity check (Verus, unbounded in key and buffer length), the record/marker token formula and its recovery-side twin, the retirement marker bytes, the metadata block (offsets, checksum coverage, generation, primary/backup alternation) (Kani, complete for fixed-size codecs, bounded where labelled). Encoder and decoder are each compared with the layout, not with each other, so a symmetric change fails.",
    ),
    "C17": dict(
        units=[("verus", "record_codec", ["parse_record", "sector_holds_record", "validate_device_size"]),
               ("kani", "metadata", ["metadata_from_bytes_contract", "read_metadata_selection"]),
               ("kani", "crc_token", ["header_range_contract_v1", "header_range_contract_v2", "record_seq_token_spec"]),
               ("kani", "retirement_marker", ["complete_retirement_block_contract", "journal_overlaps_contract"])],
        assumptions=["A2", "A5", "A9", "A10"],
        not_decided=["the scan loop itself (scan_and_rebuild_indexes): its progress argument, arithmetic on attacker-controlled lengths and strict v3 rejections are inline next to hash-table calls (DESIGN F5)",
                     "decode/decode_slot of the allocation journal and RecoveryScanner::{block,visit_blocks,fill_at}: units not built yet in this session",
                     "'a store that does open answers every call without panicking' (store level)",
                     "'rejected without being modified' for non-FeOx files (file-system protocol in persistence.rs)"],
        technique="Verus (no-panic/overflow/bounds obligations on the real decoders for arbitrary bytes) + Kani complete proofs for fixed-size decoders",
        level_text="Totality of the decoders that recovery applies to untrusted bytes: for ANY byte slice the record parsers, the head-identity check, header_range, the marker check and the metadata decoder neither panic, overflow nor index out of bounds, and accept only what the layout allows; device sizes are accepted iff in range and block-aligned. Verus discharges bounds and overflow obligations for unbounded lengths; Kani covers the fixed-size decoders completely.",
    ),
    "C03": dict(
        units=[("kani", "crc_token", None), ("kani", "metadata", None), ("kani", "retirement_marker", None), ("kani", "io_ordering", None)],
        assumptions=["A1", "A2", "A3", "A8", "A9", "A10"],
        not_decided=["sufficiency: the argument that these obligations imply the property is written in DESIGN.md §4, not machine-checked",
                     "the scan loop's winner selection and len() bookkeeping; 4 KiB sector atomicity; collision freedom of a 16-bit token",
                     "journal slot selection (decode): unit not built yet in this session",
                     "process_write_batch's publication order (DESIGN U10)"],
        technique="Kani proofs of the necessary per-function obligations (token binding, newest-valid metadata, journal->data->fsync->clear ordering with ghost I/O trace)",
        level_text="Necessary mechanism obligations only: the record token is fold(CRC32C(le64(landing sector) ++ extent with the token field zeroed)), never 0, and recovery recomputes the same value; the metadata reader picks the newest valid copy and the writer never overwrites the copy holding the last durable generation; every retirement is journal(intent) -> fsync -> markers -> clear -> fsync with the journal position advanced only after its fsync; marker bytes and their acceptance test agree.",
    ),
    "C04": dict(
        units=[("kani", "io_ordering", ["replay_journal_ordering", "retire_extents_ordering", "retire_unjournaled_covers_extent", "journal_clear_ordering", "journal_position_contract"]),
               ("kani", "retirement_marker", None)],
        assumptions=["A2", "A3", "A8", "A9", "A10"],
        not_decided=["that the extents recovery chooses belong to no live record (inline in the scan loop); winner determinism",
                     "decoded journal extents in bounds and disjoint (decode_slot): unit not built yet in this session"],
        technique="Kani proofs: replay order (markers, fsync, clear last), marker determinism, writes confined to the given extents",
        level_text="Necessary obligations for restartable recovery: journal replay writes markers first and clears the journal last, so a crash before the clear re-runs the same writes; marker bytes are a pure function of (sector, remaining) so a re-run rewrites identical bytes; marker writes cover exactly the given extent; post-scan retirement goes through the journaled transaction.",
    ),
    "C05": dict(
        units=[("verus", "free_space", None), ("verus", "record_codec", ["total_size", "record_header_size", "value_offset"])],
        assumptions=["A3", "A5", "A6", "A8"],
        not_decided=["that the engine releases each retired extent exactly once and only after its markers are durable (process_deletions / failed-batch cleanup ordering)",
                     "recovery's gap reconstruction; persisted counters",
                     "that writer, reader, retirer and recovery all call total_size(..).div_ceil(4096) (visible in the source, A8)"],
        technique="Verus: allocator contracts over the free-set view + the single extent-length formula",
        level_text="Free-pool half: the allocator only hands out blocks of the free set, removes exactly those, never leaves the data area; a release is accepted iff in bounds, unreserved and disjoint from the free set, adds exactly that range and changes nothing on rejection; runs are always fully coalesced, so releasing everything restores the fresh single-run state (lemma_full_is_single_run). Extent length: total_size == header + value length for both formats.",
    ),
}
