import json
import os

import props

VERIF = os.path.dirname(os.path.dirname(os.path.abspath(__file__)))


def write(pid, P, tier, seed, results, all_obl, bounded, violations, known_hits, undecided, wall, twin_note=None):
    if os.environ.get('VERIF_NO_EVIDENCE'):
        return
    os.makedirs(os.path.join(VERIF, "evidence"), exist_ok=True)
    discharged = [o for o in all_obl if o["status"] == "discharged"]
    trusted = []
    for a in P.get("assumptions", []):
        trusted.append("%s: %s" % (a, props.ASSUMPTIONS[a]))
    fns = []
    rewrites = []
    dropped = []
    scans = []
    units = []
    cmds = []
    sha = {}
    for route, unit, filt, r in results:
        cmds.append(r.cmd)
        sha.update(getattr(r, "sha256", {}) or {})
        units.append(dict(route=route, unit=unit, status=r.status, reason=r.reason, wall_s=round(r.wall_s, 2),
                          solver_ms=getattr(r, "smt_ms", 0), backend=("verus+z3" if route == "verus" else "kani+cbmc"),
                          verus_verified_items=getattr(r, "verified_count", None),
                          vacuity=getattr(r, "vacuity", None), generated_file=getattr(r, "file", None),
                          solver_seeds=getattr(r, "seeds_checked", None)))
        for f in getattr(r, "functions", []):
            fns.append(dict(unit=unit, function=f["fn"], file=f.get("file"), line=f.get("line"),
                            contracted=f.get("contracted", True)))
        for a in getattr(r, "fidelity", []):
            rewrites.append(dict(unit=unit, rule=a.get("rule"), file=a.get("file"), line=a.get("line"), item=a.get("item"),
                                 before=a.get("before", "")[:160], after=a.get("after", "")[:200], trusted=a.get("trusted")))
        for d in getattr(r, "dropped", []):
            dropped.append(dict(unit=unit, **d))
        for a in getattr(r, "assumptions", []):
            scans.append(dict(unit=unit, **a))
            t = "%s:%s %s (generated line %s)" % (unit, a.get("kind"), a.get("item"), a.get("line"))
    for s in sorted(set("%s: %s %s" % (a["unit"], a["kind"], a["item"]) for a in scans)):
        trusted.append("scan: " + s)
    samples = []
    for o in all_obl[:6] + [o for o in all_obl if o["status"] == "failed"][:4]:
        samples.append(dict(id=o["id"], kind=o["kind"], label=o.get("label"), status=o["status"],
                            clause=(o.get("text") or "")[:240], backend=("verus+z3" if o.get("_route") == "verus" else "kani+cbmc")))
    cov = dict(
        obligations=len(all_obl),
        discharged=len(discharged),
        bounded_obligations=len(bounded),
        bounded_discharged=len([o for o in bounded if o["status"] == "discharged"]),
        checker_cmd=" ; ".join(c for c in cmds if c) or "./check %s" % pid,
        trusted_base=trusted,
        functions_under_contract=fns,
        units=units,
        rewrite_applications=rewrites,
        extraction_drops=dropped,
        obligation_list=[dict(id=o["id"], kind=o["kind"], status=o["status"], label=o.get("label"),
                              strength=o.get("strength", "unbounded" if o.get("_route") == "verus" else "complete"),
                              backend=("verus+z3" if o.get("_route") == "verus" else "kani+cbmc"),
                              time_s=o.get("time_s")) for o in all_obl + bounded],
        not_decided=P.get("not_decided", []),
        source_sha256=sha,
        undecided_units=undecided,
        known_findings_reproduced=[k.get("witness") for k, o in known_hits],
        samples=samples,
        bounded_exploration=(dict(kind="twin search (real FreeSpaceManager vs set model, all call sequences up to the stated depth); labelled bounded, not counted as proved", result=twin_note) if twin_note else None),
        exhaustive=False,
    )
    ev = dict(property_id=pid, tier=tier, seed=seed, level="proof", coverage=cov,
              assumptions=["%s: %s" % (a, props.ASSUMPTIONS[a]) for a in P.get("assumptions", [])],
              wall_s=round(wall, 2), violations=len(violations))
    json.dump(ev, open(os.path.join(VERIF, "evidence", pid + ".json"), "w"), indent=1)
